#!/usr/bin/env python3
"""merge_agent.py <agent_dir> <Cxx> [<Cyy> ...]: copy an agent's new files into /verif and merge
its checkcfg / manifest_text / props_index entries. Shared source files (main.rs, Driver.lean,
SradModel.lean) are merged by hand."""
import json, os, shutil, subprocess, sys, importlib.util
src = sys.argv[1].rstrip("/")
pids = sys.argv[2:]
dst = "/verif"
for sub in ["lean/SradModel/Model", "lean/SradModel/Drv", "lean/SradModel/Proofs", "lean/SradModel/Props",
            "lean/SradModel/Generated", "harness/src", "corpus"]:
    s = os.path.join(src, sub)
    if not os.path.isdir(s):
        continue
    for base, dirs, files in os.walk(s):
        for f in files:
            sp = os.path.join(base, f)
            rel = os.path.relpath(sp, src)
            dp = os.path.join(dst, rel)
            if not os.path.exists(dp):
                os.makedirs(os.path.dirname(dp), exist_ok=True)
                shutil.copy(sp, dp)
                print("copied", rel)
            elif open(sp, "rb").read() != open(dp, "rb").read():
                print("DIFFERS (not copied)", rel)
def load(path, name):
    spec = importlib.util.spec_from_file_location(name, path)
    m = importlib.util.module_from_spec(spec)
    spec.loader.exec_module(m)
    return m
cc = json.load(open(os.path.join(dst, "checkcfg.json")))
mt = json.load(open(os.path.join(dst, "manifest_text.json")))
pi = json.load(open(os.path.join(dst, "lean/props_index.json")))
a_cc = load(os.path.join(src, "checkcfg.py"), "a_cc").PROPS
a_mt = load(os.path.join(src, "manifest_text.py"), "a_mt").LEVEL
a_pi = json.load(open(os.path.join(src, "lean/props_index.json")))
for p in pids:
    if p in a_cc: cc[p] = a_cc[p]
    if p in a_mt: mt["LEVEL"][p] = a_mt[p]
    if p in a_pi: pi[p] = a_pi[p]
    print("merged entries for", p, p in a_cc, p in a_mt, p in a_pi)
json.dump(cc, open(os.path.join(dst, "checkcfg.json"), "w"), indent=1)
json.dump(mt, open(os.path.join(dst, "manifest_text.json"), "w"), indent=1)
json.dump(pi, open(os.path.join(dst, "lean/props_index.json"), "w"), indent=1)
