//! C11 — component `birth`: birth certificates of real srad-eon nodes and devices.
//!
//! A case builds a real node with `EoNBuilder` over the mock client / event loop, with a scripted
//! manager (a list of registration requests replayed inside `initialise_birth`, results recorded)
//! or the library's `SimpleMetricManager`, brings it Online and captures the NBIRTH / DBIRTH
//! payloads at the client, across births, rebirths, reconnects, template-registry updates and
//! device (un)registration. Every request line is answered by the implementation here and by the
//! Lean model (`Drv/Birth.lean`); the oracle clauses state C11 directly over the payloads.
use crate::common::*;
use crate::mock::{self, EventFeeder, Hub, Kind, Obs};
use async_trait::async_trait;
use srad_client::{DeviceMessage, Event, Message, MessageKind, NodeMessage};
use srad_eon::{
    BirthInitializer, BirthMetricDetails, DeviceHandle, DeviceMetricManager, EoNBuilder,
    MessageMetrics, MetricManager, MetricPublisher, MetricToken, NodeHandle, NodeMetricManager,
    SimpleMetricBuilder, SimpleMetricManager, TemplateRegistry,
};
use srad_types::payload::{metric, DataType, Metric, Payload};
use srad_types::{
    traits, MetricId, MetricValue, Template, TemplateDefinition, TemplateInstance,
    TemplateMetadata, TemplateMetric,
};
use std::cell::RefCell;
use std::collections::{BTreeMap, BTreeSet, HashMap, HashSet};
use std::hash::{DefaultHasher, Hash, Hasher};
use std::panic::AssertUnwindSafe;
use std::sync::atomic::{AtomicUsize, Ordering};
use std::sync::{Arc, Mutex};

pub const RULE: &str = "a case is non-trivial when at least one birth certificate was captured in which the manager had a request accepted or rejected";

const BDSEQ: &str = "bdSeq";
const REBIRTH: &str = "Node Control/Rebirth";
const NSLOTS: usize = 8;

/// all panics (counted by the panic hook) and those caught inside the scripted manager
static PANICS: AtomicUsize = AtomicUsize::new(0);
static CAUGHT: AtomicUsize = AtomicUsize::new(0);

fn uncaught() -> usize {
    PANICS.load(Ordering::SeqCst) - CAUGHT.load(Ordering::SeqCst)
}

pub fn install_hook() {
    std::panic::set_hook(Box::new(|_| {
        PANICS.fetch_add(1, Ordering::SeqCst);
    }));
}

/// the real hash: `DefaultHasher` over the `String`, as birth.rs / device.rs compute it
pub fn real_hash(name: &str) -> u64 {
    let s = name.to_string();
    let mut h = DefaultHasher::new();
    s.hash(&mut h);
    h.finish()
}

/// hex that is empty for the empty string (answers mark presence with a `.` prefix)
fn hx(b: &[u8]) -> String {
    if b.is_empty() {
        String::new()
    } else {
        hex(b)
    }
}

fn unhex_str(s: &str) -> Option<String> {
    if s != "-" && (s.len() % 2 != 0 || !s.bytes().all(|c| c.is_ascii_hexdigit())) {
        return None;
    }
    String::from_utf8(unhex(s)).ok()
}

// ---------------------------------------------------------------------------------------------
// value types driven through the public registration API

static ALL_DT: [DataType; 35] = [
    DataType::Unknown, DataType::Int8, DataType::Int16, DataType::Int32, DataType::Int64,
    DataType::UInt8, DataType::UInt16, DataType::UInt32, DataType::UInt64, DataType::Float,
    DataType::Double, DataType::Boolean, DataType::String, DataType::DateTime, DataType::Text,
    DataType::Uuid, DataType::DataSet, DataType::Bytes, DataType::File, DataType::Template,
    DataType::PropertySet, DataType::PropertySetList, DataType::Int8Array, DataType::Int16Array,
    DataType::Int32Array, DataType::Int64Array, DataType::UInt8Array, DataType::UInt16Array,
    DataType::UInt32Array, DataType::UInt64Array, DataType::FloatArray, DataType::DoubleArray,
    DataType::BooleanArray, DataType::StringArray, DataType::DateTimeArray,
];

fn dt_of(code: u32) -> Option<DataType> {
    ALL_DT.get(code as usize).copied()
}

/// a user value type that claims every datatype and carries any protobuf value
#[derive(Clone, Debug)]
pub struct Raw(pub metric::Value);

impl traits::HasDataType for Raw {
    fn supported_datatypes() -> &'static [DataType] {
        &ALL_DT
    }
}
impl From<Raw> for MetricValue {
    fn from(r: Raw) -> Self {
        MetricValue::new(r.0)
    }
}
impl TryFrom<MetricValue> for Raw {
    type Error = ();
    fn try_from(v: MetricValue) -> Result<Self, ()> {
        Ok(Raw(v.0))
    }
}
impl traits::MetricValue for Raw {}

/// a type that is both a `Template` and a `traits::MetricValue`: reaches
/// `register_template_metric` without a value and `register_metric` with datatype Template
#[derive(Clone, Debug)]
pub struct Both {
    pub tref: String,
}
impl TemplateMetadata for Both {
    fn template_name() -> &'static str {
        "both"
    }
}
impl TryFrom<TemplateInstance> for Both {
    type Error = ();
    fn try_from(v: TemplateInstance) -> Result<Self, ()> {
        Ok(Both { tref: v.template_ref })
    }
}
impl Template for Both {
    fn template_definition() -> TemplateDefinition {
        TemplateDefinition { version: None, metrics: vec![], parameters: vec![] }
    }
    fn template_instance(&self) -> TemplateInstance {
        TemplateInstance {
            template_ref: self.tref.clone(),
            version: None,
            metrics: vec![],
            parameters: vec![],
        }
    }
}
impl From<Both> for MetricValue {
    fn from(b: Both) -> Self {
        b.template_instance().into()
    }
}
impl TryFrom<MetricValue> for Both {
    type Error = ();
    fn try_from(v: MetricValue) -> Result<Self, ()> {
        TemplateInstance::try_from(v).map_err(|_| ()).and_then(Both::try_from)
    }
}
impl traits::MetricValue for Both {}

thread_local! {
    /// definition metric names of the template slots `Tpl<0>` .. `Tpl<7>` for the current case
    static TPL_NAMES: RefCell<Vec<String>> = RefCell::new(vec![String::new(); NSLOTS]);
}

fn tpl_name(slot: usize) -> String {
    TPL_NAMES.with(|t| t.borrow()[slot].clone())
}

/// template type of slot `N`: its definition has `N + 1` metrics
pub struct Tpl<const N: usize>;
impl<const N: usize> TemplateMetadata for Tpl<N> {
    fn template_name() -> &'static str {
        "tpl"
    }
    fn template_definition_metric_name() -> String {
        tpl_name(N)
    }
}
impl<const N: usize> TryFrom<TemplateInstance> for Tpl<N> {
    type Error = ();
    fn try_from(_: TemplateInstance) -> Result<Self, ()> {
        Ok(Tpl::<N>)
    }
}
impl<const N: usize> Template for Tpl<N> {
    fn template_definition() -> TemplateDefinition {
        TemplateDefinition {
            version: None,
            metrics: (0..=N)
                .map(|i| TemplateMetric::new_template_metric(format!("f{}", i), i as i32))
                .collect(),
            parameters: vec![],
        }
    }
    fn template_instance(&self) -> TemplateInstance {
        TemplateInstance {
            template_ref: tpl_name(N),
            version: None,
            metrics: vec![],
            parameters: vec![],
        }
    }
}

fn reg_register(reg: &mut TemplateRegistry, slot: usize) -> String {
    let r = match slot {
        0 => reg.register::<Tpl<0>>().map_err(|e| format!("{:?}", e)),
        1 => reg.register::<Tpl<1>>().map_err(|e| format!("{:?}", e)),
        2 => reg.register::<Tpl<2>>().map_err(|e| format!("{:?}", e)),
        3 => reg.register::<Tpl<3>>().map_err(|e| format!("{:?}", e)),
        4 => reg.register::<Tpl<4>>().map_err(|e| format!("{:?}", e)),
        5 => reg.register::<Tpl<5>>().map_err(|e| format!("{:?}", e)),
        6 => reg.register::<Tpl<6>>().map_err(|e| format!("{:?}", e)),
        7 => reg.register::<Tpl<7>>().map_err(|e| format!("{:?}", e)),
        _ => Err("bad".to_string()),
    };
    match r {
        Ok(()) => "ok".into(),
        Err(e) if e == "InvalidName" => "inv".into(),
        Err(e) if e == "Duplicate" => "dup".into(),
        Err(e) if e == "bad" => "bad".into(),
        Err(_) => "other".into(),
    }
}

fn builder_register(b: EoNBuilder, slot: usize) -> EoNBuilder {
    match slot {
        0 => b.register_template::<Tpl<0>>(),
        1 => b.register_template::<Tpl<1>>(),
        2 => b.register_template::<Tpl<2>>(),
        3 => b.register_template::<Tpl<3>>(),
        4 => b.register_template::<Tpl<4>>(),
        5 => b.register_template::<Tpl<5>>(),
        6 => b.register_template::<Tpl<6>>(),
        _ => b.register_template::<Tpl<7>>(),
    }
}

// ---------------------------------------------------------------------------------------------
// value tokens

/// canonical token of a protobuf metric value
pub fn val_tok(v: &metric::Value) -> String {
    match v {
        metric::Value::IntValue(x) => format!("I{}", x),
        metric::Value::LongValue(x) => format!("L{}", x),
        metric::Value::FloatValue(x) => format!("F{}", x.to_bits()),
        metric::Value::DoubleValue(x) => format!("D{}", x.to_bits()),
        metric::Value::BooleanValue(b) => format!("B{}", *b as u8),
        metric::Value::StringValue(s) => format!("S{}", hex(s.as_bytes())),
        metric::Value::BytesValue(b) => format!("Y{}", hex(b)),
        metric::Value::TemplateValue(t) => {
            if t.is_definition == Some(true) {
                format!("def:{}", t.metrics.len())
            } else {
                format!("inst:{}", hex(t.template_ref.clone().unwrap_or_default().as_bytes()))
            }
        }
        _ => "X".into(),
    }
}

/// the value a token stands for (tokens of user values only)
fn tok_val(t: &str) -> Option<metric::Value> {
    let (k, r) = t.split_at(1);
    Some(match k {
        "I" => metric::Value::IntValue(r.parse().ok()?),
        "L" => metric::Value::LongValue(r.parse().ok()?),
        "F" => metric::Value::FloatValue(f32::from_bits(r.parse().ok()?)),
        "D" => metric::Value::DoubleValue(f64::from_bits(r.parse().ok()?)),
        "B" => metric::Value::BooleanValue(r == "1"),
        "S" => metric::Value::StringValue(unhex_str(r)?),
        "Y" => metric::Value::BytesValue(unhex(r)),
        _ => return None,
    })
}

fn show_metric(m: &Metric) -> String {
    format!(
        "{},{},{},{},{},{}",
        m.name.as_ref().map(|n| format!(".{}", hx(n.as_bytes()))).unwrap_or("-".into()),
        m.alias.map(|a| a.to_string()).unwrap_or("-".into()),
        m.datatype.map(|a| a.to_string()).unwrap_or("-".into()),
        m.timestamp.map(|a| a.to_string()).unwrap_or("-".into()),
        match m.is_null {
            None => "-",
            Some(true) => "t",
            Some(false) => "f",
        },
        m.value.as_ref().map(val_tok).unwrap_or("-".into())
    )
}

fn show_id(id: &MetricId) -> String {
    match id {
        MetricId::Alias(a) => format!("a{}", a),
        MetricId::Name(n) => format!("n{}", hx(n.as_bytes())),
    }
}

// ---------------------------------------------------------------------------------------------
// the scripted manager

#[derive(Clone, Debug)]
pub enum ReqSpec {
    /// `register_metric` with a `Raw` value
    Metric { name: String, alias: bool, dt: u32, val: Option<String>, ts: Option<u64> },
    /// `register_template_metric` with a `Both` value (`tref`) or none
    Template { name: String, alias: bool, dt: u32, tref: Option<String>, ts: Option<u64> },
}

impl ReqSpec {
    fn name(&self) -> &str {
        match self {
            ReqSpec::Metric { name, .. } | ReqSpec::Template { name, .. } => name,
        }
    }
    fn to_tok(&self) -> String {
        match self {
            ReqSpec::Metric { name, alias, dt, val, ts } => format!(
                "m,{},{},{},{},{}",
                hex(name.as_bytes()),
                if *alias { "a" } else { "n" },
                dt,
                val.clone().unwrap_or("-".into()),
                ts.map(|t| t.to_string()).unwrap_or("-".into())
            ),
            ReqSpec::Template { name, alias, dt, tref, ts } => format!(
                "t,{},{},{},{},{}",
                hex(name.as_bytes()),
                if *alias { "a" } else { "n" },
                dt,
                tref.as_ref().map(|t| hex(t.as_bytes())).unwrap_or("-".into()),
                ts.map(|t| t.to_string()).unwrap_or("-".into())
            ),
        }
    }
    fn parse(s: &str) -> Option<ReqSpec> {
        let p: Vec<&str> = s.split(',').collect();
        if p.len() != 6 {
            return None;
        }
        let name = unhex_str(p[1])?;
        let alias = match p[2] {
            "a" => true,
            "n" => false,
            _ => return None,
        };
        let dt: u32 = p[3].parse().ok()?;
        let ts = if p[5] == "-" { None } else { Some(p[5].parse().ok()?) };
        match p[0] {
            "m" => {
                let val = if p[4] == "-" { None } else { Some(p[4].to_string()) };
                if let Some(v) = &val {
                    tok_val(v)?;
                }
                dt_of(dt)?;
                Some(ReqSpec::Metric { name, alias, dt, val, ts })
            }
            "t" => {
                let tref = if p[4] == "-" { None } else { Some(unhex_str(p[4])?) };
                if dt != 19 {
                    return None;
                }
                Some(ReqSpec::Template { name, alias, dt, tref, ts })
            }
            _ => None,
        }
    }
}

pub enum Tok {
    Raw(MetricToken<Raw>),
    Both(MetricToken<Both>),
}

impl Tok {
    fn id(&self) -> &MetricId {
        match self {
            Tok::Raw(t) => &t.id,
            Tok::Both(t) => &t.id,
        }
    }
}

#[derive(Clone, Debug)]
pub enum Upd {
    Reg(usize),
    Dereg(String),
    Clear,
}

#[derive(Default)]
pub struct ScriptedInner {
    pub script: Vec<ReqSpec>,
    /// the script as it was replayed at the latest birth (tokens / results refer to it)
    pub birth_script: Vec<ReqSpec>,
    /// per request of the latest birth: token id / error class / `p`
    pub results: Vec<String>,
    pub tokens: Vec<Option<Tok>>,
    pub regupd: Vec<Upd>,
    pub regres: Vec<String>,
    pub births: usize,
}

#[derive(Clone, Default)]
pub struct Scripted(pub Arc<Mutex<ScriptedInner>>);

fn err_class(e: &srad_eon_birth_error::E) -> String {
    e.0.clone()
}

/// `BirthMetricError` is not re-exported by srad-eon: classify by its `Debug` name
mod srad_eon_birth_error {
    pub struct E(pub String);
    pub fn classify<D: std::fmt::Debug>(e: &D) -> E {
        let s = format!("{:?}", e);
        E(match s.as_str() {
            "DuplicateMetric" => "e:dup",
            "UnsupportedDatatype" => "e:unsup",
            "ValueNotProvided" => "e:noval",
            "UnregisteredTemplate" => "e:unreg",
            "MetricValueDatatypeMismatch" => "e:mismatch",
            _ => "e:other",
        }
        .to_string())
    }
}

fn run_req(bi: &mut BirthInitializer, r: &ReqSpec) -> (String, Option<Tok>) {
    let res = catch(AssertUnwindSafe(|| match r {
        ReqSpec::Metric { name, alias, dt, val, ts } => {
            let dt = dt_of(*dt).unwrap();
            let d = match val {
                Some(v) => BirthMetricDetails::new_with_initial_value_explicit_type(
                    name.clone(),
                    Raw(tok_val(v).unwrap()),
                    dt,
                ),
                None => BirthMetricDetails::<Raw>::new_without_initial_value(name.clone(), dt),
            };
            let mut d = match d {
                Ok(d) => d.use_alias(*alias),
                Err(e) => return Err(err_class(&srad_eon_birth_error::classify(&e))),
            };
            if let Some(ts) = ts {
                d = d.with_timestamp(*ts);
            }
            bi.register_metric(d)
                .map(Tok::Raw)
                .map_err(|e| err_class(&srad_eon_birth_error::classify(&e)))
        }
        ReqSpec::Template { name, alias, tref, ts, .. } => {
            let d = match tref {
                Some(t) => Ok(BirthMetricDetails::new_template_metric(
                    name.clone(),
                    Both { tref: t.clone() },
                )),
                None => BirthMetricDetails::<Both>::new_without_initial_value(
                    name.clone(),
                    DataType::Template,
                ),
            };
            let mut d = match d {
                Ok(d) => d.use_alias(*alias),
                Err(e) => return Err(err_class(&srad_eon_birth_error::classify(&e))),
            };
            if let Some(ts) = ts {
                d = d.with_timestamp(*ts);
            }
            bi.register_template_metric(d)
                .map(Tok::Both)
                .map_err(|e| err_class(&srad_eon_birth_error::classify(&e)))
        }
    }));
    match res {
        Ok(Ok(t)) => (show_id(t.id()), Some(t)),
        Ok(Err(e)) => (e, None),
        Err(_) => {
            CAUGHT.fetch_add(1, Ordering::SeqCst);
            ("p".into(), None)
        }
    }
}

impl MetricManager for Scripted {
    fn initialise_birth(&self, bi: &mut BirthInitializer) {
        let mut g = self.0.lock().unwrap();
        let script = g.script.clone();
        g.birth_script = script.clone();
        g.results.clear();
        g.tokens.clear();
        for r in &script {
            let (s, t) = run_req(bi, r);
            g.results.push(s);
            g.tokens.push(t);
        }
        g.births += 1;
    }
}

#[async_trait]
impl NodeMetricManager for Scripted {
    fn birth_update_template_registry(&self, reg: &mut TemplateRegistry) {
        let mut g = self.0.lock().unwrap();
        let upd = std::mem::take(&mut g.regupd);
        g.regres = upd.iter().map(|u| apply_upd(reg, u)).collect();
    }
    async fn on_ncmd(&self, _: NodeHandle, _: MessageMetrics) {}
}

#[async_trait]
impl DeviceMetricManager for Scripted {
    async fn on_dcmd(&self, _: DeviceHandle, _: MessageMetrics) {}
}

fn apply_upd(reg: &mut TemplateRegistry, u: &Upd) -> String {
    match u {
        Upd::Reg(slot) => reg_register(reg, *slot),
        Upd::Dereg(n) => {
            reg.deregister(n);
            "-".into()
        }
        Upd::Clear => {
            reg.clear();
            "-".into()
        }
    }
}

/// node manager wrapping a SimpleMetricManager so that registry updates can be scripted too
#[derive(Clone)]
pub struct SimpleNode {
    pub mgr: SimpleMetricManager<NodeHandle>,
    pub side: Scripted,
}

impl MetricManager for SimpleNode {
    fn initialise_birth(&self, bi: &mut BirthInitializer) {
        self.mgr.initialise_birth(bi)
    }
}

#[async_trait]
impl NodeMetricManager for SimpleNode {
    fn init(&self, handle: &NodeHandle) {
        NodeMetricManager::init(&self.mgr, handle)
    }
    fn birth_update_template_registry(&self, reg: &mut TemplateRegistry) {
        self.side.birth_update_template_registry(reg)
    }
    async fn on_ncmd(&self, node: NodeHandle, metrics: MessageMetrics) {
        self.mgr.on_ncmd(node, metrics).await
    }
}

// ---------------------------------------------------------------------------------------------
// the simulated world around one real node

type PubFut = std::pin::Pin<Box<dyn std::future::Future<Output = bool>>>;

pub struct SimpleEntry {
    name: String,
    alias: bool,
    dt: u32,
    val: String,
    cb: bool,
    publish: Box<dyn Fn() -> PubFut>,
}

pub enum SimpleH {
    Node(SimpleMetricManager<NodeHandle>),
    Dev(SimpleMetricManager<DeviceHandle>),
}

pub enum ObjMgr {
    Scripted(Scripted),
    Simple { h: SimpleH, entries: Vec<SimpleEntry> },
}

pub struct Obj {
    mgr: ObjMgr,
    dead: bool,
    /// latest captured birth payload
    birth: Option<Payload>,
    /// simple: entry names in the order of the latest birth
    order: Vec<String>,
}

fn add_simple_typed<T, H>(
    mgr: &SimpleMetricManager<H>,
    name: &str,
    val: T,
    alias: bool,
    cb: bool,
    hub: &Hub,
) -> Option<Box<dyn Fn() -> PubFut>>
where
    T: traits::MetricValue + Clone + Send + 'static,
    H: MetricPublisher + Clone + Send + Sync + 'static,
{
    let mut b = SimpleMetricBuilder::new(name.to_string(), val).use_alias(alias);
    if cb {
        let hub = hub.clone();
        let tag = format!("cb {}", hex(name.as_bytes()));
        b = b.with_cmd_handler(move |_m, _x, _v| {
            let hub = hub.clone();
            let tag = tag.clone();
            async move {
                hub.note(tag);
            }
        });
    }
    let metric = mgr.register_metric(b)?;
    let mgr = mgr.clone();
    Some(Box::new(move || {
        let metric = metric.clone();
        let mgr = mgr.clone();
        Box::pin(async move { mgr.publish_metric(metric.update(|_| {})).await.is_ok() }) as PubFut
    }))
}

/// (datatype code of the Rust type used, value token it births with)
pub const SIMPLE_TYPES: [(u32, &str); 7] = [
    (3, "I7"),
    (11, "B1"),
    (12, "S73"),
    (10, "D4609434218613702656"),
    (8, "L9"),
    (25, "Y01000000000000000200000000000000"),
    (19, "X"),
];

fn add_simple<H>(
    mgr: &SimpleMetricManager<H>,
    name: &str,
    dt: u32,
    alias: bool,
    cb: bool,
    hub: &Hub,
) -> Option<Box<dyn Fn() -> PubFut>>
where
    H: MetricPublisher + Clone + Send + Sync + 'static,
{
    match dt {
        3 => add_simple_typed(mgr, name, 7i32, alias, cb, hub),
        11 => add_simple_typed(mgr, name, true, alias, cb, hub),
        12 => add_simple_typed(mgr, name, "s".to_string(), alias, cb, hub),
        10 => add_simple_typed(mgr, name, 1.5f64, alias, cb, hub),
        8 => add_simple_typed(mgr, name, 9u64, alias, cb, hub),
        25 => add_simple_typed(mgr, name, vec![1i64, 2i64], alias, cb, hub),
        _ => add_simple_typed(
            mgr,
            name,
            TemplateDefinition { version: None, metrics: vec![], parameters: vec![] },
            alias,
            cb,
            hub,
        ),
    }
}

pub struct Sim {
    rt: tokio::runtime::Runtime,
    hub: Hub,
    feeder: Option<EventFeeder>,
    handle: Option<NodeHandle>,
    node: Option<Obj>,
    node_side: Scripted,
    devs: BTreeMap<String, (DeviceHandle, Obj)>,
    /// every handle `register_device` ever returned for a name, oldest first (an application may keep clones)
    kept: BTreeMap<String, Vec<DeviceHandle>>,
    /// devices live ON THE WIRE: a DBIRTH was handed to the client and no DDEATH / NDEATH / NBIRTH since
    wire_live: BTreeMap<String, Payload>,
    seen_calls: usize,
    hashed: HashSet<String>,
    online: bool,
    /// oracle-side knowledge, kept independently of what srad reports in payloads
    deaths: u64,
    reg_truth: BTreeSet<String>,
    dev_reg_truth: BTreeSet<String>,
    flags: String,
    pending_upd: Vec<Upd>,
    pub saw_decision: bool,
}

pub fn build_flags() -> String {
    // debug assertions and overflow checks of the build profile (srad is compiled with the
    // same profile); the alias bump variant is probed on the real code once per process
    let mut f = String::new();
    if cfg!(debug_assertions) {
        f.push('d');
    }
    let ovf = catch(|| {
        let x: u8 = std::hint::black_box(255);
        std::hint::black_box(x + std::hint::black_box(1))
    })
    .is_err();
    if ovf {
        f.push('o');
    }
    if probe_in_half() {
        f.push('h');
    }
    if f.is_empty() {
        f.push('-');
    }
    f
}

thread_local! {
    static FLAGS: RefCell<Option<String>> = const { RefCell::new(None) };
}

fn flags() -> String {
    FLAGS.with(|f| {
        if f.borrow().is_none() {
            // placeholder while probing (the probe itself builds a Sim)
            *f.borrow_mut() = Some("-".into());
            let v = build_flags();
            *f.borrow_mut() = Some(v);
        }
        f.borrow().clone().unwrap()
    })
}

/// names whose 32-bit hash is 0xFFFF_FFFF / 0 / 1 under the real `DefaultHasher` (found offline
/// by brute force over 9-character strings; checked at start-up)
pub const H_FFFFFFFF: [&str; 3] = ["aaa1lidyg", "daau821aq", "daaxh4hmb"];
pub const H_0: [&str; 3] = ["aaa026ui7", "aaamf0u7z", "caai9nisy"];
pub const H_1: [&str; 2] = ["eaagfroq1", "eaank6t2q"];
pub const H_FFFFFFFE: [&str; 2] = ["aaasmioiu", "baazogsjt"];

/// does the collision bump stay inside the low 32 bits? (two node metrics hashing to
/// 0xFFFF_FFFF: the second alias is 0 when it does, 0x1_0000_0000 with `alias += 1`)
fn probe_in_half() -> bool {
    let mut sim = Sim::new();
    let mut sink = Out::new(&std::env::temp_dir().join(format!("srad-verif-probe-{}", std::process::id())));
    let script = format!(
        "m,{},a,3,I1,-;m,{},a,3,I1,-",
        hex(H_FFFFFFFF[0].as_bytes()),
        hex(H_FFFFFFFF[1].as_bytes())
    );
    sim.exec("birth new -", &mut sink);
    sim.exec("birth node scripted _", &mut sink);
    sim.exec(&format!("birth script n {}", script), &mut sink);
    sim.exec("birth online", &mut sink);
    let r = sim
        .node
        .as_ref()
        .and_then(|n| n.birth.as_ref())
        .map(|p| p.metrics.iter().filter_map(|m| m.alias).collect::<Vec<u64>>())
        .unwrap_or_default();
    r == vec![0xFFFF_FFFF, 0]
}

fn topic_device(topic: &str) -> String {
    topic.rsplit('/').next().unwrap_or("").to_string()
}

impl Sim {
    pub fn new() -> Sim {
        mock::set_clocks(1_000_000);
        TPL_NAMES.with(|t| *t.borrow_mut() = vec![String::new(); NSLOTS]);
        Sim {
            rt: mock::runtime(),
            hub: Hub::new(),
            feeder: None,
            handle: None,
            node: None,
            node_side: Scripted::default(),
            devs: BTreeMap::new(),
            kept: BTreeMap::new(),
            wire_live: BTreeMap::new(),
            seen_calls: 0,
            hashed: HashSet::new(),
            online: false,
            deaths: 0,
            reg_truth: BTreeSet::new(),
            dev_reg_truth: BTreeSet::new(),
            flags: String::new(),
            pending_upd: vec![],
            saw_decision: false,
        }
    }

    fn settle(&self) {
        self.rt.block_on(async { mock::settle().await });
    }

    fn hash_lines(&mut self, names: &[String], out: &mut Out) {
        for n in names {
            if self.hashed.insert(n.clone()) {
                out.line(&format!("birth hash {} {}", hex(n.as_bytes()), real_hash(n)), "ok");
            }
        }
    }

    fn obj_mut(&mut self, t: &str) -> Option<&mut Obj> {
        if t == "n" {
            self.node.as_mut()
        } else {
            let n = unhex_str(t)?;
            self.devs.get_mut(&n).map(|e| &mut e.1)
        }
    }

    /// new NBIRTH / DBIRTH payloads handed to the client since the last look
    fn new_births(&mut self) -> (Option<Payload>, BTreeMap<String, Payload>) {
        let calls = self.hub.calls();
        let mut nb = None;
        let mut db = BTreeMap::new();
        for c in &calls[self.seen_calls..] {
            match c.kind {
                Kind::NBirth => {
                    nb = c.payload.clone();
                    self.wire_live.clear();
                }
                Kind::NDeath => self.wire_live.clear(),
                Kind::DBirth => {
                    if let Some(p) = &c.payload {
                        db.insert(topic_device(&c.topic), p.clone());
                        self.wire_live.insert(topic_device(&c.topic), p.clone());
                    }
                }
                Kind::DDeath => {
                    self.wire_live.remove(&topic_device(&c.topic));
                }
                _ => {}
            }
        }
        self.seen_calls = calls.len();
        (nb, db)
    }
}

fn csv(s: &str) -> Vec<&str> {
    if s == "_" {
        vec![]
    } else {
        s.split(',').collect()
    }
}

fn parse_upd(s: &str) -> Option<Upd> {
    if s == "c" {
        return Some(Upd::Clear);
    }
    let (k, r) = s.split_at(1);
    match k {
        "r" => r.parse::<usize>().ok().filter(|x| *x < NSLOTS).map(Upd::Reg),
        "d" => unhex_str(r).map(Upd::Dereg),
        _ => None,
    }
}

impl Sim {
    /// Execute one request line on the real code; writes the (completed) request line and the
    /// implementation's answer. Clock readings and observed hash-map orders are filled in here,
    /// values given for them in a replayed line are ignored; `hash` lines are regenerated.
    pub fn exec(&mut self, line: &str, out: &mut Out) {
        let w: Vec<&str> = line.split_whitespace().collect();
        if w.len() < 2 || w[0] != "birth" {
            out.line(line, "bad-op");
            return;
        }
        match w[1] {
            "new" => {
                self.flags = flags();
                out.begin_case(&format!("birth new {}", self.flags), "ok");
            }
            "hash" => {}
            "tpl" if w.len() == 4 => {
                match (w[2].parse::<usize>().ok().filter(|x| *x < NSLOTS), unhex_str(w[3])) {
                    (Some(slot), Some(name)) => {
                        TPL_NAMES.with(|t| t.borrow_mut()[slot] = name);
                        out.line(line, "ok");
                    }
                    _ => out.line(line, "bad-op"),
                }
            }
            "node" if w.len() == 4 => self.op_node(line, w[2], w[3], out),
            "regupd" if w.len() == 3 => {
                let u: Option<Vec<Upd>> = csv(w[2]).into_iter().map(parse_upd).collect();
                match u {
                    Some(u) => {
                        self.pending_upd = u.clone();
                        self.node_side.0.lock().unwrap().regupd = u;
                        out.line(line, "ok");
                    }
                    None => out.line(line, "bad-op"),
                }
            }
            "script" if w.len() == 4 => {
                let reqs: Option<Vec<ReqSpec>> = if w[3] == "_" {
                    Some(vec![])
                } else {
                    w[3].split(';').map(ReqSpec::parse).collect()
                };
                let reqs = match reqs {
                    Some(r) => r,
                    None => return out.line(line, "bad-op"),
                };
                let names: Vec<String> = reqs.iter().map(|r| r.name().to_string()).collect();
                self.hash_lines(&names, out);
                match self.obj_mut(w[2]).map(|o| &o.mgr) {
                    Some(ObjMgr::Scripted(s)) => {
                        s.0.lock().unwrap().script = reqs;
                        out.line(line, "ok")
                    }
                    _ => out.line(line, "bad-op"),
                }
            }
            "simple" if w.len() == 4 => self.op_simple(line, w[2], w[3], out),
            "dev" if w.len() >= 4 => self.op_dev(w[2], w[3], out),
            "undev" if w.len() == 3 => match (unhex_str(w[2]), self.handle.clone()) {
                (Some(n), Some(h)) => {
                    self.rt.block_on(async { h.unregister_device_named(&n).await });
                    self.devs.remove(&n);
                    self.settle();
                    self.new_births();
                    out.line(line, "ok");
                }
                _ => out.line(line, "bad-op"),
            },
            // unregister through the k-th handle ever returned for this name (a kept clone, possibly of a
            // registration that is long gone): `unregister_device(handle)` unregisters the device of that name
            "undevh" if w.len() == 4 => {
                // (k beyond the last = the newest; a name never registered has no handle: nothing to do)
                let kh = match (unhex_str(w[2]), w[3].parse::<usize>().ok()) {
                    (Some(n), Some(k)) => {
                        let dh = self.kept.get(&n).and_then(|v| v.get(k.min(v.len().saturating_sub(1))).cloned());
                        Some((n, dh))
                    }
                    _ => None,
                };
                match (kh, self.handle.clone()) {
                    (Some((n, dh)), Some(h)) => {
                        if let Some(dh) = dh {
                            self.rt.block_on(async { h.unregister_device(dh).await });
                        }
                        self.devs.remove(&n);
                        self.settle();
                        self.new_births();
                        out.line(line, "ok");
                        out.count("op:undevh");
                    }
                    _ => out.line(line, "bad-op"),
                }
            }
            "devmv" if w.len() == 4 => self.op_devmv(line, w[2], w[3], out),
            "online" => self.op_birth("online", None, out),
            "rebirth" => self.op_birth("rebirth", None, out),
            "drebirth" if w.len() >= 3 => self.op_birth("drebirth", Some(w[2]), out),
            "offline" => {
                if let Some(f) = &self.feeder {
                    if self.online {
                        f.push(Event::Offline);
                        self.settle();
                        self.online = false;
                        self.deaths += 1;
                    }
                    self.new_births();
                    self.wire_live.clear();
                    out.line("birth offline", "ok");
                } else {
                    out.line(line, "bad-op");
                }
            }
            "pub" if w.len() == 4 => self.op_pub(line, w[2], w[3], out),
            "cmd" if w.len() == 4 => self.op_cmd(line, w[2], w[3], out),
            _ => out.line(line, "bad-op"),
        }
    }

    fn op_node(&mut self, line: &str, kind: &str, slots: &str, out: &mut Out) {
        let slots: Option<Vec<usize>> =
            csv(slots).into_iter().map(|s| s.parse().ok().filter(|x| *x < NSLOTS)).collect();
        let slots = match slots {
            Some(s) if kind == "scripted" || kind == "simple" => s,
            _ => return out.line(line, "bad-op"),
        };
        let (hub, client, el, feeder) = mock::mock_pair();
        self.hub = hub.clone();
        let side = self.node_side.clone();
        let _g = self.rt.enter();
        let mut b = EoNBuilder::new(el, client).with_group_id("g").with_node_id("n");
        let mgr = if kind == "scripted" {
            b = b.with_metric_manager(side.clone());
            ObjMgr::Scripted(side.clone())
        } else {
            let m = SimpleMetricManager::<NodeHandle>::new();
            b = b.with_metric_manager(SimpleNode { mgr: m.clone(), side: side.clone() });
            ObjMgr::Simple { h: SimpleH::Node(m), entries: vec![] }
        };
        for s in &slots {
            let name = tpl_name(*s);
            match catch(AssertUnwindSafe(move || builder_register(b, *s))) {
                Ok(nb) => {
                    b = nb;
                    self.reg_truth.insert(name);
                }
                Err(_) => return out.line(line, "panic"),
            }
        }
        self.dev_reg_truth = self.reg_truth.clone();
        match b.build() {
            Ok((eon, handle)) => {
                tokio::spawn(eon.run());
                self.handle = Some(handle);
                self.feeder = Some(feeder);
                self.node = Some(Obj { mgr, dead: false, birth: None, order: vec![] });
                drop(_g);
                self.settle();
                out.line(line, "ok");
            }
            Err(_) => out.line(line, "bad-op"),
        }
    }

    fn op_simple(&mut self, line: &str, obj: &str, ents: &str, out: &mut Out) {
        let mut parsed = vec![];
        for e in csv(ents) {
            let p: Vec<&str> = e.split(':').collect();
            if p.len() != 5 {
                return out.line(line, "bad-op");
            }
            let name = match unhex_str(p[0]) {
                Some(n) => n,
                None => return out.line(line, "bad-op"),
            };
            let alias = p[1] == "a";
            let dt: u32 = match p[2].parse() {
                Ok(d) if SIMPLE_TYPES.iter().any(|t| t.0 == d) => d,
                _ => return out.line(line, "bad-op"),
            };
            parsed.push((name, alias, dt, p[3].to_string(), p[4] == "c"));
        }
        let names: Vec<String> = parsed.iter().map(|p| p.0.clone()).collect();
        self.hash_lines(&names, out);
        let hub = self.hub.clone();
        let o = match self.obj_mut(obj) {
            Some(o) => o,
            None => return out.line(line, "bad-op"),
        };
        let mut outs = vec![];
        if o.dead {
            // its mutex is poisoned by the panic inside `initialise_birth`
            return out.line(line, "dead");
        }
        if let ObjMgr::Simple { h, entries } = &mut o.mgr {
            for (name, alias, dt, val, cb) in parsed {
                let r = catch(AssertUnwindSafe(|| match h {
                    SimpleH::Node(m) => add_simple(m, &name, dt, alias, cb, &hub),
                    SimpleH::Dev(m) => add_simple(m, &name, dt, alias, cb, &hub),
                }));
                match r {
                    Ok(Some(publish)) => {
                        entries.push(SimpleEntry { name, alias, dt, val, cb, publish });
                        outs.push("1");
                    }
                    Ok(None) => outs.push("0"),
                    Err(_) => outs.push("p"),
                }
            }
            out.line(line, &outs.join(","));
        } else {
            out.line(line, "bad-op");
        }
    }

    /// while the node is offline: unregister device `old` and register `new` with the SAME
    /// SimpleMetricManager (a clone shares its metrics): the tokens the manager holds must be
    /// replaced by the next birth's
    fn op_devmv(&mut self, line: &str, new: &str, old: &str, out: &mut Out) {
        let (new_n, old_n, handle) = match (unhex_str(new), unhex_str(old), self.handle.clone()) {
            (Some(a), Some(b), Some(h)) if !self.online => (a, b, h),
            _ => return out.line(line, "bad-op"),
        };
        let movable = matches!(self.devs.get(&old_n), Some((_, Obj { mgr: ObjMgr::Simple { h: SimpleH::Dev(_), .. }, dead: false, .. })));
        if !movable {
            return out.line(line, "bad-op");
        }
        self.hash_lines(&[new_n.clone()], out);
        let (_, obj) = self.devs.remove(&old_n).unwrap();
        self.rt.block_on(async { handle.unregister_device_named(&old_n).await });
        self.settle();
        self.new_births();
        let m = match &obj.mgr {
            ObjMgr::Simple { h: SimpleH::Dev(m), .. } => m.clone(),
            _ => unreachable!(),
        };
        let _g = self.rt.enter();
        let res = catch(AssertUnwindSafe(|| handle.register_device(new_n.clone(), m)));
        drop(_g);
        match res {
            Err(_) => out.line(line, "panic"),
            Ok(Err(e)) => {
                let e = format!("{:?}", e);
                out.line(line, if e.starts_with("Duplicate") { "err dup" } else { "err invalid" })
            }
            Ok(Ok(dh)) => {
                dh.enable();
                self.kept.entry(new_n.clone()).or_default().push(dh.clone());
                self.settle();
                self.new_births();
                self.devs.insert(new_n, (dh, Obj { mgr: obj.mgr, dead: false, birth: None, order: vec![] }));
                out.line(line, "ok");
                out.count("op:devmv");
            }
        }
    }

    fn op_dev(&mut self, name: &str, kind: &str, out: &mut Out) {
        let (name, handle) = match (unhex_str(name), self.handle.clone()) {
            (Some(n), Some(h)) if kind == "scripted" || kind == "simple" => (n, h),
            _ => return out.line(&format!("birth dev {} {} 0", name, kind), "bad-op"),
        };
        self.hash_lines(&[name.clone()], out);
        let now = mock::now_ms();
        let op = format!("birth dev {} {} {}", hex(name.as_bytes()), kind, now);
        let _g = self.rt.enter();
        let (mgr, res) = if kind == "scripted" {
            let s = Scripted::default();
            let r = catch(AssertUnwindSafe(|| handle.register_device(name.clone(), s.clone())));
            (ObjMgr::Scripted(s), r)
        } else {
            let m = SimpleMetricManager::<DeviceHandle>::new();
            let r = catch(AssertUnwindSafe(|| handle.register_device(name.clone(), m.clone())));
            (ObjMgr::Simple { h: SimpleH::Dev(m), entries: vec![] }, r)
        };
        drop(_g);
        match res {
            Err(_) => out.line(&op, "panic"),
            Ok(Err(e)) => {
                let e = format!("{:?}", e);
                out.line(&op, if e.starts_with("Duplicate") { "err dup" } else { "err invalid" })
            }
            Ok(Ok(dh)) => {
                dh.enable();
                self.kept.entry(name.clone()).or_default().push(dh.clone());
                self.settle();
                let mut o = Obj { mgr, dead: false, birth: None, order: vec![] };
                let (_, db) = self.new_births();
                let mut ans = "ok".to_string();
                if let Some(p) = db.get(&name) {
                    ans.push_str(&format!(" D{}{}", hex(name.as_bytes()), self.show_dbirth(&mut o, p)));
                    o.birth = Some(p.clone());
                }
                self.devs.insert(name.clone(), (dh, o));
                out.line(&op, &ans);
                if let Some(p) = db.get(&name) {
                    let p = p.clone();
                    self.check_birth(Some(&name), &p, out);
                    self.check_across(out);
                }
            }
        }
    }
}

fn is_def(m: &Metric) -> bool {
    matches!(&m.value, Some(metric::Value::TemplateValue(t)) if t.is_definition == Some(true))
}

fn metric_id_tok(m: &Metric) -> String {
    match (m.alias, &m.name) {
        (Some(a), _) => format!("a{}", a),
        (None, Some(n)) => format!("n{}", hx(n.as_bytes())),
        _ => "none".into(),
    }
}

/// canonical text of a captured birth; records the manager's iteration order for a simple manager
fn show_birth(o: &mut Obj, p: &Payload, is_node: bool) -> String {
    let mut ms: Vec<&Metric> = p.metrics.iter().collect();
    let mut ndefs = 0;
    if is_node {
        while 2 + ndefs < ms.len() && is_def(ms[2 + ndefs]) {
            ndefs += 1;
        }
        if ms.len() >= 2 {
            ms[2..2 + ndefs].sort_by(|a, b| a.name.cmp(&b.name));
        }
    }
    let res: Vec<String> = match &o.mgr {
        ObjMgr::Scripted(s) => s.0.lock().unwrap().results.clone(),
        ObjMgr::Simple { entries, .. } => {
            let names: HashSet<&str> = entries.iter().map(|e| e.name.as_str()).collect();
            let start = if is_node { (2 + ndefs).min(ms.len()) } else { 0 };
            let mine: Vec<&&Metric> = ms[start..]
                .iter()
                .filter(|m| m.name.as_deref().map(|n| names.contains(n)).unwrap_or(false))
                .collect();
            o.order = mine.iter().map(|m| m.name.clone().unwrap()).collect();
            mine.iter().map(|m| metric_id_tok(m)).collect()
        }
    };
    format!(
        "{{res=[{}] m=[{}]}}",
        res.join(","),
        ms.iter().map(|m| show_metric(m)).collect::<Vec<_>>().join("|")
    )
}

impl Sim {
    fn show_dbirth(&self, o: &mut Obj, p: &Payload) -> String {
        show_birth(o, p, false)
    }

    fn orders(&self, who: &[Option<String>]) -> String {
        let mut parts = vec![];
        for w in who {
            let (tag, o) = match w {
                None => ("n".to_string(), self.node.as_ref()),
                Some(d) => (hex(d.as_bytes()), self.devs.get(d).map(|e| &e.1)),
            };
            if let Some(o) = o {
                if let ObjMgr::Simple { entries, .. } = &o.mgr {
                    if !entries.is_empty() && o.order.len() == entries.len() {
                        parts.push(format!(
                            "{}={}",
                            tag,
                            o.order.iter().map(|n| hex(n.as_bytes())).collect::<Vec<_>>().join(",")
                        ));
                    }
                }
            }
        }
        if parts.is_empty() {
            "_".into()
        } else {
            parts.join(";")
        }
    }

    fn op_birth(&mut self, kind: &str, dev: Option<&str>, out: &mut Out) {
        let (feeder, handle) = match (&self.feeder, &self.handle) {
            (Some(f), Some(h)) => (f.clone(), h.clone()),
            _ => return out.line(&format!("birth {}", kind), "bad-op"),
        };
        let now = mock::now_ms();
        let p0 = uncaught();
        let dev_name = dev.and_then(unhex_str);
        let node_alive = self.node.as_ref().map(|n| !n.dead).unwrap_or(false);
        let mut expect_node = false;
        match kind {
            "online" => {
                expect_node = !self.online && node_alive;
                feeder.push(Event::Online);
                self.online = true;
            }
            "rebirth" => {
                expect_node = self.online && node_alive;
                handle.rebirth();
            }
            _ => match dev_name.as_ref().and_then(|d| self.devs.get(d)) {
                Some((dh, _)) => dh.rebirth(),
                None => return out.line(&format!("birth drebirth {} {} _", dev.unwrap_or("-"), now), "bad-op"),
            },
        }
        self.settle();
        let (nb, db) = self.new_births();
        let mut budget = uncaught() - p0;
        let mut ans = String::new();
        let mut who: Vec<Option<String>> = vec![];
        let mut checks: Vec<(Option<String>, Payload)> = vec![];
        let mut node_ok = kind == "drebirth" && self.online && node_alive;
        if kind != "drebirth" {
            // registry bookkeeping of the oracle: what the real `register` calls returned
            let regres = std::mem::take(&mut self.node_side.0.lock().unwrap().regres);
            let upd = std::mem::take(&mut self.pending_upd);
            if expect_node || nb.is_some() {
                if regres.len() == upd.len() {
                    for (u, r) in upd.iter().zip(regres.iter()) {
                        match u {
                            Upd::Reg(s) if r == "ok" => {
                                self.reg_truth.insert(tpl_name(*s));
                            }
                            Upd::Dereg(n) => {
                                self.reg_truth.remove(n);
                            }
                            Upd::Clear => self.reg_truth.clear(),
                            _ => {}
                        }
                    }
                }
                ans.push_str(&format!("reg=[{}] N", regres.join(",")));
                match &nb {
                    Some(p) => {
                        let mut node = self.node.take().unwrap();
                        ans.push_str(&show_birth(&mut node, p, true));
                        node.birth = Some(p.clone());
                        self.node = Some(node);
                        self.dev_reg_truth = self.reg_truth.clone();
                        who.push(None);
                        checks.push((None, p.clone()));
                        node_ok = true;
                    }
                    None => {
                        if budget > 0 {
                            budget -= 1;
                            ans.push_str("{panic}");
                            if let Some(n) = self.node.as_mut() {
                                n.dead = true;
                            }
                            out.count("observed:node-birth-panic");
                        } else {
                            ans.push_str("{missing}");
                        }
                    }
                }
            } else {
                ans.push('-');
            }
        }
        if node_ok {
            let names: Vec<String> = match (&dev_name, kind) {
                (Some(d), "drebirth") => vec![d.clone()],
                _ => self.devs.keys().cloned().collect(),
            };
            for d in names {
                let (dh, mut o) = self.devs.remove(&d).unwrap();
                if !o.dead {
                    match db.get(&d) {
                        Some(p) => {
                            ans.push_str(&format!(" D{}{}", hex(d.as_bytes()), show_birth(&mut o, p, false)));
                            o.birth = Some(p.clone());
                            who.push(Some(d.clone()));
                            checks.push((Some(d.clone()), p.clone()));
                        }
                        None => {
                            if budget > 0 {
                                budget -= 1;
                                o.dead = true;
                                ans.push_str(&format!(" D{}{{panic}}", hex(d.as_bytes())));
                                out.count("observed:device-birth-panic");
                            } else {
                                ans.push_str(&format!(" D{}{{missing}}", hex(d.as_bytes())));
                            }
                        }
                    }
                }
                self.devs.insert(d, (dh, o));
            }
        }
        if kind == "drebirth" {
            ans = if ans.is_empty() { "-".into() } else { ans.trim_start().to_string() };
        }
        let orders = self.orders(&who);
        let op = match kind {
            "drebirth" => format!("birth drebirth {} {} {}", dev.unwrap(), now, orders),
            k => format!("birth {} {} {}", k, now, orders),
        };
        out.line(&op, &ans);
        for (d, p) in &checks {
            self.check_birth(d.as_ref(), p, out);
        }
        if !checks.is_empty() {
            self.check_across(out);
        }
    }

    fn last_data(&mut self) -> Option<Metric> {
        let calls = self.hub.calls();
        let mut r = None;
        for c in &calls[self.seen_calls..] {
            if c.kind == Kind::NData || c.kind == Kind::DData {
                r = c.payload.as_ref().and_then(|p| p.metrics.first().cloned());
            }
        }
        self.seen_calls = calls.len();
        r
    }

    fn op_pub(&mut self, line: &str, obj: &str, k: &str, out: &mut Out) {
        let k: usize = match k.parse() {
            Ok(k) => k,
            Err(_) => return out.line(line, "bad-op"),
        };
        let handle = self.handle.clone();
        let dh = unhex_str(obj).and_then(|d| self.devs.get(&d).map(|e| e.0.clone()));
        let is_node = obj == "n";
        let o = match if is_node { self.node.as_ref() } else { unhex_str(obj).and_then(|d| self.devs.get(&d).map(|e| &e.1)) } {
            Some(o) => o,
            None => return out.line(line, "bad-op"),
        };
        if o.dead {
            return out.line(line, "none");
        }
        let mut req_name: Option<String> = None;
        let published: bool = match &o.mgr {
            ObjMgr::Scripted(s) => {
                let g = s.0.lock().unwrap();
                let pm = match g.tokens.get(k) {
                    Some(Some(Tok::Raw(t))) => {
                        Some(t.create_publish_metric(Some(Raw(metric::Value::IntValue(1)))))
                    }
                    Some(Some(Tok::Both(t))) => {
                        Some(t.create_publish_metric(Some(Both { tref: "x".into() })))
                    }
                    _ => None,
                };
                req_name = g.birth_script.get(k).map(|r| r.name().to_string());
                drop(g);
                match pm {
                    None => false,
                    Some(pm) => self.rt.block_on(async {
                        if is_node {
                            handle.unwrap().publish_metric(pm).await.is_ok()
                        } else {
                            dh.unwrap().publish_metric(pm).await.is_ok()
                        }
                    }),
                }
            }
            ObjMgr::Simple { entries, .. } => match entries.get(k) {
                Some(e) => {
                    req_name = Some(e.name.clone());
                    let f = (e.publish)();
                    self.rt.block_on(f)
                }
                None => false,
            },
        };
        self.settle();
        let data = self.last_data();
        let ans = match (&data, published) {
            (Some(m), true) => metric_id_tok(m),
            _ => "none".into(),
        };
        out.line(line, &ans);
        out.count("op:pub");
        // oracle: the published metric carries exactly the name or alias the latest birth declared
        if let (Some(m), true, Some(name)) = (&data, published, &req_name) {
            let o = if is_node { self.node.as_ref() } else { unhex_str(obj).and_then(|d| self.devs.get(&d).map(|e| &e.1)) };
            let bm = o
                .and_then(|o| o.birth.as_ref())
                .and_then(|p| p.metrics.iter().find(|b| b.name.as_deref() == Some(name.as_str())));
            match bm {
                None => out.fail("C11:publish-id", "not-in-latest-birth", format!("metric {:?} published but the latest birth has no such metric", name)),
                Some(b) => {
                    let ok = match b.alias {
                        Some(a) => m.alias == Some(a) && m.name.is_none(),
                        None => m.alias.is_none() && m.name.as_deref() == Some(name.as_str()),
                    };
                    if !ok {
                        out.fail("C11:publish-id", if b.alias.is_some() { "aliased" } else { "by-name" },
                            format!("birth declared name={:?} alias={:?}; data carries name={:?} alias={:?}", b.name, b.alias, m.name, m.alias));
                    }
                }
            }
        }
    }

    fn op_cmd(&mut self, line: &str, obj: &str, id: &str, out: &mut Out) {
        let feeder = match &self.feeder {
            Some(f) => f.clone(),
            None => return out.line(line, "bad-op"),
        };
        if id.is_empty() {
            return out.line(line, "bad-op");
        }
        // `@k`: the id the latest birth declared for entry / request `k` (resolved here)
        let resolved: String;
        let mut line = line.to_string();
        let mut id = id;
        if let Some(k) = id.strip_prefix('@') {
            let k: usize = k.parse().unwrap_or(usize::MAX);
            let o = if obj == "n" { self.node.as_ref() } else { unhex_str(obj).and_then(|d| self.devs.get(&d).map(|e| &e.1)) };
            let name = o.and_then(|o| match &o.mgr {
                ObjMgr::Simple { entries, .. } => entries.get(k).map(|e| e.name.clone()),
                ObjMgr::Scripted(s) => s.0.lock().unwrap().script.get(k).map(|r| r.name().to_string()),
            });
            let bm = o.and_then(|o| o.birth.as_ref()).and_then(|p| {
                p.metrics.iter().find(|b| b.name.is_some() && b.name == name).cloned()
            });
            resolved = match bm {
                Some(b) => metric_id_tok(&b),
                None => "a0".into(),
            };
            line = format!("birth cmd {} {}", obj, resolved);
            id = &resolved;
        }
        let line = line.as_str();
        let (k, r) = id.split_at(1);
        let (alias, name) = match k {
            "a" => match r.parse::<u64>() {
                Ok(a) => (Some(a), None),
                Err(_) => return out.line(line, "bad-op"),
            },
            "n" => match unhex_str(if r.is_empty() { "-" } else { r }) {
                Some(n) => (None, Some(n)),
                None => return out.line(line, "bad-op"),
            },
            _ => return out.line(line, "bad-op"),
        };
        let is_node = obj == "n";
        let dev = unhex_str(obj);
        let o = match if is_node { self.node.as_ref() } else { dev.as_ref().and_then(|d| self.devs.get(d).map(|e| &e.1)) } {
            Some(o) => o,
            None => return out.line(line, "bad-op"),
        };
        // echo the value the latest birth declared for that id (so that it converts)
        let value = o
            .birth
            .as_ref()
            .and_then(|p| {
                p.metrics.iter().find(|b| match alias {
                    Some(a) => b.alias == Some(a),
                    None => b.alias.is_none() && b.name == name,
                })
            })
            .and_then(|b| b.value.clone())
            .unwrap_or(metric::Value::IntValue(0));
        let mut m = Metric::new();
        if let Some(a) = alias {
            m.set_alias(a);
        }
        if let Some(n) = name {
            m.set_name(n);
        }
        m.set_value(value);
        let payload = Payload { timestamp: Some(mock::now_ms()), metrics: vec![m], seq: None, uuid: None, body: None };
        let message = Message { payload, kind: MessageKind::Cmd };
        let t0 = self.hub.trace_len();
        if is_node {
            feeder.push(Event::Node(NodeMessage { group_id: "g".into(), node_id: "n".into(), message }));
        } else {
            feeder.push(Event::Device(DeviceMessage { group_id: "g".into(), node_id: "n".into(), device_id: dev.unwrap(), message }));
        }
        self.settle();
        let mut ans = "none".to_string();
        for o in self.hub.trace_from(t0) {
            if let Obs::Note(s) = o {
                if s.starts_with("cb ") {
                    ans = s;
                }
            }
        }
        out.count("op:cmd");
        out.line(line, &ans);
    }
}

// ---------------------------------------------------------------------------------------------
// oracle: C11 stated directly over the captured payloads

impl Sim {
    /// `dev` = None for an NBIRTH
    fn check_birth(&mut self, dev: Option<&String>, p: &Payload, out: &mut Out) {
        let what = match dev {
            None => "NBIRTH".to_string(),
            Some(d) => format!("DBIRTH of {:?}", d),
        };
        out.count(if dev.is_none() { "births:nbirth" } else { "births:dbirth" });
        // every metric: name, datatype, timestamp, value xor is_null = true
        for m in &p.metrics {
            let f = if m.name.is_none() {
                Some("no-name")
            } else if m.datatype.is_none() {
                Some("no-datatype")
            } else if m.timestamp.is_none() {
                Some("no-timestamp")
            } else if m.value.is_some() && m.is_null == Some(true) {
                Some("value-and-null")
            } else if m.value.is_none() && m.is_null != Some(true) {
                Some("no-value-not-null")
            } else {
                None
            };
            if let Some(f) = f {
                out.fail("C11:metric-well-formed", f, format!("{}: metric {}", what, show_metric(m)));
            }
        }
        // names and aliases unique within the birth
        let mut names = HashSet::new();
        for m in &p.metrics {
            if let Some(n) = &m.name {
                if !names.insert(n.clone()) {
                    out.fail("C11:names-unique", "duplicate-name", format!("{}: name {:?} twice", what, n));
                }
            }
        }
        let mut aliases = HashSet::new();
        for m in &p.metrics {
            if let Some(a) = m.alias {
                if !aliases.insert(a) {
                    out.fail("C11:alias-unique-within", "duplicate-alias", format!("{}: alias {} twice", what, a));
                }
            }
        }
        let by_name = |n: &str| -> Vec<&Metric> {
            p.metrics.iter().filter(|m| m.name.as_deref() == Some(n)).collect()
        };
        let mut expected_count = 0usize;
        let mut used: HashSet<String> = HashSet::new();
        let registry = if dev.is_none() { self.reg_truth.clone() } else { self.dev_reg_truth.clone() };
        if dev.is_none() {
            // bdSeq: Int64, by name, no alias, the number of deaths so far (mod 256)
            let b = by_name(BDSEQ);
            let ok = b.len() == 1
                && b[0].alias.is_none()
                && b[0].datatype == Some(DataType::Int64 as u32)
                && b[0].value == Some(metric::Value::LongValue(self.deaths % 256));
            if !ok {
                out.fail("C11:nbirth-bdseq", "bdseq", format!("expected bdSeq Int64 {} by name without alias, got {:?}", self.deaths % 256, b.iter().map(|m| show_metric(m)).collect::<Vec<_>>()));
            }
            let r = by_name(REBIRTH);
            let ok = r.len() == 1
                && r[0].alias.is_none()
                && r[0].datatype == Some(DataType::Boolean as u32)
                && r[0].value == Some(metric::Value::BooleanValue(false));
            if !ok {
                out.fail("C11:nbirth-rebirth", "rebirth", format!("expected Node Control/Rebirth Boolean false by name without alias, got {:?}", r.iter().map(|m| show_metric(m)).collect::<Vec<_>>()));
            }
            used.insert(BDSEQ.into());
            used.insert(REBIRTH.into());
            expected_count += 2;
            // one definition metric for every template registered with the node
            for t in &registry {
                let d = by_name(t);
                let ok = d.len() == 1
                    && is_def(d[0])
                    && d[0].datatype == Some(DataType::Template as u32)
                    && d[0].alias.is_none();
                if !ok {
                    out.fail(
                        "C11:nbirth-template-definitions",
                        "registered-template",
                        format!("template {:?} is registered with the node but the NBIRTH has no definition metric for it (metrics named so: {})", t, d.len()),
                    );
                }
                used.insert(t.clone());
                expected_count += 1;
            }
            out.count_n("nbirth:registered-templates", registry.len() as u64);
            for m in &p.metrics {
                if is_def(m) && !m.name.as_ref().map(|n| registry.contains(n)).unwrap_or(false) {
                    out.fail("C11:nbirth-template-definitions", "unregistered-definition", format!("definition metric {:?} for a template that is not registered", m.name));
                }
            }
        }
        let now = p.timestamp;
        let o = match dev {
            None => self.node.as_ref(),
            Some(d) => self.devs.get(d).map(|e| &e.1),
        };
        // `dev` births are checked before the object is stored: fall back to nothing then
        let mgr = o.map(|o| &o.mgr);
        match mgr {
            Some(ObjMgr::Scripted(s)) => {
                let g = s.0.lock().unwrap();
                if !g.birth_script.is_empty() {
                    self.saw_decision = true;
                }
                for (k, r) in g.birth_script.iter().enumerate() {
                    let res = g.results.get(k).cloned().unwrap_or_default();
                    let accepted = res.starts_with('a') || res.starts_with('n');
                    let (reason, dt, has_val, val_tok_expected, ts) = match r {
                        ReqSpec::Metric { dt, val, ts, .. } => (
                            if *dt == 19 { Some("template-through-register_metric") } else { None },
                            *dt, val.is_some(), val.clone(), *ts,
                        ),
                        ReqSpec::Template { dt, tref, ts, .. } => (
                            match tref {
                                None => Some("template-without-value"),
                                Some(t) if !registry.contains(t) => Some("unregistered-template"),
                                _ => None,
                            },
                            *dt, tref.is_some(),
                            tref.as_ref().map(|t| format!("inst:{}", hex(t.as_bytes()))), *ts,
                        ),
                    };
                    let reason = reason.or(if used.contains(r.name()) { Some("name-already-used") } else { None });
                    out.count(&format!("request:{}", reason.unwrap_or("acceptable")));
                    out.count(&format!("request:datatype-{}", dt));
                    out.count(if has_val { "request:with-value" } else { "request:without-value" });
                    let aliased = matches!(r, ReqSpec::Metric { alias: true, .. } | ReqSpec::Template { alias: true, .. });
                    out.count(if aliased { "request:aliased" } else { "request:by-name" });
                    if accepted != reason.is_none() {
                        out.fail(
                            "C11:reject-iff",
                            reason.unwrap_or(if res == "p" { "panic-without-reason" } else { "rejected-without-reason" }),
                            format!("{}: request {} ({}) answered {:?}; expected {}", what, k, r.to_tok(), res, if reason.is_none() { "accepted" } else { "rejected" }),
                        );
                    }
                    if accepted {
                        used.insert(r.name().to_string());
                        expected_count += 1;
                        let b = by_name(r.name());
                        if b.len() != 1 {
                            out.fail("C11:birth-contains-accepted", "missing-metric", format!("{}: accepted request {} has {} metrics in the birth", what, r.to_tok(), b.len()));
                            continue;
                        }
                        let b = b[0];
                        let id_ok = match res.split_at(1) {
                            ("a", a) => b.alias.map(|x| x.to_string()) == Some(a.to_string()) && aliased,
                            _ => b.alias.is_none() && !aliased,
                        };
                        if !id_ok {
                            out.fail("C11:token-birth-id", if aliased { "aliased" } else { "by-name" }, format!("{}: token {} but birth metric {}", what, res, show_metric(b)));
                        }
                        let fields_ok = b.datatype == Some(dt)
                            && b.timestamp == ts.or(now)
                            && b.value.as_ref().map(val_tok) == val_tok_expected
                            && (b.is_null == Some(true)) == !has_val;
                        if !fields_ok {
                            out.fail("C11:birth-metric-fields", if has_val { "with-value" } else { "without-value" }, format!("{}: request {} gave metric {}", what, r.to_tok(), show_metric(b)));
                        }
                    }
                }
            }
            Some(ObjMgr::Simple { entries, .. }) => {
                if !entries.is_empty() {
                    self.saw_decision = true;
                }
                for e in entries {
                    out.count("simple:entry");
                    expected_count += 1;
                    let b = by_name(&e.name);
                    let ok = b.len() == 1
                        && b[0].datatype == Some(e.dt)
                        && b[0].alias.is_some() == e.alias
                        && b[0].value.as_ref().map(val_tok) == Some(e.val.clone());
                    if !ok {
                        out.fail("C11:birth-contains-accepted", "simple-manager-metric", format!("{}: SimpleMetricManager entry {:?} not (correctly) in the birth: {:?}", what, e.name, b.iter().map(|m| show_metric(m)).collect::<Vec<_>>()));
                    }
                    let _ = e.cb;
                }
            }
            None => {}
        }
        // missing metrics are reported by the specific clauses above
        if mgr.is_some() && p.metrics.len() > expected_count {
            out.fail("C11:birth-no-extra", "extra-metric", format!("{}: {} metrics, expected {}", what, p.metrics.len(), expected_count));
        }
    }

    /// every alias is unique across the node and all of its (currently registered) devices
    fn check_across(&mut self, out: &mut Out) {
        let mut owner: HashMap<u64, String> = HashMap::new();
        let mut objs: Vec<(String, &Payload)> = vec![];
        if let Some(p) = self.node.as_ref().and_then(|n| n.birth.as_ref()) {
            objs.push(("node".into(), p));
        }
        for (d, (_, o)) in &self.devs {
            if let Some(p) = &o.birth {
                objs.push((format!("device {:?}", d), p));
            }
        }
        // a device the application no longer holds but that is still live on the wire (DBIRTH, no DDEATH /
        // NDEATH / NBIRTH since): a host application still resolves its aliases
        for (d, p) in &self.wire_live {
            if !self.devs.contains_key(d) {
                objs.push((format!("device {:?} (unregistered by the application, no DDEATH published)", d), p));
            }
        }
        let mut fails = vec![];
        for (who, p) in &objs {
            for m in &p.metrics {
                if let Some(a) = m.alias {
                    match owner.get(&a) {
                        Some(w) if w != who => fails.push(format!("alias {:#x} declared by {} (metric {:?}) and by {}", a, who, m.name, w)),
                        _ => {
                            owner.insert(a, who.clone());
                        }
                    }
                }
            }
        }
        for f in fails {
            out.fail("C11:alias-unique-across", "cross-object", f);
        }
    }
}

// ---------------------------------------------------------------------------------------------
// cases

pub fn run_case(lines: &[String], out: &mut Out, stat: &str) {
    let mut sim = Sim::new();
    for l in lines {
        sim.exec(l, out);
    }
    if sim.saw_decision {
        out.nontrivial();
    }
    out.count(stat);
}

pub fn replay(_desc: &str, ops: &[String], out: &mut Out) {
    install_hook();
    run_case(ops, out, "replayed");
}

fn h(s: &str) -> String {
    hex(s.as_bytes())
}

/// pairs of names whose 32-bit hashes collide under the real `DefaultHasher` (birthday search
/// over `m<i>`, i < 2^21; checked at start-up)
pub const PAIRS: [(&str, &str); 40] = [
    ("m45047", "m100810"), ("m108710", "m125295"), ("m34988", "m147416"), ("m47567", "m180839"),
    ("m134183", "m195524"), ("m72330", "m202199"), ("m44814", "m256579"), ("m25155", "m269310"),
    ("m127489", "m290234"), ("m244731", "m301054"), ("m110760", "m311447"), ("m59328", "m320524"),
    ("m277735", "m321289"), ("m43513", "m332883"), ("m136554", "m345972"), ("m64119", "m350573"),
    ("m90494", "m353848"), ("m172872", "m384914"), ("m321570", "m407507"), ("m182109", "m421482"),
    ("m153831", "m423718"), ("m116901", "m428370"), ("m120093", "m440101"), ("m176271", "m488128"),
    ("m257089", "m488861"), ("m447670", "m496668"), ("m242251", "m515626"), ("m445481", "m530012"),
    ("m53402", "m536405"), ("m383220", "m543078"), ("m553561", "m560282"), ("m118344", "m564524"),
    ("m48081", "m575166"), ("m573303", "m581782"), ("m75193", "m596179"), ("m127802", "m601928"),
    ("m43492", "m601983"), ("m125900", "m604427"), ("m212600", "m615396"), ("m593925", "m618417"),
];

fn check_constants() {
    for (a, b) in PAIRS.iter() {
        assert_eq!(real_hash(a) as u32, real_hash(b) as u32, "pair {} {} no longer collides", a, b);
    }
    for n in H_FFFFFFFF.iter() {
        assert_eq!(real_hash(n) as u32, 0xFFFF_FFFF);
    }
    for n in H_FFFFFFFE.iter() {
        assert_eq!(real_hash(n) as u32, 0xFFFF_FFFE);
    }
    for n in H_0.iter() {
        assert_eq!(real_hash(n) as u32, 0);
    }
    for n in H_1.iter() {
        assert_eq!(real_hash(n) as u32, 1);
    }
}

fn val_for(dt: u32) -> &'static str {
    match dt {
        1 | 2 | 3 | 5 | 6 | 7 => "I5",
        4 | 8 | 13 => "L7",
        9 => "F1065353216",
        10 => "D4607182418800017408",
        11 => "B1",
        12 | 14 | 15 => "S6162",
        17 | 18 | 22..=34 => "Y0102",
        _ => "I0",
    }
}

fn req_m(name: &str, alias: bool, dt: u32, val: bool, ts: Option<u64>) -> String {
    ReqSpec::Metric {
        name: name.into(),
        alias,
        dt,
        val: if val { Some(val_for(dt).into()) } else { None },
        ts,
    }
    .to_tok()
}

fn req_t(name: &str, alias: bool, tref: Option<&str>) -> String {
    ReqSpec::Template { name: name.into(), alias, dt: 19, tref: tref.map(|s| s.into()), ts: None }.to_tok()
}

fn script(obj: &str, reqs: &[String]) -> String {
    format!("birth script {} {}", obj, if reqs.is_empty() { "_".into() } else { reqs.join(";") })
}

fn obj_tag(dev: Option<&str>) -> String {
    match dev {
        None => "n".into(),
        Some(d) => h(d),
    }
}

/// exhaustive: the registration decision on the node and on a device
fn gen_decisions(out: &mut Out) {
    for on_dev in [false, true] {
        for api_t in [false, true] {
            for dt in if api_t { vec![19u32] } else { vec![3u32, 19] } {
                for has_val in [false, true] {
                    for alias in [false, true] {
                        for dup in [false, true] {
                            for reg in if api_t { vec![false, true] } else { vec![true] } {
                                let mut lines = vec!["birth new -".to_string(), format!("birth tpl 0 {}", h("T0")), "birth node scripted 0".into()];
                                let obj = if on_dev { Some("dv") } else { None };
                                if on_dev {
                                    lines.push(format!("birth dev {} scripted", h("dv")));
                                }
                                let mut reqs = vec![];
                                if dup {
                                    reqs.push(req_m("x", true, 3, true, None));
                                }
                                reqs.push(if api_t {
                                    req_t("x", alias, if has_val { Some(if reg { "T0" } else { "TX" }) } else { None })
                                } else {
                                    req_m("x", alias, dt, has_val, None)
                                });
                                lines.push(script(&obj_tag(obj), &reqs));
                                lines.push("birth online".into());
                                lines.push(format!("birth pub {} {}", obj_tag(obj), reqs.len() - 1));
                                run_case(&lines, out, "gen:decision-table");
                            }
                        }
                    }
                }
            }
        }
    }
    out.exhaustive.push("registration decision: {register_metric, register_template_metric} x {Int32, Template} x {value, none} x {alias, name} x {fresh, duplicate} x {registered, unregistered definition}, on the node and on a device (64 cases)".into());
}

/// every datatype with and without initial value, aliased and unaliased, node and device
fn gen_datatypes(out: &mut Out) {
    for on_dev in [false, true] {
        for alias in [false, true] {
            let mut lines = vec!["birth new -".to_string(), "birth node scripted _".into()];
            let obj = if on_dev { Some("dv") } else { None };
            if on_dev {
                lines.push(format!("birth dev {} scripted", h("dv")));
            }
            let mut reqs = vec![];
            for dt in 0..35u32 {
                reqs.push(req_m(&format!("v{}", dt), alias, dt, true, Some(1000 + dt as u64)));
                reqs.push(req_m(&format!("n{}", dt), alias, dt, false, None));
            }
            lines.push(script(&obj_tag(obj), &reqs));
            lines.push("birth online".into());
            for k in [0usize, 1, 6, 7, 38, 39] {
                lines.push(format!("birth pub {} {}", obj_tag(obj), k));
            }
            lines.push("birth rebirth".into());
            run_case(&lines, out, "gen:all-datatypes");
        }
    }
    out.exhaustive.push("all 35 datatypes x {with, without} initial value x {aliased, by name} x {node, device}".into());
}

/// names engineered to collide under the real hash: metrics within one object (both orders),
/// the same names in several objects, SimpleMetricManager, colliding device names
fn gen_collisions(out: &mut Out, rng: &mut Rng, n_pairs: usize) {
    for (a, b) in PAIRS.iter().take(n_pairs) {
        for swap in [false, true] {
            let (x, y) = if swap { (*b, *a) } else { (*a, *b) };
            let reqs = vec![req_m(x, true, 3, true, None), req_m(y, true, 3, true, None), req_m(x, true, 3, true, None), req_m("other", true, 3, true, None)];
            let lines = vec![
                "birth new -".to_string(),
                "birth node scripted _".into(),
                script("n", &reqs),
                format!("birth dev {} scripted", h(x)),
                format!("birth dev {} scripted", h(y)),
                script(&h(x), &reqs),
                script(&h(y), &reqs[..2].to_vec()),
                "birth online".into(),
                "birth pub n 0".into(),
                "birth pub n 1".into(),
                format!("birth pub {} 1", h(x)),
                format!("birth pub {} 0", h(y)),
                "birth rebirth".into(),
            ];
            run_case(&lines, out, "gen:hash-collision-scripted");
        }
        // SimpleMetricManager: the alias of each name depends on the hash map's iteration order
        let ents = format!("{}:a:3:I7:c,{}:a:11:B1:c,{}:a:3:I7:-", h(a), h(b), h(a));
        let extra = *rng.pick(&["p", "q", "zz"]);
        let lines = vec![
            "birth new -".to_string(),
            "birth node simple _".into(),
            format!("birth simple n {}", ents),
            format!("birth dev {} simple", h("dv")),
            format!("birth simple {} {}", h("dv"), ents),
            "birth online".into(),
            "birth pub n 0".into(),
            "birth pub n 1".into(),
            format!("birth pub {} 1", h("dv")),
            "birth cmd n @0".into(),
            "birth cmd n @1".into(),
            format!("birth cmd {} @0", h("dv")),
            format!("birth simple n {}:a:12:S73:-", h(extra)),
            "birth rebirth".into(),
            "birth pub n 0".into(),
            "birth pub n 1".into(),
            "birth cmd n @1".into(),
        ];
        run_case(&lines, out, "gen:hash-collision-simple");
    }
}

/// device ids: names hashing to 0 and 1 (the node's id and its successor), colliding device names,
/// re-registration after removal
fn gen_device_ids(out: &mut Out) {
    let m = vec![req_m("x", true, 3, true, None), req_m("y", false, 3, true, None)];
    let mut sets: Vec<Vec<&str>> = vec![
        vec![H_0[0], H_1[0]],
        vec![H_1[0], H_0[0]],
        vec![H_0[0], H_0[1], H_1[0], H_1[1]],
        vec![H_FFFFFFFE[0], H_FFFFFFFE[1], H_0[0]],
        vec![H_FFFFFFFF[0], H_0[0]],
    ];
    for (a, b) in PAIRS.iter().take(6) {
        sets.push(vec![*a, *b]);
        sets.push(vec![*b, *a, "plain"]);
    }
    for set in sets {
        let mut lines = vec!["birth new -".to_string(), "birth node scripted _".into(), script("n", &m)];
        for d in &set {
            lines.push(format!("birth dev {} scripted", h(d)));
            lines.push(script(&h(d), &m));
        }
        lines.push("birth online".into());
        // remove the first, re-register it: it gets the first free id again
        lines.push(format!("birth undev {}", h(set[0])));
        lines.push(format!("birth dev {} scripted", h(set[0])));
        lines.push(script(&h(set[0]), &m));
        lines.push("birth rebirth".into());
        lines.push(format!("birth pub {} 0", h(set[0])));
        run_case(&lines, out, "gen:device-ids");
    }
    // kept handles: register A, unregister through its handle, register A again, unregister AGAIN through the
    // OLD handle, then register the name colliding with A; every registration's aliases must stay unique among
    // the devices live on the wire (online and offline, old and new handle, with and without a third device)
    for (i, (a, b)) in PAIRS.iter().take(4).enumerate() {
        for online_first in [true, false] {
            for stale in [0usize, 1] {
                let mut lines = vec!["birth new -".to_string(), "birth node scripted _".into(), script("n", &m)];
                if online_first {
                    lines.push("birth online".into());
                }
                lines.push(format!("birth dev {} scripted", h(a)));
                lines.push(script(&h(a), &m));
                lines.push(format!("birth undevh {} 0", h(a)));
                lines.push(format!("birth dev {} scripted", h(a)));
                lines.push(script(&h(a), &m));
                if !online_first {
                    lines.push("birth online".into());
                } else {
                    lines.push(format!("birth drebirth {}", h(a)));
                }
                lines.push(format!("birth undevh {} {}", h(a), stale));
                if i % 2 == 1 {
                    // ... and registered a third time before the colliding name arrives
                    lines.push(format!("birth dev {} scripted", h(a)));
                    lines.push(script(&h(a), &m));
                    lines.push(format!("birth undevh {} 0", h(a)));
                }
                lines.push(format!("birth dev {} scripted", h(b)));
                lines.push(script(&h(b), &m));
                lines.push(format!("birth drebirth {}", h(b)));
                lines.push(format!("birth dev {} scripted", h(a)));
                lines.push("birth rebirth".into());
                lines.push(format!("birth pub {} 0", h(b)));
                run_case(&lines, out, "gen:kept-handles");
            }
        }
    }
    // duplicate and invalid device names
    let lines = vec![
        "birth new -".to_string(),
        "birth node scripted _".into(),
        format!("birth dev {} scripted", h("d")),
        format!("birth dev {} scripted", h("d")),
        format!("birth dev {} scripted", h("a/b")),
        format!("birth dev {} scripted", h("a+b")),
        format!("birth dev {} scripted", h("#")),
        "birth dev - scripted".to_string(),
        "birth online".into(),
    ];
    run_case(&lines, out, "gen:device-names");
}

/// the points excluded by `NoCarry` (finding D10) and the integer overflows next to them
fn gen_carry(out: &mut Out) {
    let ff = |i: usize| req_m(H_FFFFFFFF[i], true, 3, true, None);
    let zero = req_m(H_0[0], true, 3, true, None);
    // node: two metrics hashing to 0xFFFF_FFFF; device with id 1 (name hashing to 1 / to 0): a metric hashing to 0
    for dname in [H_1[0], H_0[1]] {
        let lines = vec![
            "birth new -".to_string(),
            "birth node scripted _".into(),
            script("n", &[ff(0), ff(1)]),
            format!("birth dev {} scripted", h(dname)),
            script(&h(dname), &[zero.clone()]),
            "birth online".into(),
            "birth pub n 1".into(),
            format!("birth pub {} 0", h(dname)),
        ];
        run_case(&lines, out, "gen:alias-carry-node-device");
    }
    // device with id h and its neighbour h + 1 (colliding device names)
    let (a, b) = PAIRS[0];
    let lines = vec![
        "birth new -".to_string(),
        "birth node scripted _".into(),
        format!("birth dev {} scripted", h(a)),
        format!("birth dev {} scripted", h(b)),
        script(&h(a), &[ff(0), ff(1), ff(2)]),
        script(&h(b), &[zero.clone(), req_m(H_1[0], true, 3, true, None)]),
        "birth online".into(),
    ];
    run_case(&lines, out, "gen:alias-carry-device-device");
    // three metrics at the top of the node's half, two at the bottom
    let lines = vec![
        "birth new -".to_string(),
        "birth node scripted _".into(),
        script("n", &[req_m(H_FFFFFFFE[0], true, 3, true, None), req_m(H_FFFFFFFE[1], true, 3, true, None), ff(0), zero.clone(), req_m(H_0[1], true, 3, true, None)]),
        "birth online".into(),
    ];
    run_case(&lines, out, "gen:alias-carry-node-only");
    // device id 0xFFFF_FFFF: `alias += 1` overflows the u64
    let lines = vec![
        "birth new -".to_string(),
        "birth node scripted _".into(),
        script("n", &[zero.clone()]),
        format!("birth dev {} scripted", h(H_FFFFFFFF[0])),
        script(&h(H_FFFFFFFF[0]), &[ff(1), ff(2), zero.clone()]),
        "birth online".into(),
    ];
    run_case(&lines, out, "gen:alias-u64-overflow");
    // two device names hashing to 0xFFFF_FFFF: `id += 1` overflows the u32 (last op of the case:
    // a panic inside register_device poisons the device map)
    let lines = vec![
        "birth new -".to_string(),
        "birth node scripted _".into(),
        format!("birth dev {} scripted", h(H_FFFFFFFF[0])),
        format!("birth dev {} scripted", h(H_FFFFFFFF[1])),
    ];
    run_case(&lines, out, "gen:device-id-u32-overflow");
}

const POOL: [&str; 14] = ["a", "b", "c", "m1", "temp", "", "é€", BDSEQ, REBIRTH, "T0", "T1", "T2", "Node Control/Next Server", "x y"];

fn pick_name(rng: &mut Rng) -> String {
    match rng.below(12) {
        0 => {
            let p = PAIRS[rng.below(8) as usize];
            if rng.chance(1, 2) { p.0.into() } else { p.1.into() }
        }
        1 => crate::c10::random_string(rng, false),
        _ => (*rng.pick(&POOL)).to_string(),
    }
}

fn random_reqs(rng: &mut Rng, max: u64) -> Vec<String> {
    let n = rng.below(max + 1);
    (0..n)
        .map(|_| {
            let name = pick_name(rng);
            let alias = rng.chance(2, 3);
            if rng.chance(1, 4) {
                let tref = match rng.below(6) {
                    0 => None,
                    1 => Some("TX".to_string()),
                    k => Some(format!("T{}", k - 2)),
                };
                req_t(&name, alias, tref.as_deref())
            } else {
                let dt = if rng.chance(1, 12) { 19 } else { rng.below(35) as u32 };
                let ts = if rng.chance(1, 3) { Some(rng.below(5_000_000)) } else { None };
                req_m(&name, alias, dt, rng.chance(3, 4), ts)
            }
        })
        .collect()
}

fn random_simple(rng: &mut Rng, max: u64, risky: bool) -> String {
    let n = rng.range(1, max);
    (0..n)
        .map(|_| {
            let mut name = pick_name(rng);
            if !risky && (name == BDSEQ || name == REBIRTH || name.starts_with('T')) {
                name = format!("s{}", rng.below(4));
            }
            let ntypes = if risky && rng.chance(1, 8) { 7 } else { 6 };
            let (dt, val) = SIMPLE_TYPES[rng.below(ntypes) as usize];
            format!("{}:{}:{}:{}:{}", h(&name), if rng.chance(2, 3) { "a" } else { "n" }, dt, val, if rng.chance(1, 2) { "c" } else { "-" })
        })
        .collect::<Vec<_>>()
        .join(",")
}

fn random_upd(rng: &mut Rng) -> String {
    let n = rng.below(4);
    if n == 0 {
        return "_".into();
    }
    (0..n)
        .map(|_| match rng.below(8) {
            0 => "c".to_string(),
            1 | 2 => format!("d{}", h(&format!("T{}", rng.below(4)))),
            _ => format!("r{}", rng.below(5)),
        })
        .collect::<Vec<_>>()
        .join(",")
}

/// structured random histories: births, rebirths, reconnects, registry changes, device churn
fn gen_random(out: &mut Out, rng: &mut Rng, n: usize) {
    for _ in 0..n {
        let mut lines = vec!["birth new -".to_string()];
        // slots 0..3 are T0..T3; slot 4 is bound to a reserved or duplicate name
        for s in 0..4 {
            lines.push(format!("birth tpl {} {}", s, h(&format!("T{}", s))));
        }
        let odd = *rng.pick(&[BDSEQ, REBIRTH, "T0", "T4"]);
        lines.push(format!("birth tpl 4 {}", h(odd)));
        let simple_node = rng.chance(1, 4);
        let risky = rng.chance(1, 6);
        let slots: Vec<String> = (0..4).filter(|_| rng.chance(1, 2)).map(|s| s.to_string()).collect();
        lines.push(format!("birth node {} {}", if simple_node { "simple" } else { "scripted" }, if slots.is_empty() { "_".into() } else { slots.join(",") }));
        if simple_node {
            lines.push(format!("birth simple n {}", random_simple(rng, 5, risky)));
        } else {
            lines.push(script("n", &random_reqs(rng, 8)));
        }
        let mut devs: Vec<(String, bool)> = vec![];
        let mut online = false;
        let steps = rng.range(3, 10);
        for _ in 0..steps {
            match rng.below(12) {
                0 | 1 => {
                    if !online {
                        lines.push("birth online".into());
                        online = true;
                    } else {
                        lines.push("birth rebirth".into());
                    }
                }
                2 => {
                    lines.push("birth offline".into());
                    online = false;
                }
                3 | 4 if devs.len() < 3 => {
                    let name = match rng.below(6) {
                        0 => H_0[0].to_string(),
                        1 => H_1[0].to_string(),
                        2 => PAIRS[1].0.to_string(),
                        3 => PAIRS[1].1.to_string(),
                        _ => format!("dev{}", rng.below(4)),
                    };
                    let simple = rng.chance(1, 4);
                    lines.push(format!("birth dev {} {}", h(&name), if simple { "simple" } else { "scripted" }));
                    if !devs.iter().any(|d| d.0 == name) {
                        if simple {
                            lines.push(format!("birth simple {} {}", h(&name), random_simple(rng, 4, risky)));
                        } else {
                            lines.push(script(&h(&name), &random_reqs(rng, 6)));
                        }
                        devs.push((name, simple));
                    }
                }
                5 if !devs.is_empty() => {
                    let i = rng.below(devs.len() as u64) as usize;
                    let (d, _) = devs.remove(i);
                    if rng.chance(1, 3) {
                        lines.push(format!("birth undevh {} {}", h(&d), rng.below(3)));
                    } else {
                        lines.push(format!("birth undev {}", h(&d)));
                    }
                }
                5 => {
                    // a kept handle of a name that may be unregistered already, or registered again since
                    let name = match rng.below(4) {
                        0 => PAIRS[1].0.to_string(),
                        1 => PAIRS[1].1.to_string(),
                        _ => format!("dev{}", rng.below(4)),
                    };
                    devs.retain(|d| d.0 != name);
                    lines.push(format!("birth undevh {} {}", h(&name), rng.below(3)));
                }
                6 => lines.push(format!("birth regupd {}", random_upd(rng))),
                7 => {
                    if simple_node {
                        lines.push(format!("birth simple n {}", random_simple(rng, 2, risky)));
                    } else {
                        lines.push(script("n", &random_reqs(rng, 8)));
                    }
                }
                8 if !devs.is_empty() => {
                    let (d, simple) = rng.pick(&devs).clone();
                    if online {
                        lines.push(format!("birth drebirth {}", h(&d)));
                    }
                    if !simple {
                        lines.push(script(&h(&d), &random_reqs(rng, 6)));
                    }
                }
                _ => {
                    if online {
                        let target = if devs.is_empty() || rng.chance(1, 2) { "n".to_string() } else { h(&rng.pick(&devs).0) };
                        lines.push(format!("birth pub {} {}", target, rng.below(6)));
                        if rng.chance(1, 3) {
                            lines.push(format!("birth cmd {} @{}", target, rng.below(4)));
                        }
                    } else {
                        lines.push("birth online".into());
                        online = true;
                    }
                }
            }
        }
        if !online {
            lines.push("birth online".into());
        }
        lines.push("birth rebirth".into());
        run_case(&lines, out, if simple_node { "gen:random-simple-node" } else { "gen:random-scripted-node" });
    }
}

/// template registry: builder registration (including the panic on a reserved / duplicate
/// name), updates between births, instances of (de)registered definitions on node and devices
fn gen_registry(out: &mut Out) {
    let inst = |n: &str, t: &str| req_t(n, true, Some(t));
    let base = |lines: &mut Vec<String>| {
        for s in 0..4 {
            lines.push(format!("birth tpl {} {}", s, h(&format!("T{}", s))));
        }
    };
    // every subset of three slots at the builder, then one update of each kind per birth
    for mask in 0..8u32 {
        let mut lines = vec!["birth new -".to_string()];
        base(&mut lines);
        lines.push(format!("birth tpl 4 {}", h(BDSEQ)));
        lines.push(format!("birth tpl 5 {}", h(REBIRTH)));
        lines.push(format!("birth tpl 6 {}", h("T0")));
        let slots: Vec<String> = (0..3).filter(|s| mask & (1 << s) != 0).map(|s| s.to_string()).collect();
        lines.push(format!("birth node scripted {}", if slots.is_empty() { "_".into() } else { slots.join(",") }));
        let reqs = vec![inst("i0", "T0"), inst("i1", "T1"), inst("i2", "T2"), inst("i3", "T3"), req_m("T1", true, 3, true, None), req_m("T3", false, 3, true, None)];
        lines.push(script("n", &reqs));
        lines.push(format!("birth dev {} scripted", h("dv")));
        lines.push(script(&h("dv"), &reqs));
        lines.push("birth online".into());
        for upd in ["r3", "r4,r5,r6,r0", &format!("d{}", h("T0")), &format!("d{},r0", h("T9")), "c", "r1,r1,r2"] {
            lines.push(format!("birth regupd {}", upd));
            lines.push("birth rebirth".into());
            lines.push("birth pub n 0".into());
            lines.push(format!("birth drebirth {}", h("dv")));
        }
        lines.push("birth offline".into());
        lines.push("birth regupd r0,r1,r2,r3".into());
        lines.push("birth online".into());
        run_case(&lines, out, "gen:registry");
    }
    out.exhaustive.push("template registry: every subset of 3 templates at the builder x {register new, register reserved/duplicate, deregister present, deregister absent, clear, re-register} between births, instances of all 4 templates on node and device".into());
    // the builder panics on a reserved or duplicate name
    for bad in ["4", "0,0", "0,5", "6,0"] {
        let mut lines = vec!["birth new -".to_string()];
        base(&mut lines);
        lines.push(format!("birth tpl 4 {}", h(BDSEQ)));
        lines.push(format!("birth tpl 5 {}", h(REBIRTH)));
        lines.push(format!("birth tpl 6 {}", h("T0")));
        lines.push(format!("birth node scripted {}", bad));
        run_case(&lines, out, "gen:registry-builder-panic");
    }
}

/// SimpleMetricManager with reserved names, definition names, Template-typed entries
fn gen_simple_panics(out: &mut Out) {
    for (who, ent) in [
        ("n", format!("{}:a:3:I7:-", h(BDSEQ))),
        ("n", format!("{}:n:11:B1:c", h(REBIRTH))),
        ("n", format!("{}:a:3:I7:-", h("T0"))),
        ("n", format!("{}:a:19:X:-", h("tpl-typed"))),
        ("d", format!("{}:a:3:I7:-", h(BDSEQ))),
        ("d", format!("{}:a:3:I7:-", h("T0"))),
        ("d", format!("{}:a:19:X:-", h("tpl-typed"))),
    ] {
        let target = if who == "n" { "n".to_string() } else { h("dv") };
        let lines = vec![
            "birth new -".to_string(),
            format!("birth tpl 0 {}", h("T0")),
            "birth node simple 0".into(),
            format!("birth dev {} simple", h("dv")),
            format!("birth dev {} simple", h("dw")),
            format!("birth simple {} {}:a:3:I7:c,{}", target, h("ok"), ent),
            format!("birth simple {} {}:a:3:I7:c", h("dw"), h("fine")),
            "birth online".into(),
            format!("birth pub {} 0", target),
            "birth rebirth".into(),
            format!("birth simple {} {}:a:3:I7:-", target, h("late")),
            format!("birth cmd {} @0", target),
            "birth offline".into(),
            "birth online".into(),
        ];
        run_case(&lines, out, "gen:simple-manager-panic");
    }
}

/// a SimpleMetricManager moved to another device (different device id, hence different aliases)
/// between two sessions: what it publishes afterwards must carry the ids of the latest birth
fn gen_manager_moved(out: &mut Out) {
    for (a, b) in [("pump-old", "pump-new"), ("d1", "d2"), (H_0[0], H_1[0])] {
        let ents = format!("{}:a:3:I7:-,{}:n:11:B1:c,{}:a:12:S73:c", h("x"), h("y"), h("z"));
        let lines = vec![
            "birth new -".to_string(),
            "birth node scripted _".into(),
            format!("birth dev {} simple", h(a)),
            format!("birth simple {} {}", h(a), ents),
            "birth online".into(),
            format!("birth pub {} 0", h(a)),
            format!("birth pub {} 2", h(a)),
            "birth offline".into(),
            format!("birth devmv {} {}", h(b), h(a)),
            "birth online".into(),
            format!("birth pub {} 0", h(b)),
            format!("birth pub {} 1", h(b)),
            format!("birth pub {} 2", h(b)),
            format!("birth cmd {} @0", h(b)),
            format!("birth drebirth {}", h(b)),
            format!("birth pub {} 2", h(b)),
        ];
        run_case(&lines, out, "gen:manager-moved");
    }
}

/// M17: the real `DefaultHasher` against the SipHash-1-3 model on names of every byte length 0..=40 (and a
/// few long ones), ASCII and multi-byte contents, all-equal and random: the driver recomputes every value
fn gen_sip(out: &mut Out, seed: u64, per_len: u64) {
    let mut rng = Rng::new(seed ^ 0x51B);
    let alphabet: Vec<char> = "abcXYZ019 _/:-\u{0}\u{7f}\u{e9}\u{df}\u{20ac}\u{4e2d}\u{1f600}".chars().collect();
    let mut names: Vec<String> = vec![];
    for len in (0..=40usize).chain([63, 64, 65, 127, 128, 129, 255, 256, 257, 1000]) {
        names.push("a".repeat(len));
        names.push("\u{ff}".repeat(len / 2));
        for _ in 0..per_len {
            let mut s = String::new();
            while s.len() < len {
                let c = *rng.pick(&alphabet);
                if s.len() + c.len_utf8() <= len {
                    s.push(c);
                } else {
                    s.push('x');
                }
            }
            names.push(s);
        }
    }
    for chunk in names.chunks(200) {
        let mut sim = Sim::new();
        sim.exec("birth new -", out);
        sim.hash_lines(chunk, out);
        out.nontrivial();
        out.count("sip-sweep-batches");
    }
    out.count_n("sip-sweep-names", names.len() as u64);
}

pub fn run(args: &Args, out: &mut Out) -> &'static str {
    install_hook();
    check_constants();
    let mut rng = Rng::new(args.seed);
    let th = args.thorough();
    gen_decisions(out);
    gen_datatypes(out);
    gen_registry(out);
    gen_device_ids(out);
    gen_carry(out);
    gen_manager_moved(out);
    gen_simple_panics(out);
    gen_collisions(out, &mut rng, if th { 40 } else { 12 });
    gen_random(out, &mut rng, if th { 80000 } else { 2000 });
    gen_sip(out, args.seed, if th { 200 } else { 12 });
    RULE
}

// ---------------------------------------------------------------------------------------------
// T-table: the registration decision, enumerated through the compiled crate

pub fn table_birth() -> String {
    install_hook();
    let sink_dir = std::env::temp_dir().join(format!("srad-verif-table-{}", std::process::id()));
    let mut sink = Out::new(&sink_dir);
    let fl = flags();
    let mut s = String::new();
    s.push_str("-- GENERATED by `srad-verif table BirthTable` from the compiled srad-eon; do not edit.\n");
    s.push_str("-- rows: (on device, through register_template_metric, datatype, value, alias, duplicate name, definition registered) ↦ outcome\n");
    s.push_str("import SradModel.Model.BirthSpec\nnamespace Srad.Generated\nopen Srad.Birth\n\n");
    s.push_str(&format!(
        "/-- build parameters of the crate the table was taken from -/\ndef birthTableCfg : Cfg := ⟨{}, {}, {}⟩\n\n",
        fl.contains('d'), fl.contains('o'), fl.contains('h')
    ));
    s.push_str("def birthTable : List (BRow × BShape) := [\n");
    let mut rows = vec![];
    for on_dev in [false, true] {
        for api_t in [false, true] {
            for dt in if api_t { vec![19u32] } else { vec![3u32, 19] } {
                for has_val in [false, true] {
                    for alias in [false, true] {
                        for dup in [false, true] {
                            for reg in [false, true] {
                                let mut sim = Sim::new();
                                let obj = if on_dev { h("dv") } else { "n".to_string() };
                                let mut reqs = vec![];
                                if dup {
                                    reqs.push(req_m("x", true, 3, true, Some(0)));
                                }
                                reqs.push(if api_t {
                                    ReqSpec::Template { name: "x".into(), alias, dt: 19, tref: if has_val { Some(if reg { "T0" } else { "TX" }.to_string()) } else { None }, ts: Some(0) }.to_tok()
                                } else {
                                    req_m("x", alias, dt, has_val, Some(0))
                                });
                                let mut lines = vec!["birth new -".to_string(), format!("birth tpl 0 {}", h("T0")), "birth node scripted 0".into()];
                                if on_dev {
                                    lines.push(format!("birth dev {} scripted", h("dv")));
                                }
                                lines.push(script(&obj, &reqs));
                                lines.push("birth online".into());
                                for l in &lines {
                                    sim.exec(l, &mut sink);
                                }
                                let o = if on_dev { sim.devs.get("dv").map(|e| &e.1) } else { sim.node.as_ref() };
                                let shape = match o {
                                    Some(Obj { mgr: ObjMgr::Scripted(sc), birth: Some(p), .. }) => {
                                        let g = sc.0.lock().unwrap();
                                        let res = g.results.last().cloned().unwrap_or_default();
                                        match res.as_str() {
                                            "p" => "BShape.panic".to_string(),
                                            "e:dup" => "BShape.err Err.duplicate".into(),
                                            "e:unsup" => "BShape.err Err.unsupportedDatatype".into(),
                                            "e:noval" => "BShape.err Err.valueNotProvided".into(),
                                            "e:unreg" => "BShape.err Err.unregisteredTemplate".into(),
                                            r if r.starts_with('a') || r.starts_with('n') => match p.metrics.last() {
                                                Some(m) => format!(
                                                    "BShape.ok {} {} {} {}",
                                                    m.alias.is_some(),
                                                    m.datatype.unwrap_or(0),
                                                    m.is_null == Some(true),
                                                    m.value.is_some()
                                                ),
                                                None => "BShape.none".into(),
                                            },
                                            _ => "BShape.none".into(),
                                        }
                                    }
                                    _ => "BShape.panic".into(),
                                };
                                rows.push(format!(
                                    "  (⟨{}, {}, {}, {}, {}, {}, {}⟩, {})",
                                    on_dev, api_t, dt, has_val, alias, dup, reg, shape
                                ));
                            }
                        }
                    }
                }
            }
        }
    }
    s.push_str(&rows.join(",\n"));
    s.push_str("\n]\n\nend Srad.Generated\n");
    let _ = std::fs::remove_dir_all(&sink_dir);
    s
}
