//! Component `metric` (C12, and the property-set clause of C19): what an edge-node task publishes
//! through a `NodeHandle` / `DeviceHandle` against what the host's metric store receives.
//!
//! Everything runs the real srad code through its public API, in-process, on one current-thread
//! tokio runtime with paused time:
//!   edge:  EoN + one device, `MetricManager`s that register one metric per supported Rust type
//!          (by name and by alias) and keep the `MetricToken`s; `ChannelClient` as recording client
//!   wire:  every handed-over payload is really encoded by prost, and given with its topic to
//!          `srad_client::topic_and_payload_to_event`
//!   host:  (a) an `AppEventLoop` (error class / seq / timestamp of the decoded event),
//!          (b) an `Application` with a recording `MetricStore` (what the store receives)
//!
//! Ops (one per line; `<X>` are terms of the bracket grammar described in `txt`):
//!   metric new
//!   metric edge <now> <PM>                      Metric::from(PublishMetric)            -> Q(..)
//!   metric host <verb> <seq> <ts> <L(Q..)>      payload -> host (ND|DD|NB|DB)          -> data/birth/err
//!   metric pset <PS>                            payload PropertySet -> host PropertySet -> ok ps(..)|err
//!   metric pdesc <PV>                           one step down from a received property value: PropertySet::try_from(value)
//!                                               and Vec::<PropertySet>::try_from(value) -> set:<ok ps(..)|err> sets:<ok pl(..)|err>
//!   metric e2e <who> <variant> <prevseq> <now> <L(P..)>   handle -> ... -> store       -> data ..
//!   metric bprops <who> <L(us..)>               a rebirth whose node (n) / device (d) birth carries one extra metric
//!                                               `bp<i>` per property set (`BirthMetricDetails::with_properties`)
//!                                               -> wire -> host store: ok L(<properties of bp<i> at the store>) | undelivered
//! Numbers are decimal, floats are IEEE bits, strings/bytes hex.
use crate::common::*;
use std::collections::BTreeMap;
use std::sync::{Arc, Mutex};
use std::time::Duration;

use futures::FutureExt;
use prost::Message as _;
use srad_app::generic_app::{ApplicationBuilder, MetricStore, RebirthConfig, StateUpdateError};
use srad_app::{AppEvent, AppEventLoop, MetricBirthDetails, MetricDetails, SubscriptionConfig};
use srad_client::channel::{ChannelBroker, ChannelEventLoop, OutboundMessage};
use srad_client::{topic_and_payload_to_event, Event};
use srad_eon::{
    BirthInitializer, BirthMetricDetails, DeviceHandle, DeviceMetricManager, EoNBuilder,
    MetricManager, MetricPublisher, MetricToken, NodeHandle, NodeMetricManager, PublishMetric,
};
use srad_types::payload::{self, metric, property_value, DataType, Payload};
use srad_types::utils::verif_hooks::set_mock_timestamp;
use srad_types::{traits, DateTime, MetaData, MetricId, MetricValue, PropertySet, PropertyValue, Quality};

// =====================================================================================
// text grammar: terms `head` or `head(kid;kid;...)`; heads over [A-Za-z0-9_-]
// =====================================================================================
#[derive(Clone, Debug, PartialEq)]
pub struct Tree {
    pub head: String,
    pub kids: Vec<Tree>,
}

fn parse_tree_at(s: &[u8], i: &mut usize) -> Option<Tree> {
    let st = *i;
    while *i < s.len() && s[*i] != b'(' && s[*i] != b')' && s[*i] != b';' {
        let c = s[*i];
        if !(c.is_ascii_alphanumeric() || c == b'_' || c == b'-') {
            return None;
        }
        *i += 1;
    }
    if *i == st {
        return None;
    }
    let head = String::from_utf8(s[st..*i].to_vec()).ok()?;
    let mut kids = vec![];
    if *i < s.len() && s[*i] == b'(' {
        *i += 1;
        if *i < s.len() && s[*i] == b')' {
            *i += 1;
            return Some(Tree { head, kids });
        }
        loop {
            kids.push(parse_tree_at(s, i)?);
            if *i >= s.len() {
                return None;
            }
            if s[*i] == b';' {
                *i += 1;
            } else if s[*i] == b')' {
                *i += 1;
                break;
            } else {
                return None;
            }
        }
    }
    Some(Tree { head, kids })
}

pub fn parse_tree(s: &str) -> Option<Tree> {
    let mut i = 0;
    let t = parse_tree_at(s.as_bytes(), &mut i)?;
    if i == s.len() {
        Some(t)
    } else {
        None
    }
}

fn node(head: &str, kids: Vec<String>) -> String {
    format!("{}({})", head, kids.join(";"))
}

fn hx(b: &[u8]) -> String {
    // hex without the `-` convention (the empty string is the empty hex)
    let mut s = String::with_capacity(b.len() * 2);
    for x in b {
        s.push_str(&format!("{:02x}", x));
    }
    s
}
fn unhx(s: &str) -> Option<Vec<u8>> {
    if s.len() % 2 != 0 {
        return None;
    }
    (0..s.len() / 2).map(|i| u8::from_str_radix(&s[2 * i..2 * i + 2], 16).ok()).collect()
}
fn unhx_str(s: &str) -> Option<String> {
    String::from_utf8(unhx(s)?).ok()
}

// =====================================================================================
// neutral AST (independent of srad's types)
// =====================================================================================
#[derive(Clone, Debug, PartialEq)]
pub enum Val {
    I(u32),
    L(u64),
    F(u32),
    D(u64),
    B(bool),
    S(String),
    Y(Vec<u8>),  // BytesValue
    Ds(Vec<u8>), // DatasetValue: prost bytes of the DataSet
    Tp(Vec<u8>), // TemplateValue: prost bytes of the Template
    X,           // ExtensionValue
}

#[derive(Clone, Debug, PartialEq)]
pub enum PVal {
    I(u32),
    L(u64),
    F(u32),
    D(u64),
    B(bool),
    S(String),
    Set(PSetT),
    Sets(Vec<PSetT>),
    X,
}
#[derive(Clone, Debug, PartialEq)]
pub struct Ppv {
    pub ty: Option<u32>,
    pub nu: Option<bool>,
    pub v: Option<PVal>,
}
#[derive(Clone, Debug, PartialEq, Default)]
pub struct PSetT {
    pub keys: Vec<String>,
    pub vals: Vec<Ppv>,
}
/// typed (edge, API level) property value
#[derive(Clone, Debug, PartialEq)]
pub enum UVal {
    Null,
    Sc(PVal), // only the scalar variants I L F D B S
    Set(Ups),
    Sets(Vec<Ups>),
}
/// typed property set in hash-map iteration order (arbitrary)
#[derive(Clone, Debug, PartialEq, Default)]
pub struct Ups(pub Vec<(String, Option<u32>, UVal)>);

#[derive(Clone, Debug, PartialEq, Default)]
pub struct EMeta {
    pub desc: Option<String>,
    pub ct: Option<String>,
    pub size: Option<u64>,
    pub md5: Option<String>,
    pub fname: Option<String>,
    pub ftype: Option<String>,
}
#[derive(Clone, Debug, PartialEq, Default)]
pub struct PMeta {
    pub mp: Option<bool>,
    pub ct: Option<String>,
    pub size: Option<u64>,
    pub seq: Option<u64>,
    pub fname: Option<String>,
    pub ftype: Option<String>,
    pub md5: Option<String>,
    pub desc: Option<String>,
}
#[derive(Clone, Debug, PartialEq)]
pub enum Id {
    Name(String),
    Alias(u64),
}
/// a PublishMetric as the user builds it
#[derive(Clone, Debug, PartialEq)]
pub struct Pm {
    pub id: Id,
    pub val: Option<Val>,
    pub tr: Option<bool>,
    pub hi: Option<bool>,
    pub ts: Option<u64>, // None = `.timestamp()` not called: the clock reading at creation
    pub meta: Option<EMeta>,
    pub props: Option<Ups>,
}
/// a payload Metric
#[derive(Clone, Debug, PartialEq, Default)]
pub struct Qm {
    pub name: Option<String>,
    pub alias: Option<u64>,
    pub ts: Option<u64>,
    pub dt: Option<u32>,
    pub hi: Option<bool>,
    pub tr: Option<bool>,
    pub nu: Option<bool>,
    pub meta: Option<PMeta>,
    pub props: Option<PSetT>,
    pub val: Option<Val>,
}
/// what the host's store receives for one metric
#[derive(Clone, Debug, PartialEq)]
pub struct He {
    pub id: Id,
    pub birth: Option<(String, Option<u64>, u32)>,
    pub val: Option<Val>,
    pub ts: u64,
    pub hi: bool,
    pub tr: bool,
    pub meta: Option<PMeta>,
    pub props: Option<PSetT>,
}

// ---------- printing ----------
fn ob(x: Option<bool>) -> &'static str {
    match x {
        None => "n",
        Some(true) => "t",
        Some(false) => "f",
    }
}
fn on(x: Option<u64>) -> String {
    match x {
        None => "_".into(),
        Some(v) => v.to_string(),
    }
}
fn os(x: &Option<String>) -> String {
    match x {
        None => "_".into(),
        Some(v) => format!("h{}", hx(v.as_bytes())),
    }
}
pub fn show_val(v: &Option<Val>) -> String {
    match v {
        None => "_".into(),
        Some(Val::I(x)) => format!("i{}", x),
        Some(Val::L(x)) => format!("l{}", x),
        Some(Val::F(x)) => format!("f{}", x),
        Some(Val::D(x)) => format!("d{}", x),
        Some(Val::B(x)) => format!("b{}", *x as u8),
        Some(Val::S(x)) => format!("s{}", hx(x.as_bytes())),
        Some(Val::Y(x)) => format!("y{}", hx(x)),
        Some(Val::Ds(x)) => format!("D{}", hx(x)),
        Some(Val::Tp(x)) => format!("T{}", hx(x)),
        Some(Val::X) => "x".into(),
    }
}
pub fn show_pval(v: &Option<PVal>, canon: bool) -> String {
    match v {
        None => "_".into(),
        Some(PVal::I(x)) => format!("i{}", x),
        Some(PVal::L(x)) => format!("l{}", x),
        Some(PVal::F(x)) => format!("f{}", x),
        Some(PVal::D(x)) => format!("d{}", x),
        Some(PVal::B(x)) => format!("b{}", *x as u8),
        Some(PVal::S(x)) => format!("s{}", hx(x.as_bytes())),
        Some(PVal::Set(s)) => show_pset(s, canon),
        Some(PVal::Sets(l)) => node("pl", l.iter().map(|s| show_pset(s, canon)).collect()),
        Some(PVal::X) => "x".into(),
    }
}
pub fn show_ppv(p: &Ppv, canon: bool) -> String {
    node(
        "p",
        vec![on(p.ty.map(|x| x as u64)), ob(p.nu).into(), show_pval(&p.v, canon)],
    )
}
/// `canon`: entries sorted by key (stable) at every level when keys and values have equal
/// length — a property set is a map, its order on the wire is the hash map's
pub fn show_pset(s: &PSetT, canon: bool) -> String {
    let mut idx: Vec<usize> = (0..s.keys.len()).collect();
    if canon && s.keys.len() == s.vals.len() {
        idx.sort_by(|a, b| s.keys[*a].as_bytes().cmp(s.keys[*b].as_bytes()));
    }
    let keys: Vec<String> = idx.iter().map(|i| format!("h{}", hx(s.keys[*i].as_bytes()))).collect();
    let vals: Vec<String> = if s.keys.len() == s.vals.len() {
        idx.iter().map(|i| show_ppv(&s.vals[*i], canon)).collect()
    } else {
        s.vals.iter().map(|v| show_ppv(v, canon)).collect()
    };
    node("ps", vec![node("k", keys), node("v", vals)])
}
pub fn show_uval(v: &UVal) -> String {
    match v {
        UVal::Null => "_".into(),
        UVal::Sc(p) => show_pval(&Some(p.clone()), false),
        UVal::Set(s) => show_ups(s),
        UVal::Sets(l) => node("ul", l.iter().map(show_ups).collect()),
    }
}
pub fn show_ups(s: &Ups) -> String {
    node(
        "us",
        s.0.iter()
            .map(|(k, dt, v)| {
                node(
                    "e",
                    vec![format!("h{}", hx(k.as_bytes())), on(dt.map(|x| x as u64)), show_uval(v)],
                )
            })
            .collect(),
    )
}
pub fn show_emeta(m: &Option<EMeta>) -> String {
    match m {
        None => "_".into(),
        Some(m) => node(
            "em",
            vec![os(&m.desc), os(&m.ct), on(m.size), os(&m.md5), os(&m.fname), os(&m.ftype)],
        ),
    }
}
pub fn show_pmeta(m: &Option<PMeta>) -> String {
    match m {
        None => "_".into(),
        Some(m) => node(
            "pm",
            vec![
                ob(m.mp).into(),
                os(&m.ct),
                on(m.size),
                on(m.seq),
                os(&m.fname),
                os(&m.ftype),
                os(&m.md5),
                os(&m.desc),
            ],
        ),
    }
}
pub fn show_id(id: &Id) -> String {
    match id {
        Id::Name(n) => format!("N{}", hx(n.as_bytes())),
        Id::Alias(a) => format!("A{}", a),
    }
}
pub fn show_pm(p: &Pm) -> String {
    node(
        "P",
        vec![
            show_id(&p.id),
            show_val(&p.val),
            ob(p.tr).into(),
            ob(p.hi).into(),
            on(p.ts),
            show_emeta(&p.meta),
            match &p.props {
                None => "_".into(),
                Some(u) => show_ups(u),
            },
        ],
    )
}
pub fn show_qm(q: &Qm, canon: bool) -> String {
    node(
        "Q",
        vec![
            os(&q.name),
            on(q.alias),
            on(q.ts),
            on(q.dt.map(|x| x as u64)),
            ob(q.hi).into(),
            ob(q.tr).into(),
            ob(q.nu).into(),
            show_pmeta(&q.meta),
            match &q.props {
                None => "_".into(),
                Some(s) => show_pset(s, canon),
            },
            show_val(&q.val),
        ],
    )
}
pub fn show_he(e: &He) -> String {
    let tf = |b: bool| if b { "t" } else { "f" };
    let tail = vec![
        show_val(&e.val),
        e.ts.to_string(),
        tf(e.hi).into(),
        tf(e.tr).into(),
        show_pmeta(&e.meta),
        match &e.props {
            None => "_".into(),
            Some(s) => show_pset(s, true),
        },
    ];
    match &e.birth {
        None => {
            let mut k = vec![show_id(&e.id)];
            k.extend(tail);
            node("E", k)
        }
        Some((name, alias, dt)) => {
            let mut k = vec![format!("h{}", hx(name.as_bytes())), on(*alias), dt.to_string()];
            k.extend(tail);
            node("B", k)
        }
    }
}
fn show_list(head: &str, items: Vec<String>) -> String {
    node(head, items)
}

// ---------- parsing (Tree -> AST) ----------
fn p_ob(t: &Tree) -> Option<Option<bool>> {
    match t.head.as_str() {
        "n" => Some(None),
        "t" => Some(Some(true)),
        "f" => Some(Some(false)),
        _ => None,
    }
}
fn p_on(t: &Tree) -> Option<Option<u64>> {
    if t.head == "_" {
        Some(None)
    } else {
        Some(Some(t.head.parse().ok()?))
    }
}
fn p_on32(t: &Tree) -> Option<Option<u32>> {
    if t.head == "_" {
        Some(None)
    } else {
        Some(Some(t.head.parse().ok()?))
    }
}
fn p_hs(t: &Tree) -> Option<String> {
    unhx_str(t.head.strip_prefix('h')?)
}
fn p_os(t: &Tree) -> Option<Option<String>> {
    if t.head == "_" {
        Some(None)
    } else {
        Some(Some(p_hs(t)?))
    }
}
fn leaf(t: &Tree) -> bool {
    t.kids.is_empty()
}
pub fn p_val(t: &Tree) -> Option<Option<Val>> {
    if !leaf(t) {
        return None;
    }
    let h = t.head.as_str();
    if h == "_" {
        return Some(None);
    }
    if h == "x" {
        return Some(Some(Val::X));
    }
    let (c, r) = h.split_at(1);
    Some(Some(match c {
        "i" => Val::I(r.parse().ok()?),
        "l" => Val::L(r.parse().ok()?),
        "f" => Val::F(r.parse().ok()?),
        "d" => Val::D(r.parse().ok()?),
        "b" => Val::B(match r {
            "0" => false,
            "1" => true,
            _ => return None,
        }),
        "s" => Val::S(unhx_str(r)?),
        "y" => Val::Y(unhx(r)?),
        "D" => Val::Ds(unhx(r)?),
        "T" => Val::Tp(unhx(r)?),
        _ => return None,
    }))
}
fn p_scalar_pval(t: &Tree) -> Option<PVal> {
    if !leaf(t) {
        return None;
    }
    let h = t.head.as_str();
    if h == "x" {
        return Some(PVal::X);
    }
    let (c, r) = h.split_at(1);
    Some(match c {
        "i" => PVal::I(r.parse().ok()?),
        "l" => PVal::L(r.parse().ok()?),
        "f" => PVal::F(r.parse().ok()?),
        "d" => PVal::D(r.parse().ok()?),
        "b" => PVal::B(match r {
            "0" => false,
            "1" => true,
            _ => return None,
        }),
        "s" => PVal::S(unhx_str(r)?),
        _ => return None,
    })
}
pub fn p_pval(t: &Tree) -> Option<Option<PVal>> {
    if t.head == "_" && leaf(t) {
        return Some(None);
    }
    if t.head == "ps" {
        return Some(Some(PVal::Set(p_pset(t)?)));
    }
    if t.head == "pl" {
        let l: Option<Vec<PSetT>> = t.kids.iter().map(p_pset).collect();
        return Some(Some(PVal::Sets(l?)));
    }
    Some(Some(p_scalar_pval(t)?))
}
pub fn p_ppv(t: &Tree) -> Option<Ppv> {
    if t.head != "p" || t.kids.len() != 3 {
        return None;
    }
    Some(Ppv { ty: p_on32(&t.kids[0])?, nu: p_ob(&t.kids[1])?, v: p_pval(&t.kids[2])? })
}
pub fn p_pset(t: &Tree) -> Option<PSetT> {
    if t.head != "ps" || t.kids.len() != 2 || t.kids[0].head != "k" || t.kids[1].head != "v" {
        return None;
    }
    let keys: Option<Vec<String>> = t.kids[0].kids.iter().map(p_hs).collect();
    let vals: Option<Vec<Ppv>> = t.kids[1].kids.iter().map(p_ppv).collect();
    Some(PSetT { keys: keys?, vals: vals? })
}
pub fn p_uval(t: &Tree) -> Option<UVal> {
    if t.head == "_" && leaf(t) {
        return Some(UVal::Null);
    }
    if t.head == "us" {
        return Some(UVal::Set(p_ups(t)?));
    }
    if t.head == "ul" {
        let l: Option<Vec<Ups>> = t.kids.iter().map(p_ups).collect();
        return Some(UVal::Sets(l?));
    }
    match p_scalar_pval(t)? {
        PVal::X => None,
        v => Some(UVal::Sc(v)),
    }
}
pub fn p_ups(t: &Tree) -> Option<Ups> {
    if t.head != "us" {
        return None;
    }
    let mut v = vec![];
    for e in &t.kids {
        if e.head != "e" || e.kids.len() != 3 {
            return None;
        }
        v.push((p_hs(&e.kids[0])?, p_on32(&e.kids[1])?, p_uval(&e.kids[2])?));
    }
    Some(Ups(v))
}
fn p_emeta(t: &Tree) -> Option<Option<EMeta>> {
    if t.head == "_" {
        return Some(None);
    }
    if t.head != "em" || t.kids.len() != 6 {
        return None;
    }
    let k = &t.kids;
    Some(Some(EMeta {
        desc: p_os(&k[0])?,
        ct: p_os(&k[1])?,
        size: p_on(&k[2])?,
        md5: p_os(&k[3])?,
        fname: p_os(&k[4])?,
        ftype: p_os(&k[5])?,
    }))
}
fn p_pmeta(t: &Tree) -> Option<Option<PMeta>> {
    if t.head == "_" {
        return Some(None);
    }
    if t.head != "pm" || t.kids.len() != 8 {
        return None;
    }
    let k = &t.kids;
    Some(Some(PMeta {
        mp: p_ob(&k[0])?,
        ct: p_os(&k[1])?,
        size: p_on(&k[2])?,
        seq: p_on(&k[3])?,
        fname: p_os(&k[4])?,
        ftype: p_os(&k[5])?,
        md5: p_os(&k[6])?,
        desc: p_os(&k[7])?,
    }))
}
fn p_id(t: &Tree) -> Option<Id> {
    let (c, r) = t.head.split_at(1);
    match c {
        "N" => Some(Id::Name(unhx_str(r)?)),
        "A" => Some(Id::Alias(r.parse().ok()?)),
        _ => None,
    }
}
pub fn p_pm(t: &Tree) -> Option<Pm> {
    if t.head != "P" || t.kids.len() != 7 {
        return None;
    }
    let k = &t.kids;
    Some(Pm {
        id: p_id(&k[0])?,
        val: p_val(&k[1])?,
        tr: p_ob(&k[2])?,
        hi: p_ob(&k[3])?,
        ts: p_on(&k[4])?,
        meta: p_emeta(&k[5])?,
        props: if k[6].head == "_" { None } else { Some(p_ups(&k[6])?) },
    })
}
pub fn p_qm(t: &Tree) -> Option<Qm> {
    if t.head != "Q" || t.kids.len() != 10 {
        return None;
    }
    let k = &t.kids;
    Some(Qm {
        name: p_os(&k[0])?,
        alias: p_on(&k[1])?,
        ts: p_on(&k[2])?,
        dt: p_on32(&k[3])?,
        hi: p_ob(&k[4])?,
        tr: p_ob(&k[5])?,
        nu: p_ob(&k[6])?,
        meta: p_pmeta(&k[7])?,
        props: if k[8].head == "_" { None } else { Some(p_pset(&k[8])?) },
        val: p_val(&k[9])?,
    })
}
fn p_list<T>(s: &str, f: fn(&Tree) -> Option<T>) -> Option<Vec<T>> {
    let t = parse_tree(s)?;
    if t.head != "L" {
        return None;
    }
    t.kids.iter().map(f).collect()
}

// =====================================================================================
// AST <-> srad types
// =====================================================================================
fn val_to_srad(v: &Val) -> metric::Value {
    match v {
        Val::I(x) => metric::Value::IntValue(*x),
        Val::L(x) => metric::Value::LongValue(*x),
        Val::F(x) => metric::Value::FloatValue(f32::from_bits(*x)),
        Val::D(x) => metric::Value::DoubleValue(f64::from_bits(*x)),
        Val::B(x) => metric::Value::BooleanValue(*x),
        Val::S(x) => metric::Value::StringValue(x.clone()),
        Val::Y(x) => metric::Value::BytesValue(x.clone()),
        Val::Ds(x) => metric::Value::DatasetValue(
            payload::DataSet::decode(x.as_slice()).expect("harness generates decodable data sets"),
        ),
        Val::Tp(x) => metric::Value::TemplateValue(
            payload::Template::decode(x.as_slice()).expect("harness generates decodable templates"),
        ),
        Val::X => metric::Value::ExtensionValue(Default::default()),
    }
}
fn val_from_srad(v: &metric::Value) -> Val {
    match v {
        metric::Value::IntValue(x) => Val::I(*x),
        metric::Value::LongValue(x) => Val::L(*x),
        metric::Value::FloatValue(x) => Val::F(x.to_bits()),
        metric::Value::DoubleValue(x) => Val::D(x.to_bits()),
        metric::Value::BooleanValue(x) => Val::B(*x),
        metric::Value::StringValue(x) => Val::S(x.clone()),
        metric::Value::BytesValue(x) => Val::Y(x.clone()),
        metric::Value::DatasetValue(x) => Val::Ds(x.encode_to_vec()),
        metric::Value::TemplateValue(x) => Val::Tp(x.encode_to_vec()),
        metric::Value::ExtensionValue(_) => Val::X,
    }
}
fn pval_to_srad(v: &PVal) -> property_value::Value {
    match v {
        PVal::I(x) => property_value::Value::IntValue(*x),
        PVal::L(x) => property_value::Value::LongValue(*x),
        PVal::F(x) => property_value::Value::FloatValue(f32::from_bits(*x)),
        PVal::D(x) => property_value::Value::DoubleValue(f64::from_bits(*x)),
        PVal::B(x) => property_value::Value::BooleanValue(*x),
        PVal::S(x) => property_value::Value::StringValue(x.clone()),
        PVal::Set(s) => property_value::Value::PropertysetValue(pset_to_srad(s)),
        PVal::Sets(l) => property_value::Value::PropertysetsValue(payload::PropertySetList {
            propertyset: l.iter().map(pset_to_srad).collect(),
        }),
        PVal::X => property_value::Value::ExtensionValue(Default::default()),
    }
}
fn pval_from_srad(v: &property_value::Value) -> PVal {
    match v {
        property_value::Value::IntValue(x) => PVal::I(*x),
        property_value::Value::LongValue(x) => PVal::L(*x),
        property_value::Value::FloatValue(x) => PVal::F(x.to_bits()),
        property_value::Value::DoubleValue(x) => PVal::D(x.to_bits()),
        property_value::Value::BooleanValue(x) => PVal::B(*x),
        property_value::Value::StringValue(x) => PVal::S(x.clone()),
        property_value::Value::PropertysetValue(s) => PVal::Set(pset_from_srad(s)),
        property_value::Value::PropertysetsValue(l) => {
            PVal::Sets(l.propertyset.iter().map(pset_from_srad).collect())
        }
        property_value::Value::ExtensionValue(_) => PVal::X,
    }
}
pub fn pset_to_srad(s: &PSetT) -> payload::PropertySet {
    payload::PropertySet {
        keys: s.keys.clone(),
        values: s
            .vals
            .iter()
            .map(|p| payload::PropertyValue {
                r#type: p.ty,
                is_null: p.nu,
                value: p.v.as_ref().map(pval_to_srad),
            })
            .collect(),
    }
}
pub fn pset_from_srad(s: &payload::PropertySet) -> PSetT {
    PSetT {
        keys: s.keys.clone(),
        vals: s
            .values
            .iter()
            .map(|p| Ppv { ty: p.r#type, nu: p.is_null, v: p.value.as_ref().map(pval_from_srad) })
            .collect(),
    }
}
fn pmeta_to_srad(m: &PMeta) -> payload::MetaData {
    payload::MetaData {
        is_multi_part: m.mp,
        content_type: m.ct.clone(),
        size: m.size,
        seq: m.seq,
        file_name: m.fname.clone(),
        file_type: m.ftype.clone(),
        md5: m.md5.clone(),
        description: m.desc.clone(),
    }
}
fn pmeta_from_srad(m: &payload::MetaData) -> PMeta {
    PMeta {
        mp: m.is_multi_part,
        ct: m.content_type.clone(),
        size: m.size,
        seq: m.seq,
        fname: m.file_name.clone(),
        ftype: m.file_type.clone(),
        md5: m.md5.clone(),
        desc: m.description.clone(),
    }
}
pub fn qm_to_srad(q: &Qm) -> payload::Metric {
    payload::Metric {
        name: q.name.clone(),
        alias: q.alias,
        timestamp: q.ts,
        datatype: q.dt,
        is_historical: q.hi,
        is_transient: q.tr,
        is_null: q.nu,
        metadata: q.meta.as_ref().map(pmeta_to_srad),
        properties: q.props.as_ref().map(pset_to_srad),
        value: q.val.as_ref().map(val_to_srad),
    }
}
pub fn qm_from_srad(m: &payload::Metric) -> Qm {
    Qm {
        name: m.name.clone(),
        alias: m.alias,
        ts: m.timestamp,
        dt: m.datatype,
        hi: m.is_historical,
        tr: m.is_transient,
        nu: m.is_null,
        meta: m.metadata.as_ref().map(pmeta_from_srad),
        props: m.properties.as_ref().map(pset_from_srad),
        val: m.value.as_ref().map(val_from_srad),
    }
}
fn id_from_srad(id: &MetricId) -> Id {
    match id {
        MetricId::Name(n) => Id::Name(n.clone()),
        MetricId::Alias(a) => Id::Alias(*a),
    }
}
fn he_from_details(id: Id, birth: Option<(String, Option<u64>, u32)>, d: MetricDetails) -> He {
    He {
        id,
        birth,
        val: d.value.as_ref().map(|v| val_from_srad(&v.0)),
        ts: d.timestamp,
        hi: d.is_historical,
        tr: d.is_transient,
        meta: d.metadata.as_ref().map(pmeta_from_srad),
        props: d.properties.map(|p| {
            let pp: payload::PropertySet = p.into();
            pset_from_srad(&pp)
        }),
    }
}

// ---------- building the typed (API level) objects from the AST ----------
/// User property types: `traits::PropertyValue` is a public trait, and Text and UUID are property datatypes of
/// the specification (carried as `string_value`) that none of srad's built-in Rust types maps to by default.
macro_rules! string_prop_type {
    ($T:ident, $dt:expr) => {
        #[derive(Clone, Debug)]
        pub struct $T(pub String);
        impl From<$T> for PropertyValue {
            fn from(t: $T) -> Self {
                PropertyValue(property_value::Value::StringValue(t.0))
            }
        }
        impl TryFrom<PropertyValue> for $T {
            type Error = ();
            fn try_from(v: PropertyValue) -> Result<Self, ()> {
                match v.0 {
                    property_value::Value::StringValue(s) => Ok($T(s)),
                    _ => Err(()),
                }
            }
        }
        impl traits::HasDataType for $T {
            fn supported_datatypes() -> &'static [DataType] {
                static S: [DataType; 1] = [$dt];
                &S
            }
        }
        impl traits::PropertyValue for $T {}
    };
}
string_prop_type!(TextP, DataType::Text);
string_prop_type!(UuidP, DataType::Uuid);

macro_rules! scalar_by_dt {
    ($dt:expr, $f:ident, $($a:expr),*) => {
        match $dt {
            1 => $f::<i8>($($a),*),
            2 => $f::<i16>($($a),*),
            3 => $f::<i32>($($a),*),
            4 => $f::<i64>($($a),*),
            5 => $f::<u8>($($a),*),
            6 => $f::<u16>($($a),*),
            7 => $f::<u32>($($a),*),
            8 => $f::<u64>($($a),*),
            9 => $f::<f32>($($a),*),
            10 => $f::<f64>($($a),*),
            11 => $f::<bool>($($a),*),
            12 => $f::<String>($($a),*),
            13 => $f::<DateTime>($($a),*),
            14 => $f::<TextP>($($a),*),
            15 => $f::<UuidP>($($a),*),
            _ => Err(format!("datatype {} is no default datatype of a property type", $dt)),
        }
    };
}

fn insert_scalar<T>(ps: &mut PropertySet, key: &str, v: Option<&PVal>) -> Result<(), String>
where
    T: traits::PropertyValue + TryFrom<PropertyValue>,
{
    let tv: Option<T> = match v {
        None => None,
        Some(pv) => Some(
            T::try_from(PropertyValue(pval_to_srad(pv)))
                .map_err(|_| "property value is not of the entry's datatype".to_string())?,
        ),
    };
    ps.insert(key.to_string(), tv).map_err(|_| "insert refused".to_string())
}

/// Build a `srad_types::PropertySet` through its public API (`new_with_quality`, `insert`).
/// Only sets the API can express are accepted (a `Quality` entry of type Int32, every other
/// entry typed with the default datatype of a property type).
pub fn ups_to_srad(u: &Ups) -> Result<PropertySet, String> {
    let mut q: Option<Quality> = None;
    for (k, dt, v) in &u.0 {
        if k == "Quality" {
            q = match (dt, v) {
                (Some(3), UVal::Sc(PVal::I(0))) => Some(Quality::Good),
                (Some(3), UVal::Sc(PVal::I(192))) => Some(Quality::Bad),
                (Some(3), UVal::Sc(PVal::I(500))) => Some(Quality::Stale),
                _ => return Err("Quality entry is not Int32 0/192/500".into()),
            };
        }
    }
    let mut ps = PropertySet::new_with_quality(q.ok_or("no Quality entry")?);
    for (k, dt, v) in &u.0 {
        if k == "Quality" {
            continue;
        }
        let dt = dt.ok_or("entry without datatype")?;
        match v {
            UVal::Set(inner) => {
                if dt != 20 {
                    return Err("nested set must have datatype PropertySet".into());
                }
                ps.insert(k.clone(), Some(ups_to_srad(inner)?)).map_err(|_| "insert refused")?;
            }
            UVal::Sets(l) => {
                if dt != 21 {
                    return Err("set list must have datatype PropertySetList".into());
                }
                let v: Result<Vec<PropertySet>, String> = l.iter().map(ups_to_srad).collect();
                ps.insert(k.clone(), Some(v?)).map_err(|_| "insert refused")?;
            }
            UVal::Null => match dt {
                20 => ps.insert::<_, PropertySet>(k.clone(), None).map_err(|_| "insert refused")?,
                21 => ps.insert::<_, Vec<PropertySet>>(k.clone(), None).map_err(|_| "insert refused")?,
                d => scalar_by_dt!(d, insert_scalar, &mut ps, k, None)?,
            },
            UVal::Sc(pv) => scalar_by_dt!(dt, insert_scalar, &mut ps, k, Some(pv))?,
        }
    }
    Ok(ps)
}

fn emeta_to_srad(m: &EMeta) -> MetaData {
    MetaData {
        description: m.desc.clone(),
        content_type: m.ct.clone(),
        size: m.size,
        md5: m.md5.clone(),
        file_name: m.fname.clone(),
        file_type: m.ftype.clone(),
    }
}

/// A user type that carries any metric value (data sets, templates, extension values, and the
/// variants the built-in Rust types never produce): `traits::MetricValue` is a public trait.
#[derive(Clone)]
pub struct Raw(pub metric::Value);
impl From<Raw> for MetricValue {
    fn from(r: Raw) -> Self {
        MetricValue(r.0)
    }
}
impl TryFrom<MetricValue> for Raw {
    type Error = ();
    fn try_from(v: MetricValue) -> Result<Self, ()> {
        Ok(Raw(v.0))
    }
}
impl traits::HasDataType for Raw {
    fn supported_datatypes() -> &'static [DataType] {
        static S: [DataType; 1] = [DataType::DataSet];
        &S
    }
}
impl traits::MetricValue for Raw {
    /// a user type may describe itself differently in a birth and in a data message: `Raw` carries
    /// metadata only in births, so a data metric of a `raw` token without explicit metadata has none
    /// (`publish_metadata` keeps its default)
    fn birth_metadata(&self) -> Option<srad_types::MetaData> {
        Some(srad_types::MetaData {
            description: Some("birth-only metadata".into()),
            content_type: Some("application/x-raw".into()),
            size: None,
            md5: None,
            file_name: None,
            file_type: None,
        })
    }
}

macro_rules! tok_types {
    ($m:ident) => {
        $m! {
            (Bool, bool, "bool", true),
            (U8, u8, "u8", 1u8),
            (U16, u16, "u16", 1u16),
            (U32, u32, "u32", 1u32),
            (U64, u64, "u64", 1u64),
            (I8, i8, "i8", -1i8),
            (I16, i16, "i16", -1i16),
            (I32, i32, "i32", -1i32),
            (I64, i64, "i64", -1i64),
            (F32, f32, "f32", 1.5f32),
            (F64, f64, "f64", 1.5f64),
            (Str, String, "string", "s".to_string()),
            (Dt, DateTime, "datetime", DateTime::new(5)),
            (VBool, Vec<bool>, "vbool", vec![true]),
            (VU8, Vec<u8>, "vu8", vec![1u8]),
            (VU16, Vec<u16>, "vu16", vec![1u16]),
            (VU32, Vec<u32>, "vu32", vec![1u32]),
            (VU64, Vec<u64>, "vu64", vec![1u64]),
            (VI8, Vec<i8>, "vi8", vec![-1i8]),
            (VI16, Vec<i16>, "vi16", vec![-1i16]),
            (VI32, Vec<i32>, "vi32", vec![-1i32]),
            (VI64, Vec<i64>, "vi64", vec![-1i64]),
            (VF32, Vec<f32>, "vf32", vec![1.5f32]),
            (VF64, Vec<f64>, "vf64", vec![1.5f64]),
            (VStr, Vec<String>, "vstring", vec!["s".to_string()]),
            (VDt, Vec<DateTime>, "vdatetime", vec![DateTime::new(5)]),
            (RawV, Raw, "raw", Raw(metric::Value::ExtensionValue(Default::default())))
        }
    };
}

macro_rules! def_tok {
    ($(($V:ident, $T:ty, $n:expr, $init:expr)),*) => {
        pub enum Tok { $($V(MetricToken<$T>)),* }
        pub const TOK_KINDS: &[&str] = &[$($n),*];
        impl Tok {
            pub fn kind(&self) -> &'static str {
                match self { $(Tok::$V(_) => $n),* }
            }
            fn id(&self) -> Id {
                match self { $(Tok::$V(t) => id_from_srad(&t.id)),* }
            }
            /// `create_publish_metric` with the value obtained from the metric value by srad's own
            /// typed conversion (`T::try_from(MetricValue)`)
            fn create(&self, val: &Option<Val>) -> Result<PublishMetric, String> {
                match self {
                    $(Tok::$V(t) => {
                        let v: Option<$T> = match val {
                            None => None,
                            Some(v) => Some(<$T>::try_from(MetricValue(val_to_srad(v)))
                                .map_err(|_| format!("value is not a {}", $n))?),
                        };
                        Ok(t.create_publish_metric(v))
                    }),*
                }
            }
            /// the value decodes as the token's Rust type
            fn decodes(&self, val: &Val) -> bool {
                match self {
                    $(Tok::$V(_) => <$T>::try_from(MetricValue(val_to_srad(val))).is_ok()),*
                }
            }
        }
        fn register_all(bi: &mut BirthInitializer, toks: &mut BTreeMap<String, Tok>) {
            // a birth metric with everything a birth can carry beyond a value: metadata, properties
            // (a nested set among them), a custom timestamp; a second one without a value
            {
                let d = BirthMetricDetails::new_with_initial_value("bm", -5i32)
                    .use_alias(true)
                    .with_timestamp(77)
                    .with_metadata(birth_meta())
                    .with_properties(birth_props());
                let _ = bi.register_metric(d).expect("birth metric with metadata registers");
                let d = BirthMetricDetails::<u16>::new_without_initial_value("bn", DataType::UInt16)
                    .expect("datatype matches")
                    .use_alias(false)
                    .with_timestamp(0)
                    .with_metadata(birth_meta());
                let _ = bi.register_metric(d).expect("birth metric without value registers");
            }
            $(
                for alias in [false, true] {
                    let name = format!("{}_{}", $n, if alias { "a" } else { "n" });
                    let d: BirthMetricDetails<$T> =
                        BirthMetricDetails::new_with_initial_value(name, $init).use_alias(alias);
                    let t = bi.register_metric(d).expect("birth metric registers");
                    let tok = Tok::$V(t);
                    toks.insert(show_id(&tok.id()), tok);
                }
            )*
        }
    };
}
tok_types!(def_tok);

fn birth_meta() -> MetaData {
    MetaData {
        description: Some("déscription".into()),
        content_type: Some("text/plain".into()),
        size: Some(u64::MAX),
        // a well formed digest rendered with upper AND lower case hex digits: text the library must not touch
        md5: Some("D41D8CD98F00B204e9800998ecf8427E".into()),
        file_name: Some("F.Bin".into()),
        file_type: None,
    }
}
/// the payload metadata the property demands for `birth_meta()`, written out by hand (never through srad's `From`)
fn birth_meta_spec() -> PMeta {
    PMeta {
        mp: None,
        ct: Some("text/plain".into()),
        size: Some(u64::MAX),
        seq: None,
        fname: Some("F.Bin".into()),
        ftype: None,
        md5: Some("D41D8CD98F00B204e9800998ecf8427E".into()),
        desc: Some("déscription".into()),
    }
}
fn birth_props() -> PropertySet {
    let mut inner = PropertySet::new_with_quality(Quality::Stale);
    inner.insert("depth", Some(2u8)).unwrap();
    let mut ps = PropertySet::new_with_quality(Quality::Bad);
    ps.insert("unit", Some("°C".to_string())).unwrap();
    ps.insert::<_, f64>("none", None).unwrap();
    ps.insert("inner", Some(inner)).unwrap();
    ps
}
/// C12 for BIRTH metrics (`BirthMetricDetails::with_metadata / with_properties / with_timestamp`): what the
/// host's store is told in `update_from_birth` for the metrics `bm` and `bn` of a node / device birth
fn check_birth_metrics(rec: &[RecCall]) -> Vec<String> {
    let mut fails = vec![];
    let want_meta = birth_meta_spec();
    let want_props = {
        let pp: payload::PropertySet = birth_props().into();
        show_pset(&pset_from_srad(&pp), true)
    };
    let births: Vec<&Vec<He>> = rec.iter().filter_map(|r| if let RecKind::Birth(v) = &r.kind { Some(v) } else { None }).collect();
    if births.len() != 2 {
        fails.push(format!("expected the node's and the device's birth at the store, got {} birth(s)", births.len()));
    }
    for b in births {
        match b.iter().find(|h| h.birth.as_ref().map(|x| x.0.as_str()) == Some("bm")) {
            None => fails.push("birth metric `bm` did not reach the store".into()),
            Some(h) => {
                if h.val != Some(Val::I((-5i32) as u32)) || h.ts != 77 || h.hi || h.tr {
                    fails.push(format!("bm: value/timestamp/flags {:?} {} {} {}", h.val, h.ts, h.hi, h.tr));
                }
                if h.birth.as_ref().map(|x| (x.1.is_some(), x.2)) != Some((true, DataType::Int32 as u32)) {
                    fails.push(format!("bm: birth details {:?}", h.birth));
                }
                if h.meta.as_ref() != Some(&want_meta) {
                    fails.push(format!("bm: metadata {:?}, published {:?}", h.meta, want_meta));
                }
                match &h.props {
                    Some(p) if show_pset(p, true) == want_props => {}
                    other => fails.push(format!("bm: properties {:?}, published {}", other.as_ref().map(|p| show_pset(p, true)), want_props)),
                }
            }
        }
        match b.iter().find(|h| h.birth.as_ref().map(|x| x.0.as_str()) == Some("bn")) {
            None => fails.push("birth metric `bn` did not reach the store".into()),
            Some(h) => {
                if h.val.is_some() || h.ts != 0 || h.meta.as_ref() != Some(&want_meta) || h.props.is_some() {
                    fails.push(format!("bn: {:?} ts={} meta={:?} props={:?}", h.val, h.ts, h.meta, h.props.is_some()));
                }
                if h.birth.as_ref().map(|x| (x.1.is_some(), x.2)) != Some((false, DataType::UInt16 as u32)) {
                    fails.push(format!("bn: birth details {:?}", h.birth));
                }
            }
        }
    }
    fails
}

type TokTable = Arc<Mutex<BTreeMap<String, Tok>>>;

/// property sets of the extra birth metrics `bp0`, `bp1`, … a manager registers (op `metric bprops`)
type ExtraBirth = Arc<Mutex<Vec<Ups>>>;

struct Mgr {
    toks: TokTable,
    extra: ExtraBirth,
}
impl MetricManager for Mgr {
    fn initialise_birth(&self, bi: &mut BirthInitializer) {
        let mut t = self.toks.lock().unwrap();
        t.clear();
        register_all(bi, &mut t);
        for (i, u) in self.extra.lock().unwrap().iter().enumerate() {
            let d = BirthMetricDetails::new_with_initial_value(format!("bp{}", i), i as i32)
                .use_alias(i % 2 == 1)
                .with_timestamp(BP_TS + i as u64)
                .with_properties(ups_to_srad(u).expect("checked by the caller"));
            let _ = bi.register_metric(d).expect("birth metric with properties registers");
        }
    }
}
const BP_TS: u64 = 4242;
impl NodeMetricManager for Mgr {}
impl DeviceMetricManager for Mgr {}

/// Build the real `PublishMetric` through the token and the builder methods.
fn pm_to_srad(toks: &BTreeMap<String, Tok>, p: &Pm) -> Result<PublishMetric, String> {
    let tok = toks.get(&show_id(&p.id)).ok_or_else(|| format!("no token for {}", show_id(&p.id)))?;
    let mut m = tok.create(&p.val)?;
    if let Some(ts) = p.ts {
        m = m.timestamp(ts);
    }
    if let Some(b) = p.tr {
        m = m.transient(b);
    }
    if let Some(b) = p.hi {
        m = m.historical(b);
    }
    if let Some(md) = &p.meta {
        m = m.metadata(emeta_to_srad(md));
    }
    if let Some(u) = &p.props {
        m = m.properties(ups_to_srad(u)?);
    }
    Ok(m)
}

// =====================================================================================
// recording store
// =====================================================================================
#[derive(Clone, Debug)]
pub enum RecKind {
    Stale,
    Birth(Vec<He>),
    Data(Vec<He>),
}
#[derive(Clone, Debug)]
pub struct RecCall {
    pub tag: String,
    pub kind: RecKind,
}
struct RecStore {
    tag: String,
    rec: Arc<Mutex<Vec<RecCall>>>,
}
impl MetricStore for RecStore {
    fn set_stale(&mut self) {
        self.rec.lock().unwrap().push(RecCall { tag: self.tag.clone(), kind: RecKind::Stale });
    }
    fn update_from_birth(
        &mut self,
        details: Vec<(MetricBirthDetails, MetricDetails)>,
    ) -> Result<(), StateUpdateError> {
        let v = details
            .into_iter()
            .map(|(b, d)| {
                let id = id_from_srad(&b.get_metric_id());
                he_from_details(id, Some((b.name.clone(), b.alias, b.datatype as u32)), d)
            })
            .collect();
        self.rec.lock().unwrap().push(RecCall { tag: self.tag.clone(), kind: RecKind::Birth(v) });
        Ok(())
    }
    fn update_from_data(
        &mut self,
        details: Vec<(MetricId, MetricDetails)>,
    ) -> Result<(), StateUpdateError> {
        let v = details.into_iter().map(|(id, d)| he_from_details(id_from_srad(&id), None, d)).collect();
        self.rec.lock().unwrap().push(RecCall { tag: self.tag.clone(), kind: RecKind::Data(v) });
        Ok(())
    }
}

// =====================================================================================
// the world: edge node + device, wire, two hosts
// =====================================================================================
const GROUP: &str = "G";
const EDGE: &str = "E";
const DEV: &str = "D";

struct Inner {
    node: NodeHandle,
    dev: DeviceHandle,
    edge_broker: ChannelBroker,
    ntoks: TokTable,
    dtoks: TokTable,
    nextra: ExtraBirth,
    dextra: ExtraBirth,
    app_broker: ChannelBroker,
    happ_broker: ChannelBroker,
    rec: Arc<Mutex<Vec<RecCall>>>,
    ael: AppEventLoop,
    ael_broker: ChannelBroker,
    _keep: Vec<ChannelBroker>,
    clock: u64,
    host_counter: u64,
    /// last sequence number the edge node used (None = unknown, resynchronise)
    edge_seq: u64,
    synced: bool,
    /// what `check_birth_metrics` found at the first births (reported by the first op of the world)
    birth_fails: Option<Vec<String>>,
}

pub struct World {
    rt: tokio::runtime::Runtime,
    inner: Inner,
}

async fn barrier() {
    tokio::time::sleep(Duration::from_nanos(1)).await;
}

fn quiet_config() -> RebirthConfig {
    RebirthConfig {
        rebirth_cooldown: Duration::from_secs(0),
        invalid_payload: false,
        out_of_sync_bdseq: false,
        unknown_node: false,
        unknown_device: false,
        unknown_metric: false,
        reorder_failure: false,
        recorded_state_stale: false,
        reorder_timeout: None,
    }
}

fn build_app(
    host: &str,
    resequence: bool,
    rec: Arc<Mutex<Vec<RecCall>>>,
) -> (srad_app::generic_app::Application, ChannelBroker) {
    let (el, client, broker) = ChannelEventLoop::new();
    let (app, _client) = ApplicationBuilder::new(host, el, client, SubscriptionConfig::AllGroups)
        .with_rebirth_config(quiet_config())
        .resequence_messages(resequence)
        .with_node_queue_size(8)
        .on_node_created(move |node| {
            let id = node.id().clone();
            let tag = format!("{}/{}", id.group, id.node);
            node.register_metric_store(RecStore { tag: tag.clone(), rec: rec.clone() });
            let rec2 = rec.clone();
            node.on_device_created(move |dev| {
                let t = format!("{}/{}", tag, dev.name());
                dev.register_metric_store(RecStore { tag: t, rec: rec2.clone() });
            });
        })
        .build();
    (app, broker)
}

/// outcome of decoding one publish at the host's event loop
#[derive(Clone, Debug, PartialEq)]
pub enum Class {
    Err(&'static str),
    Data { seq: u64, ts: u64 },
    Birth { ts: u64 },
    Other(String),
}

fn num_after(s: &str, key: &str) -> Option<u64> {
    let i = s.find(key)? + key.len();
    let d: String = s[i..].chars().take_while(|c| c.is_ascii_digit()).collect();
    d.parse().ok()
}

fn err_class(dbg: &str) -> &'static str {
    // variant names of srad_app's PayloadError / PayloadMetricError (never message texts)
    match dbg {
        "MissingSeq" => "seq",
        "InvalidSeq" => "seq0",
        "InvalidBdseq" => "bdseq",
        "MissingTimestamp" => "ts",
        "MetricError(MissingTimestamp)" => "mts",
        "MetricError(MissingDatatype)" => "dt",
        "MetricError(InvalidDatatype)" => "dtcode",
        "MetricError(MissingName)" => "name",
        "MetricError(NotNullNoValue)" => "null",
        "MetricError(InvalidProperties)" => "props",
        _ => "unknown",
    }
}

impl Inner {
    fn tick(&mut self) -> u64 {
        self.clock += 10;
        set_mock_timestamp(Some(self.clock));
        self.clock
    }

    /// decode at the host's event loop (a): error class, or seq / timestamp of the event
    async fn classify(&mut self, topic: &str, bytes: &[u8]) -> Class {
        let ev = topic_and_payload_to_event(topic.as_bytes().to_vec(), bytes.to_vec());
        if let Event::InvalidPublish { .. } = ev {
            return Class::Other("invalid-publish".into());
        }
        self.ael_broker.tx_event.send(ev).unwrap();
        match self.ael.poll().now_or_never() {
            None => Class::Other("ignored".into()),
            Some(AppEvent::InvalidPayload(d)) => Class::Err(err_class(&format!("{:?}", d.error))),
            Some(AppEvent::Node(n)) => {
                let s = format!("{:?}", n);
                let k = s.find("event: ").map(|i| &s[i..]).unwrap_or("");
                if k.starts_with("event: Data(") {
                    Class::Data { seq: num_after(k, "seq: ").unwrap_or(999), ts: num_after(k, "timestamp: ").unwrap_or(0) }
                } else if k.starts_with("event: Birth(") {
                    Class::Birth { ts: num_after(k, "timestamp: ").unwrap_or(0) }
                } else {
                    Class::Other("node-event".into())
                }
            }
            Some(AppEvent::Device(n)) => {
                let s = format!("{:?}", n);
                let k = s.find("event: ").map(|i| &s[i..]).unwrap_or("");
                if k.starts_with("event: Data(") {
                    Class::Data { seq: num_after(k, "seq: ").unwrap_or(999), ts: num_after(k, "timestamp: ").unwrap_or(0) }
                } else if k.starts_with("event: Birth(") {
                    Class::Birth { ts: num_after(k, "timestamp: ").unwrap_or(0) }
                } else {
                    Class::Other("device-event".into())
                }
            }
            Some(_) => Class::Other("other".into()),
        }
    }

    /// really encode, and hand topic + bytes to `topic_and_payload_to_event` and on to an application
    fn deliver(broker: &ChannelBroker, topic: &str, bytes: &[u8]) {
        let ev = topic_and_payload_to_event(topic.as_bytes().to_vec(), bytes.to_vec());
        broker.tx_event.send(ev).unwrap();
    }

    fn take_rec(&self) -> Vec<RecCall> {
        std::mem::take(&mut *self.rec.lock().unwrap())
    }

    /// everything the edge handed to its client since the last call: (topic, payload)
    fn drain_edge(&mut self) -> Vec<(String, Payload)> {
        let mut v = vec![];
        while let Ok(m) = self.edge_broker.rx_outbound.try_recv() {
            match m {
                OutboundMessage::NodeMessage { topic, payload } => v.push((topic.topic, payload)),
                OutboundMessage::DeviceMessage { topic, payload } => v.push((topic.topic, payload)),
                _ => {}
            }
        }
        v
    }

    /// (re)birth the edge node and bring the e2e host in step with it
    async fn resync(&mut self) {
        self.tick();
        self.node.rebirth();
        barrier().await;
        let msgs = self.drain_edge();
        for (topic, payload) in &msgs {
            let bytes: Vec<u8> = payload.clone().into();
            Self::deliver(&self.app_broker, topic, &bytes);
        }
        barrier().await;
        self.take_rec();
        // NBIRTH has seq 0, the DBIRTH seq 1
        self.edge_seq = msgs.iter().filter_map(|(_, p)| p.seq).max().unwrap_or(0);
        self.synced = true;
    }
}

impl World {
    pub fn new() -> World {
        let rt = tokio::runtime::Builder::new_current_thread()
            .enable_time()
            .start_paused(true)
            .build()
            .unwrap();
        set_mock_timestamp(Some(1000));
        let inner = rt.block_on(async {
            let rec = Arc::new(Mutex::new(vec![]));
            // hosts
            let (app, app_broker) = build_app("H1", true, rec.clone());
            tokio::spawn(app.run());
            let (happ, happ_broker) = build_app("H2", false, rec.clone());
            tokio::spawn(happ.run());
            let (el, client, ael_broker) = ChannelEventLoop::new();
            let (ael, _c) = AppEventLoop::new("H3", SubscriptionConfig::AllGroups, el, client);
            // edge
            let ntoks: TokTable = Arc::new(Mutex::new(BTreeMap::new()));
            let dtoks: TokTable = Arc::new(Mutex::new(BTreeMap::new()));
            let nextra: ExtraBirth = Arc::new(Mutex::new(vec![]));
            let dextra: ExtraBirth = Arc::new(Mutex::new(vec![]));
            let (el, client, edge_broker) = ChannelEventLoop::new();
            let (eon, node) = EoNBuilder::new(el, client)
                .with_group_id(GROUP)
                .with_node_id(EDGE)
                .with_metric_manager(Mgr { toks: ntoks.clone(), extra: nextra.clone() })
                .build()
                .unwrap();
            tokio::spawn(eon.run());
            let dev = node.register_device(DEV, Mgr { toks: dtoks.clone(), extra: dextra.clone() }).unwrap();
            dev.enable();
            edge_broker.tx_event.send(Event::Online).unwrap();
            barrier().await;
            let mut inner = Inner {
                node,
                dev,
                edge_broker,
                ntoks,
                dtoks,
                nextra,
                dextra,
                app_broker,
                happ_broker,
                rec,
                ael,
                ael_broker,
                _keep: vec![],
                clock: 1000,
                host_counter: 0,
                edge_seq: 0,
                synced: false,
                birth_fails: None,
            };
            // first births
            let msgs = inner.drain_edge();
            for (topic, payload) in &msgs {
                let bytes: Vec<u8> = payload.clone().into();
                Inner::deliver(&inner.app_broker, topic, &bytes);
            }
            barrier().await;
            let first = inner.take_rec();
            inner.birth_fails = Some(check_birth_metrics(&first));
            inner.edge_seq = msgs.iter().filter_map(|(_, p)| p.seq).max().unwrap_or(0);
            inner.synced = msgs.len() == 2;
            inner
        });
        World { rt, inner }
    }

    pub fn token_ids(&self, who: &str) -> Vec<(String, &'static str)> {
        let t = if who == "n" { self.inner.ntoks.lock().unwrap() } else { self.inner.dtoks.lock().unwrap() };
        t.iter().map(|(k, v)| (k.clone(), v.kind())).collect()
    }

    fn with_pm<R>(&self, p: &Pm, f: impl FnOnce(Result<PublishMetric, String>) -> R) -> R {
        let key = show_id(&p.id);
        let nt = self.inner.ntoks.lock().unwrap();
        if nt.contains_key(&key) {
            return f(pm_to_srad(&nt, p));
        }
        let dt = self.inner.dtoks.lock().unwrap();
        f(pm_to_srad(&dt, p))
    }

    /// `Metric::from(PublishMetric)` with the clock at `now`
    pub fn edge(&mut self, now: u64, p: &Pm) -> Result<Qm, String> {
        set_mock_timestamp(Some(now));
        let r = self.with_pm(p, |pm| pm.map(|pm| catch(std::panic::AssertUnwindSafe(move || payload::Metric::from(pm)))));
        set_mock_timestamp(Some(self.inner.clock));
        match r? {
            Ok(m) => Ok(qm_from_srad(&m)),
            Err(_) => Err("panic".into()),
        }
    }

    /// a payload (possibly malformed) to a fresh node of the host with resequencing off:
    /// NBIRTH (+ DBIRTH) at timestamp 1 first, then the message under test
    pub fn host(&mut self, verb: &str, seq: Option<u64>, ts: Option<u64>, metrics: &[Qm]) -> (Class, Vec<RecCall>, bool) {
        let inner = &mut self.inner;
        inner.host_counter += 1;
        let nodeid = format!("h{}", inner.host_counter);
        let payload = Payload {
            timestamp: ts,
            seq,
            metrics: metrics.iter().map(qm_to_srad).collect(),
            uuid: None,
            body: None,
        };
        let bytes = payload.encode_to_vec();
        // compared as bytes (NaN != NaN under PartialEq)
        let wire_ok = Payload::decode(bytes.as_slice()).map(|p| p.encode_to_vec() == bytes).unwrap_or(false);
        self.rt.block_on(async {
            let birth = |seq: u64, with_bdseq: bool| {
                let mut ms = vec![];
                if with_bdseq {
                    let mut m = payload::Metric::new();
                    m.set_name("bdSeq".into()).set_datatype(DataType::Int64).set_timestamp(1);
                    m.set_value(metric::Value::LongValue(0));
                    ms.push(m);
                }
                Payload { timestamp: Some(1), seq: Some(seq), metrics: ms, uuid: None, body: None }.encode_to_vec()
            };
            let (topic, is_dev) = match verb {
                "ND" => (format!("spBv1.0/{}/NDATA/{}", GROUP, nodeid), false),
                "DD" => (format!("spBv1.0/{}/DDATA/{}/{}", GROUP, nodeid, DEV), true),
                "NB" => (format!("spBv1.0/{}/NBIRTH/{}", GROUP, nodeid), false),
                "DB" => (format!("spBv1.0/{}/DBIRTH/{}/{}", GROUP, nodeid, DEV), true),
                _ => panic!("bad verb"),
            };
            if verb != "NB" {
                Inner::deliver(&inner.happ_broker, &format!("spBv1.0/{}/NBIRTH/{}", GROUP, nodeid), &birth(0, true));
            }
            if verb == "DD" {
                Inner::deliver(&inner.happ_broker, &format!("spBv1.0/{}/DBIRTH/{}/{}", GROUP, nodeid, DEV), &birth(1, false));
            }
            barrier().await;
            inner.take_rec();
            let class = inner.classify(&topic, &bytes).await;
            Inner::deliver(&inner.happ_broker, &topic, &bytes);
            barrier().await;
            let want = if is_dev { format!("{}/{}/{}", GROUP, nodeid, DEV) } else { format!("{}/{}", GROUP, nodeid) };
            let rec: Vec<RecCall> = inner.take_rec().into_iter().filter(|r| r.tag == want).collect();
            (class, rec, wire_ok)
        })
    }

    /// publish through the real handle; returns (publish result class, messages handed to the
    /// client as (topic, payload), host event class per message, store calls, wire round trip ok)
    pub fn e2e(&mut self, who: &str, variant: &str, now: u64, pms: &[Pm]) -> Result<E2e, String> {
        let inner = &mut self.inner;
        let built: Result<Vec<PublishMetric>, String> = {
            set_mock_timestamp(Some(now));
            let t = if who == "n" { inner.ntoks.lock().unwrap() } else { inner.dtoks.lock().unwrap() };
            pms.iter().map(|p| pm_to_srad(&t, p)).collect()
        };
        let built = match built {
            Ok(b) => b,
            Err(e) => {
                set_mock_timestamp(Some(inner.clock));
                return Err(e);
            }
        };
        let r = self.rt.block_on(async {
            let mut built = built;
            let res = macro_publish(who, variant, &inner.node, &inner.dev, &mut built).await;
            barrier().await;
            let msgs = inner.drain_edge();
            let mut classes = vec![];
            let mut wire_ok = true;
            for (topic, payload) in &msgs {
                let bytes: Vec<u8> = payload.clone().into();
                wire_ok &= Payload::decode(bytes.as_slice()).map(|p| p.encode_to_vec() == bytes).unwrap_or(false);
                classes.push(inner.classify(topic, &bytes).await);
                Inner::deliver(&inner.app_broker, topic, &bytes);
            }
            barrier().await;
            let rec = inner.take_rec();
            E2e { result: res, msgs, classes, rec, wire_ok }
        });
        set_mock_timestamp(Some(inner.clock));
        Ok(r)
    }

    /// a rebirth in which the node's (`who` = n) or the device's (d) manager registers, besides its usual
    /// metrics, one birth metric `bp<i>` per given property set (`BirthMetricDetails::with_properties`);
    /// NBIRTH and DBIRTH go over the wire to the e2e host. The edge node is out of step with the host afterwards.
    pub fn bprops(&mut self, who: &str, sets: &[Ups]) -> Result<E2e, String> {
        for u in sets {
            ups_to_srad(u)?;
        }
        let inner = &mut self.inner;
        inner.tick();
        *inner.nextra.lock().unwrap() = if who == "n" { sets.to_vec() } else { vec![] };
        *inner.dextra.lock().unwrap() = if who == "d" { sets.to_vec() } else { vec![] };
        let r = self.rt.block_on(async {
            inner.node.rebirth();
            barrier().await;
            let msgs = inner.drain_edge();
            let mut classes = vec![];
            let mut wire_ok = true;
            for (topic, payload) in &msgs {
                let bytes: Vec<u8> = payload.clone().into();
                wire_ok &= Payload::decode(bytes.as_slice()).map(|p| p.encode_to_vec() == bytes).unwrap_or(false);
                classes.push(inner.classify(topic, &bytes).await);
                Inner::deliver(&inner.app_broker, topic, &bytes);
            }
            barrier().await;
            let rec = inner.take_rec();
            E2e { result: "ok", msgs, classes, rec, wire_ok }
        });
        inner.nextra.lock().unwrap().clear();
        inner.dextra.lock().unwrap().clear();
        inner.synced = false;
        Ok(r)
    }

    pub fn resync(&mut self) {
        let inner = &mut self.inner;
        self.rt.block_on(inner.resync());
    }
    pub fn edge_seq(&self) -> u64 {
        self.inner.edge_seq
    }
    pub fn set_edge_seq(&mut self, s: u64) {
        self.inner.edge_seq = s;
    }
    pub fn clock(&self) -> u64 {
        self.inner.clock
    }
    pub fn tick(&mut self) -> u64 {
        self.inner.tick()
    }
}

pub struct E2e {
    pub result: &'static str,
    pub msgs: Vec<(String, Payload)>,
    pub classes: Vec<Class>,
    pub rec: Vec<RecCall>,
    pub wire_ok: bool,
}

async fn macro_publish(
    who: &str,
    variant: &str,
    node: &NodeHandle,
    dev: &DeviceHandle,
    built: &mut Vec<PublishMetric>,
) -> &'static str {
    async fn go<P: MetricPublisher>(p: &P, variant: &str, mut v: Vec<PublishMetric>) -> &'static str {
        let r = match variant {
            "pm" => {
                if v.len() != 1 {
                    return "bad";
                }
                p.publish_metric(v.pop().unwrap()).await
            }
            "tpm" => {
                if v.len() != 1 {
                    return "bad";
                }
                p.try_publish_metric(v.pop().unwrap()).await
            }
            "pmu" => p.publish_metrics_unsorted(v).await,
            "tpmu" => p.try_publish_metrics_unsorted(v).await,
            "pms" => p.publish_metrics(v).await,
            "tpms" => p.try_publish_metrics(v).await,
            _ => return "bad",
        };
        match r {
            Ok(()) => "ok",
            Err(srad_eon::PublishError::NoMetrics) => "nometrics",
            Err(srad_eon::PublishError::State(_)) => "state",
        }
    }
    let v = std::mem::take(built);
    if who == "n" {
        go(node, variant, v).await
    } else {
        go(dev, variant, v).await
    }
}

// =====================================================================================
// independent specification used by the oracles (written without srad's conversions)
// =====================================================================================
fn spec_encode_ups(u: &Ups) -> PSetT {
    let mut s = PSetT::default();
    for (k, dt, v) in &u.0 {
        s.keys.push(k.clone());
        s.vals.push(match v {
            UVal::Null => Ppv { ty: *dt, nu: Some(true), v: None },
            UVal::Sc(p) => Ppv { ty: *dt, nu: None, v: Some(p.clone()) },
            UVal::Set(i) => Ppv { ty: *dt, nu: None, v: Some(PVal::Set(spec_encode_ups(i))) },
            UVal::Sets(l) => Ppv { ty: *dt, nu: None, v: Some(PVal::Sets(l.iter().map(spec_encode_ups).collect())) },
        });
    }
    s
}
fn spec_meta(m: &EMeta) -> PMeta {
    PMeta {
        mp: None,
        ct: m.ct.clone(),
        size: m.size,
        seq: None,
        fname: m.fname.clone(),
        ftype: m.ftype.clone(),
        md5: m.md5.clone(),
        desc: m.desc.clone(),
    }
}
/// what the store must receive for a published metric
fn spec_entry(p: &Pm, now: u64) -> He {
    He {
        id: p.id.clone(),
        birth: None,
        val: p.val.clone(),
        ts: p.ts.unwrap_or(now),
        hi: p.hi.unwrap_or(false),
        tr: p.tr.unwrap_or(false),
        meta: p.meta.as_ref().map(spec_meta),
        props: p.props.as_ref().map(spec_encode_ups),
    }
}
/// stable sort by timestamp, written by hand (insertion: after the last element not greater)
fn spec_stable_sort(pms: &[Pm], now: u64) -> Vec<Pm> {
    let mut out: Vec<Pm> = vec![];
    for p in pms {
        let t = p.ts.unwrap_or(now);
        let mut i = out.len();
        while i > 0 && out[i - 1].ts.unwrap_or(now) > t {
            i -= 1;
        }
        out.insert(i, p.clone());
    }
    out
}
/// is the payload property set one the host must refuse (top level only: the host converts
/// one level; nested sets stay in payload form until the user converts them)
fn spec_pset_malformed(s: &PSetT) -> bool {
    if s.keys.len() != s.vals.len() {
        return true;
    }
    s.vals.iter().any(|p| (p.v.is_none() && p.nu != Some(true)) || p.ty.map(|t| t > 34).unwrap_or(false))
}
/// the map a well-formed payload property set denotes (later duplicates win), as sorted text
fn spec_pset_map(s: &PSetT) -> String {
    let mut m: BTreeMap<Vec<u8>, Ppv> = BTreeMap::new();
    for (k, v) in s.keys.iter().zip(s.vals.iter()) {
        // what the host keeps: datatype, null or the value (is_null is ignored when a value is present)
        let kept = Ppv { ty: v.ty, nu: if v.v.is_none() { Some(true) } else { None }, v: v.v.clone() };
        m.insert(k.as_bytes().to_vec(), kept);
    }
    let t = PSetT {
        keys: m.keys().map(|k| String::from_utf8(k.clone()).unwrap()).collect(),
        vals: m.values().cloned().collect(),
    };
    show_pset(&t, true)
}

/// name of a datatype code in the specification's table (written out here, independent of srad)
fn spec_dt_name(code: Option<u32>) -> String {
    const NAMES: [&str; 22] = [
        "Unknown", "Int8", "Int16", "Int32", "Int64", "UInt8", "UInt16", "UInt32", "UInt64", "Float", "Double", "Boolean", "String",
        "DateTime", "Text", "UUID", "DataSet", "Bytes", "File", "Template", "PropertySet", "PropertySetList",
    ];
    match code {
        None => "untyped".into(),
        Some(c) if (c as usize) < NAMES.len() => NAMES[c as usize].into(),
        Some(c) => format!("code{}", c),
    }
}
/// nesting depth of a payload property set (a set that holds no set has depth 1)
pub fn pset_depth(s: &PSetT) -> u32 {
    1 + s
        .vals
        .iter()
        .map(|p| match &p.v {
            Some(PVal::Set(i)) => pset_depth(i),
            Some(PVal::Sets(l)) => l.iter().map(pset_depth).max().unwrap_or(0),
            _ => 0,
        })
        .max()
        .unwrap_or(0)
}
pub fn ups_depth(u: &Ups) -> u32 {
    pset_depth(&spec_encode_ups(u))
}
/// Shrinks a refused property set to the discriminating trait of the input: WHICH published property does
/// the host refuse? The host converts a metric's property set with the public
/// `PropertySet::try_from(payload::PropertySet)`; every entry is tried on its own (with its key, as the only
/// entry of a set), and inside a refused nested value every inner entry on its own, down to a smallest refused
/// one, which is described by the specification's name of its datatype, `:null`, and the nesting depth of the
/// one-entry set for set-valued entries. `None`: the set is accepted; `whole-set`: only the combination is refused.
pub fn refused_property(s: &PSetT) -> Option<String> {
    fn refused(s: &PSetT) -> bool {
        let p = pset_to_srad(s);
        !matches!(catch(std::panic::AssertUnwindSafe(move || PropertySet::try_from(p).is_ok())), Ok(true))
    }
    fn go(s: &PSetT) -> Option<String> {
        for (k, v) in s.keys.iter().zip(s.vals.iter()) {
            let one = PSetT { keys: vec![k.clone()], vals: vec![v.clone()] };
            if !refused(&one) {
                continue;
            }
            let inner: Vec<&PSetT> = match &v.v {
                Some(PVal::Set(i)) => vec![i],
                Some(PVal::Sets(l)) => l.iter().collect(),
                _ => vec![],
            };
            for i in &inner {
                if let Some(f) = go(i) {
                    return Some(f);
                }
            }
            let mut d = spec_dt_name(v.ty);
            if v.v.is_none() {
                d.push_str(":null");
            }
            if !inner.is_empty() {
                d.push_str(&format!(":nesting-depth-{}", pset_depth(&one)));
            }
            return Some(d);
        }
        None
    }
    if !refused(s) {
        return None;
    }
    Some(go(s).unwrap_or_else(|| "whole-set".into()))
}
/// feature of a message the host refused with `InvalidProperties`: the refused property of the first metric that has one
fn refused_feature(p: &Payload) -> Option<String> {
    p.metrics
        .iter()
        .filter_map(|m| m.properties.as_ref())
        .find_map(|ps| refused_property(&pset_from_srad(ps)))
        .map(|f| format!("host-refuses-property:{}", f))
}

fn pm_feature(w: &World, p: &Pm) -> String {
    if p.val.is_none() {
        return "null-value".into();
    }
    let key = show_id(&p.id);
    for who in ["n", "d"] {
        if let Some((_, k)) = w.token_ids(who).into_iter().find(|(i, _)| *i == key) {
            return k.to_string();
        }
    }
    "?".into()
}

/// the trait of the published metric that discriminates a failure of the given field
fn field_feature(w: &World, p: &Pm, field: &str) -> String {
    let ob = |o: Option<bool>| match o {
        None => "absent",
        Some(true) => "true",
        Some(false) => "false",
    };
    fn nested(u: &Ups) -> bool {
        u.0.iter().any(|(_, _, v)| matches!(v, UVal::Set(_) | UVal::Sets(_)))
    }
    match field {
        "identifier" => match p.id {
            Id::Name(_) => "by-name".into(),
            Id::Alias(_) => "by-alias".into(),
        },
        "timestamp" => if p.ts.is_some() { "custom-timestamp".into() } else { "default-timestamp".into() },
        "historical" => format!("historical-{}", ob(p.hi)),
        "transient" => format!("transient-{}", ob(p.tr)),
        "flags" => format!("transient-{}-historical-{}", ob(p.tr), ob(p.hi)),
        "metadata" => match &p.meta {
            None => "metadata-absent".into(),
            Some(m) => match &m.md5 {
                Some(d) => format!("metadata-given-{}", md5_shape(d)),
                None => "metadata-given-md5-absent".into(),
            },
        },
        "properties" => match &p.props {
            None => "properties-absent".into(),
            Some(u) if nested(u) => "properties-nested".into(),
            Some(_) => "properties-flat".into(),
        },
        _ => pm_feature(w, p),
    }
}

// =====================================================================================
// executing one op
// =====================================================================================
thread_local! {
    static WORLD: std::cell::RefCell<Option<World>> = const { std::cell::RefCell::new(None) };
}
fn with_world<R>(f: impl FnOnce(&mut World) -> R) -> R {
    WORLD.with(|c| {
        let mut b = c.borrow_mut();
        if b.is_none() {
            *b = Some(World::new());
        }
        f(b.as_mut().unwrap())
    })
}
fn reset_world() {
    WORLD.with(|c| {
        // a world whose runtime saw a panic is leaked, not dropped (dropping may panic again)
        if let Some(w) = c.borrow_mut().take() {
            std::mem::forget(w);
        }
    });
}

fn host_answer(class: &Class, rec: &[RecCall]) -> String {
    match class {
        Class::Err(c) => format!("err {}", c),
        Class::Other(s) => format!("other {}", s),
        Class::Data { seq, ts } => {
            let datas: Vec<&Vec<He>> = rec
                .iter()
                .filter_map(|r| if let RecKind::Data(v) = &r.kind { Some(v) } else { None })
                .collect();
            if rec.is_empty() {
                format!("data {} {} dropped", seq, ts)
            } else if rec.len() == 1 && datas.len() == 1 {
                format!("data {} {} {}", seq, ts, show_list("L", datas[0].iter().map(show_he).collect()))
            } else {
                format!("data {} {} calls={}", seq, ts, rec.len())
            }
        }
        Class::Birth { ts } => {
            let births: Vec<&Vec<He>> = rec
                .iter()
                .filter_map(|r| if let RecKind::Birth(v) = &r.kind { Some(v) } else { None })
                .collect();
            if rec.is_empty() {
                format!("birth {} dropped", ts)
            } else if rec.len() == 1 && births.len() == 1 {
                format!("birth {} {}", ts, show_list("L", births[0].iter().map(show_he).collect()))
            } else {
                format!("birth {} calls={}", ts, rec.len())
            }
        }
    }
}

fn p_opt_num(s: &str) -> Option<u64> {
    if s == "_" {
        None
    } else {
        Some(s.parse().expect("number"))
    }
}

/// bring the edge node to `prevseq` as the last sequence number used
fn ensure_seq(w: &mut World, prevseq: u64) {
    if !w.inner.synced {
        w.resync();
    }
    if w.edge_seq() == prevseq {
        return;
    }
    if prevseq < 1 || prevseq > 255 || w.edge_seq() > prevseq {
        w.resync();
    }
    // dummy publishes (a boolean by name) until the counter is there
    let id = w.token_ids("n").into_iter().find(|(_, k)| *k == "bool").map(|(i, _)| i).unwrap();
    let pm = Pm { id: p_id(&parse_tree(&id).unwrap()).unwrap(), val: Some(Val::B(true)), tr: None, hi: None, ts: None, meta: None, props: None };
    let mut guard = 0;
    while w.edge_seq() != prevseq && guard < 600 {
        let now = w.tick();
        if let Ok(r) = w.e2e("n", "pm", now, &[pm.clone()]) {
            if let Some((_, p)) = r.msgs.first() {
                w.set_edge_seq(p.seq.unwrap_or(0));
            }
        }
        guard += 1;
    }
}

fn exec_in(w: &mut World, op: &str, out: &mut Out) -> String {
    if w.inner.birth_fails.is_some() {
        // `PropertySet::new()` / `default()` are `new_with_quality(Quality::Good)`
        let show = |ps: PropertySet| {
            let pp: payload::PropertySet = ps.into();
            show_pset(&pset_from_srad(&pp), true)
        };
        let want = show(PropertySet::new_with_quality(Quality::Good));
        if show(PropertySet::new()) != want || show(PropertySet::default()) != want {
            out.fail("C12:props-same-map", "default-property-set", format!("PropertySet::new() = {}, default() = {}, new_with_quality(Good) = {}", show(PropertySet::new()), show(PropertySet::default()), want));
        }
    }
    if let Some(fails) = w.inner.birth_fails.take() {
        for f in fails {
            out.fail("C12:birth-metric-delivered", "metadata-properties-timestamp", f);
        }
        out.count("world:birth-metrics-checked");
    }
    let t: Vec<&str> = op.split(' ').collect();
    match t.as_slice() {
        ["metric", "new"] => "ok".into(),
        ["metric", "edge", now, pm] => {
            let now: u64 = now.parse().unwrap();
            let p = p_pm(&parse_tree(pm).expect("term")).expect("publish metric");
            match w.edge(now, &p) {
                Err(e) if e == "panic" => {
                    out.fail("C12:edge-no-panic", &pm_feature(w, &p), format!("{} panicked", op));
                    "panic".into()
                }
                Err(e) => panic!("bad op {}: {}", op, e),
                Ok(q) => {
                    // fields the property fixes at this stage (null marking is judged end to end)
                    let want = spec_entry(&p, now);
                    let f = pm_feature(w, &p);
                    let idok = match &p.id {
                        Id::Name(n) => q.name.as_ref() == Some(n) && q.alias.is_none(),
                        Id::Alias(a) => q.alias == Some(*a) && q.name.is_none(),
                    };
                    if !idok {
                        out.fail("C12:edge-identifier", &field_feature(w, &p, "identifier"), format!("{} -> {}", op, show_qm(&q, true)));
                    }
                    if q.val != p.val {
                        out.fail("C12:edge-value", &f, format!("{} -> {}", op, show_qm(&q, true)));
                    }
                    if q.ts != Some(want.ts) {
                        out.fail("C12:edge-timestamp", &field_feature(w, &p, "timestamp"), format!("{} -> {}", op, show_qm(&q, true)));
                    }
                    if q.hi.unwrap_or(false) != want.hi || q.tr.unwrap_or(false) != want.tr {
                        out.fail("C12:edge-flags", &field_feature(w, &p, "flags"), format!("{} -> {}", op, show_qm(&q, true)));
                    }
                    if q.meta != want.meta {
                        out.fail("C12:edge-metadata", &field_feature(w, &p, "metadata"), format!("{} -> {}", op, show_qm(&q, true)));
                    }
                    let a = q.props.as_ref().map(|s| show_pset(s, true));
                    let b = want.props.as_ref().map(|s| show_pset(s, true));
                    if a != b {
                        out.fail("C12:edge-properties", &field_feature(w, &p, "properties"), format!("{} -> {}", op, show_qm(&q, true)));
                    }
                    show_qm(&q, true)
                }
            }
        }
        ["metric", "host", verb, seq, ts, l] => {
            let qs = p_list(l, p_qm).expect("metric list");
            let (class, rec, wire_ok) = w.host(verb, p_opt_num(seq), p_opt_num(ts), &qs);
            if !wire_ok {
                out.fail("C12:wire-roundtrip", "prost", format!("{}: decode(encode(p)) != p", op));
            }
            host_answer(&class, &rec)
        }
        ["metric", "pset", ps] => {
            let s = p_pset(&parse_tree(ps).expect("term")).expect("property set");
            let q = Qm { name: Some("p".into()), ts: Some(1), val: Some(Val::I(0)), props: Some(s.clone()), ..Default::default() };
            let (class, rec, _) = w.host("ND", Some(1), Some(1), &[q]);
            let ans = match (&class, rec.first().map(|r| &r.kind)) {
                (Class::Err("props"), _) => "err".to_string(),
                (Class::Data { .. }, Some(RecKind::Data(v))) if v.len() == 1 => match &v[0].props {
                    Some(p) => format!("ok {}", show_pset(p, true)),
                    None => "ok _".into(),
                },
                _ => format!("unexpected {}", host_answer(&class, &rec)),
            };
            // C19 clause: malformed sets are refused with an error, well-formed ones denote their map
            let bad = spec_pset_malformed(&s);
            if bad && ans != "err" {
                out.fail("C19:propset-malformed-refused", "propset", format!("{} -> {}", op, ans));
            }
            if !bad && ans != format!("ok {}", spec_pset_map(&s)) {
                out.fail("C19:propset-wellformed-map", "propset", format!("{} -> {} want {}", op, ans, spec_pset_map(&s)));
            }
            ans
        }
        ["metric", "pdesc", pv] => {
            let v = p_pval(&parse_tree(pv).expect("term")).expect("property value").expect("a value, not null");
            let raw = pval_to_srad(&v);
            let as_set = catch(std::panic::AssertUnwindSafe(|| PropertySet::try_from(PropertyValue::new(raw.clone()))));
            let as_sets = catch(std::panic::AssertUnwindSafe(|| Vec::<PropertySet>::try_from(PropertyValue::new(raw.clone()))));
            let a = match &as_set {
                Err(_) => "panic".to_string(),
                Ok(Err(())) => "err".to_string(),
                Ok(Ok(_)) => String::new(),
            };
            let a = if let Ok(Ok(ps)) = as_set {
                let pp: payload::PropertySet = ps.into();
                format!("ok {}", show_pset(&pset_from_srad(&pp), true))
            } else {
                a
            };
            let b = match as_sets {
                Err(_) => "panic".to_string(),
                Ok(Err(())) => "err".to_string(),
                Ok(Ok(l)) => format!(
                    "ok {}",
                    node("pl", l.into_iter().map(|ps| { let pp: payload::PropertySet = ps.into(); show_pset(&pset_from_srad(&pp), true) }).collect())
                ),
            };
            // C19: untyped / mismatched nested sets are refused with an error, never a panic; a value of the
            // other shape is refused; a well-formed nested set denotes its map
            if a == "panic" || b == "panic" {
                out.fail("C19:propset-malformed-refused", "nested-descend-panic", format!("{} -> set:{} sets:{}", op, a, b));
            }
            match &v {
                PVal::Set(s0) => {
                    let bad = spec_pset_malformed(s0);
                    if bad != (a == "err") || b != "err" {
                        out.fail("C19:propset-malformed-refused", "nested-set", format!("{} -> set:{} sets:{}", op, a, b));
                    }
                    if !bad && a != format!("ok {}", spec_pset_map(s0)) {
                        out.fail("C19:propset-wellformed-map", "nested-set", format!("{} -> {} want {}", op, a, spec_pset_map(s0)));
                    }
                }
                PVal::Sets(l0) => {
                    let bad = l0.iter().any(spec_pset_malformed);
                    if bad != (b == "err") || a != "err" {
                        out.fail("C19:propset-malformed-refused", "nested-set-list", format!("{} -> set:{} sets:{}", op, a, b));
                    }
                }
                _ => {
                    if a != "err" || b != "err" {
                        out.fail("C19:propset-malformed-refused", "scalar-as-set", format!("{} -> set:{} sets:{}", op, a, b));
                    }
                }
            }
            format!("set:{} sets:{}", a, b)
        }
        ["metric", "bprops", who, l] => {
            // C12 for the properties of BIRTH metrics: `BirthMetricDetails::with_properties` on the node's / the
            // device's manager -> real NBIRTH / DBIRTH -> wire -> host -> `update_from_birth` of the store
            let sets = p_list(l, p_ups).expect("property set list");
            let r = match w.bprops(who, &sets) {
                Ok(r) => r,
                Err(e) => panic!("bad op {}: {}", op, e),
            };
            if !r.wire_ok {
                out.fail("C12:wire-roundtrip", "prost", format!("{}: decode(encode(p)) != p", op));
            }
            let (want_topic, want_tag) = if *who == "n" {
                (format!("spBv1.0/{}/NBIRTH/{}", GROUP, EDGE), format!("{}/{}", GROUP, EDGE))
            } else {
                (format!("spBv1.0/{}/DBIRTH/{}/{}", GROUP, EDGE, DEV), format!("{}/{}/{}", GROUP, EDGE, DEV))
            };
            let idx = r.msgs.iter().position(|(t, _)| *t == want_topic);
            let got: Option<&Vec<He>> = r.rec.iter().filter(|c| c.tag == want_tag).find_map(|c| if let RecKind::Birth(v) = &c.kind { Some(v) } else { None });
            let depth = sets.iter().map(ups_depth).max().unwrap_or(0);
            let shape = if depth > 1 { "properties-nested" } else { "properties-flat" };
            match (idx, got) {
                (None, _) => {
                    out.fail("C12:birth-metric-delivered", "no-birth-handed-over", format!("{}: the rebirth handed over {:?}", op, r.msgs.iter().map(|m| m.0.clone()).collect::<Vec<_>>()));
                    "undelivered".into()
                }
                (Some(i), None) => {
                    let feat = match &r.classes[i] {
                        Class::Err("props") => refused_feature(&r.msgs[i].1).unwrap_or(shape.to_string()),
                        _ => shape.to_string(),
                    };
                    out.fail(
                        "C12:birth-metric-delivered",
                        &feat,
                        format!("{}: the host answered `{}` to the {} and its store received no update_from_birth ({} store call(s) in all)", op, host_answer(&r.classes[i], &[]), want_topic, r.rec.len()),
                    );
                    "undelivered".into()
                }
                (Some(_), Some(entries)) => {
                    let mut shown = vec![];
                    for (i, u) in sets.iter().enumerate() {
                        let name = format!("bp{}", i);
                        let want = show_pset(&spec_encode_ups(u), true);
                        match entries.iter().find(|h| h.birth.as_ref().map(|b| b.0.as_str()) == Some(name.as_str())) {
                            None => {
                                out.fail("C12:birth-metric-delivered", shape, format!("{}: birth metric `{}` is not among the {} metrics the store received", op, name, entries.len()));
                                shown.push("missing".to_string());
                            }
                            Some(h) => {
                                let b = h.birth.as_ref().unwrap();
                                if b.1.is_some() != (i % 2 == 1) || b.2 != DataType::Int32 as u32 || h.val != Some(Val::I(i as u32)) || h.ts != BP_TS + i as u64 || h.hi || h.tr {
                                    out.fail("C12:birth-field-value", shape, format!("{}: `{}` arrived as {}", op, name, show_he(h)));
                                }
                                let gotp = h.props.as_ref().map(|p| show_pset(p, true));
                                if gotp.as_deref() != Some(want.as_str()) {
                                    let f = if ups_depth(u) > 1 { "properties-nested" } else { "properties-flat" };
                                    out.fail("C12:birth-field-properties", f, format!("{}: property set (as a map) of `{}` differs: got {} expected {}", op, name, gotp.clone().unwrap_or("_".into()), want));
                                }
                                shown.push(gotp.unwrap_or("_".into()));
                            }
                        }
                    }
                    format!("ok {}", show_list("L", shown))
                }
            }
        }
        ["metric", "wbytes", who, variant, prevseq, now, l] => {
            // the BYTES the edge node's message is on the wire (prost `encode_to_vec` of the payload the
            // client was handed), against `encW (payloadOf ..)` of Model/MetricWire.lean: ties `toTree`, the
            // record -> wire-tree map the C12W theorems go through, byte for byte. Only for batches whose
            // property sets have at most one key (a hash map's order is not reproducible).
            let pms = p_list(l, p_pm).expect("publish metric list");
            let prevseq: u64 = prevseq.parse().unwrap();
            let now: u64 = now.parse().unwrap();
            ensure_seq(w, prevseq);
            let r = match w.e2e(who, variant, now, &pms) {
                Ok(r) => r,
                Err(e) => panic!("bad op {}: {}", op, e),
            };
            if let Some((_, p)) = r.msgs.last() {
                w.set_edge_seq(p.seq.unwrap_or(0));
            }
            match r.result {
                "ok" if r.msgs.len() == 1 => format!("ok {}", hex(&r.msgs[0].1.encode_to_vec())),
                "ok" => format!("ok msgs={}", r.msgs.len()),
                x => x.to_string(),
            }
        }
        ["metric", "e2e", who, variant, prevseq, now, l] => {
            let pms = p_list(l, p_pm).expect("publish metric list");
            let prevseq: u64 = prevseq.parse().unwrap();
            let now: u64 = now.parse().unwrap();
            ensure_seq(w, prevseq);
            let r = match w.e2e(who, variant, now, &pms) {
                Ok(r) => r,
                Err(e) => panic!("bad op {}: {}", op, e),
            };
            let feat = pms.iter().find(|p| p.val.is_none()).map(|_| "null-value".to_string()).unwrap_or_else(|| {
                if pms.len() == 1 { pm_feature(w, &pms[0]) } else { "batch".into() }
            });
            if !r.wire_ok {
                out.fail("C12:wire-roundtrip", "prost", format!("{}: decode(encode(p)) != p", op));
            }
            if let Some((_, p)) = r.msgs.last() {
                w.set_edge_seq(p.seq.unwrap_or(0));
            }
            let ans = match r.result {
                "ok" => {
                    if r.msgs.len() != 1 {
                        format!("ok msgs={}", r.msgs.len())
                    } else {
                        format!("ok {}", host_answer(&r.classes[0], &r.rec))
                    }
                }
                x => x.to_string(),
            };
            // ---- oracle: the property, stated over what the implementation did ----
            if pms.is_empty() {
                if r.result != "nometrics" || !r.msgs.is_empty() {
                    out.fail("C12:empty-batch-refused", "empty", format!("{} -> {}", op, ans));
                }
            } else if r.result == "ok" {
                let sorting = *variant == "pms" || *variant == "tpms";
                let expect_order: Vec<Pm> = if sorting { spec_stable_sort(&pms, now) } else { pms.clone() };
                let expect: Vec<He> = expect_order.iter().map(|p| spec_entry(p, now)).collect();
                let topic_ok = r.msgs.len() == 1 && {
                    let want = if *who == "n" { format!("spBv1.0/{}/NDATA/{}", GROUP, EDGE) } else { format!("spBv1.0/{}/DDATA/{}/{}", GROUP, EDGE, DEV) };
                    r.msgs[0].0 == want
                };
                let want_tag = if *who == "n" { format!("{}/{}", GROUP, EDGE) } else { format!("{}/{}/{}", GROUP, EDGE, DEV) };
                if !topic_ok {
                    out.fail("C12:one-message", &feat, format!("{}: {} messages handed to the client", op, r.msgs.len()));
                } else {
                    let want_seq = (prevseq + 1) % 256;
                    if r.msgs[0].1.seq != Some(want_seq) || r.msgs[0].1.timestamp != Some(now) {
                        out.fail("C12:payload-seq-timestamp", &feat, format!("{}: seq {:?} ts {:?}", op, r.msgs[0].1.seq, r.msgs[0].1.timestamp));
                    }
                    let got: Option<&Vec<He>> = if r.rec.len() == 1 && r.rec[0].tag == want_tag {
                        if let RecKind::Data(v) = &r.rec[0].kind { Some(v) } else { None }
                    } else {
                        None
                    };
                    match got {
                        None => {
                            // a message refused for its properties: name the refused property, not the metric's type
                            let feat = match &r.classes[0] {
                                Class::Err("props") => refused_feature(&r.msgs[0].1).unwrap_or(feat.clone()),
                                _ => feat.clone(),
                            };
                            out.fail(
                                "C12:delivered-to-store",
                                &feat,
                                format!("{}: host answered `{}`; the store received {} call(s), expected one update_from_data with {} metric(s)", op, host_answer(&r.classes[0], &r.rec), r.rec.len(), expect.len()),
                            );
                            w.inner.synced = false;
                        }
                        Some(got) => {
                            if got.len() != expect.len() {
                                out.fail("C12:batch-complete", &feat, format!("{}: {} of {} metrics arrived", op, got.len(), expect.len()));
                            } else {
                                let ids_got: Vec<String> = got.iter().map(|e| format!("{}@{}", show_id(&e.id), e.ts)).collect();
                                let ids_want: Vec<String> = expect.iter().map(|e| format!("{}@{}", show_id(&e.id), e.ts)).collect();
                                if ids_got != ids_want {
                                    let ties = {
                                        let mut t: Vec<u64> = pms.iter().map(|p| p.ts.unwrap_or(now)).collect();
                                        t.sort();
                                        t.windows(2).any(|w| w[0] == w[1])
                                    };
                                    out.fail(if sorting { "C12:order-sorted-stable" } else { "C12:order-as-published" }, if ties { "equal-timestamps" } else { "distinct-timestamps" }, format!("{}: arrived {:?} expected {:?}", op, ids_got, ids_want));
                                } else {
                                    for ((g, e), p) in got.iter().zip(expect.iter()).zip(expect_order.iter()) {
                                        let f = pm_feature(w, p);
                                        let d = |what: &str| format!("{}: {} of {} differs: got {} expected {}", op, what, show_id(&e.id), show_he(g), show_he(e));
                                        if g.id != e.id { out.fail("C12:field-identifier", &field_feature(w, p, "identifier"), d("identifier")); }
                                        if g.val != e.val { out.fail("C12:field-value", &f, d("value")); }
                                        if g.ts != e.ts { out.fail("C12:field-timestamp", &field_feature(w, p, "timestamp"), d("timestamp")); }
                                        if g.hi != e.hi { out.fail("C12:field-historical", &field_feature(w, p, "historical"), d("historical flag")); }
                                        if g.tr != e.tr { out.fail("C12:field-transient", &field_feature(w, p, "transient"), d("transient flag")); }
                                        if g.meta != e.meta { out.fail("C12:field-metadata", &field_feature(w, p, "metadata"), d("metadata")); }
                                        let a = g.props.as_ref().map(|s| show_pset(s, true));
                                        let b = e.props.as_ref().map(|s| show_pset(s, true));
                                        if a != b { out.fail("C12:field-properties", &field_feature(w, p, "properties"), d("property set (as a map)")); }
                                        if let Some(v) = &g.val {
                                            let key = show_id(&p.id);
                                            let t = if *who == "n" { w.inner.ntoks.lock().unwrap() } else { w.inner.dtoks.lock().unwrap() };
                                            if let Some(tok) = t.get(&key) {
                                                if !tok.decodes(v) {
                                                    drop(t);
                                                    out.fail("C12:field-value-typed", &f, d("value (does not decode as the metric's type)"));
                                                }
                                            }
                                        }
                                    }
                                }
                            }
                        }
                    }
                }
            } else {
                out.fail("C12:publish-accepted", &feat, format!("{}: publish returned {}", op, r.result));
                w.inner.synced = false;
            }
            ans
        }
        _ => panic!("bad op {}", op),
    }
}

/// Execute one op on the implementation (oracle clauses are evaluated here). A panic anywhere
/// in the implementation is the answer `panic`.
pub fn exec(op: &str, out: &mut Out) -> String {
    let _crumb = crate::common::crumb::guard(op);
    // `out` is only touched after the implementation returned, so a caught panic leaves it intact
    let r = {
        let out_ptr = std::panic::AssertUnwindSafe(&mut *out);
        catch(move || {
            let mut o = out_ptr;
            with_world(|w| exec_in(w, op, &mut o))
        })
    };
    match r {
        Ok(a) => a,
        Err(msg) => {
            if msg.starts_with("bad op") || msg.starts_with("bad verb") || msg == "term" || msg.ends_with("list") {
                panic!("{}", msg);
            }
            reset_world();
            out.fail("C19:no-panic", "metric", format!("{} panicked: {}", op, msg));
            "panic".into()
        }
    }
}

fn line(out: &mut Out, op: &str) -> String {
    let a = exec(op, out);
    out.line(op, &a);
    a
}

pub fn replay(_desc: &str, lines: &[String], out: &mut Out) {
    let mut first = true;
    for l in lines {
        let a = exec(l, out);
        if first {
            out.begin_case(l, &a);
            first = false;
        } else {
            out.line(l, &a);
        }
    }
    out.nontrivial();
}

// =====================================================================================
// generators
// =====================================================================================
fn rnd_bits(rng: &mut Rng) -> u64 {
    if rng.chance(1, 3) {
        *rng.pick(&[0u64, 1, 0x7F, 0x80, 0xFF, 0x100, 0x7FFF, 0x8000, 0xFFFF, 0x10000, 0x7FFF_FFFF, 0x8000_0000,
            0xFFFF_FFFF, 0x1_0000_0000, 0x7FFF_FFFF_FFFF_FFFF, 0x8000_0000_0000_0000, u64::MAX, 0x7FC0_0000,
            0x7FF8_0000_0000_0001, 0xFF80_0000])
    } else {
        rng.next()
    }
}
fn rnd_str(rng: &mut Rng, nul: bool) -> String {
    crate::c10::random_string(rng, nul)
}
fn rnd_vec<T>(rng: &mut Rng, f: impl Fn(&mut Rng) -> T) -> Vec<T> {
    let n = if rng.chance(1, 6) { 0 } else { rng.below(12) };
    (0..n).map(|_| f(rng)).collect()
}

fn random_raw(rng: &mut Rng) -> metric::Value {
    match rng.below(8) {
        0 => metric::Value::DatasetValue(payload::DataSet {
            num_of_columns: Some(rng.below(3)),
            columns: (0..rng.below(3)).map(|_| rnd_str(rng, false)).collect(),
            types: (0..rng.below(3)).map(|_| rng.below(35) as u32).collect(),
            rows: (0..rng.below(3))
                .map(|_| payload::data_set::Row {
                    elements: (0..rng.below(3))
                        .map(|_| payload::data_set::DataSetValue {
                            value: Some(payload::data_set::data_set_value::Value::IntValue(rng.next() as u32)),
                        })
                        .collect(),
                })
                .collect(),
        }),
        1 => metric::Value::TemplateValue(payload::Template {
            version: if rng.chance(1, 2) { Some(rnd_str(rng, false)) } else { None },
            metrics: (0..rng.below(3))
                .map(|_| {
                    let mut m = payload::Metric::new();
                    m.set_name(rnd_str(rng, false)).set_value(metric::Value::LongValue(rng.next()));
                    m
                })
                .collect(),
            parameters: vec![],
            template_ref: if rng.chance(1, 2) { Some("t".into()) } else { None },
            is_definition: *rng.pick(&[None, Some(true), Some(false)]),
        }),
        2 => metric::Value::ExtensionValue(Default::default()),
        3 => metric::Value::BytesValue((0..rng.below(9)).map(|_| rng.next() as u8).collect()),
        4 => metric::Value::IntValue(rnd_bits(rng) as u32),
        5 => metric::Value::DoubleValue(f64::from_bits(rnd_bits(rng))),
        6 => metric::Value::StringValue(rnd_str(rng, true)),
        _ => metric::Value::BooleanValue(rng.chance(1, 2)),
    }
}

/// a random value of the token's Rust type, as the metric value srad's own conversion yields
fn random_val(kind: &str, rng: &mut Rng) -> Val {
    let mv: MetricValue = match kind {
        "bool" => rng.chance(1, 2).into(),
        "u8" => (rnd_bits(rng) as u8).into(),
        "u16" => (rnd_bits(rng) as u16).into(),
        "u32" => (rnd_bits(rng) as u32).into(),
        "u64" => rnd_bits(rng).into(),
        "i8" => (rnd_bits(rng) as i8).into(),
        "i16" => (rnd_bits(rng) as i16).into(),
        "i32" => (rnd_bits(rng) as i32).into(),
        "i64" => (rnd_bits(rng) as i64).into(),
        "f32" => f32::from_bits(rnd_bits(rng) as u32).into(),
        "f64" => f64::from_bits(rnd_bits(rng)).into(),
        "string" => rnd_str(rng, true).into(),
        "datetime" => DateTime::new(rnd_bits(rng)).into(),
        // arrays: the expected wire form is written out HERE from the Sparkplug rules (little-endian elements,
        // NUL-terminated strings, count + MSB-first bits for booleans), not taken from srad's encoder - the value
        // then passes through srad's decoder (token type), srad's encoder (publish) and the host, and must
        // arrive as these bytes
        "vbool" => {
            let v = rnd_vec(rng, |r| r.chance(1, 2));
            let mut o = (v.len() as u32).to_le_bytes().to_vec();
            for ch in v.chunks(8) {
                let mut b = 0u8;
                for (i, x) in ch.iter().enumerate() {
                    if *x {
                        b |= 0x80 >> i;
                    }
                }
                o.push(b);
            }
            return val_from_srad(&metric::Value::BytesValue(o));
        }
        "vu8" | "vi8" => return val_from_srad(&metric::Value::BytesValue(rnd_vec(rng, |r| r.next() as u8))),
        "vu16" | "vi16" => return val_from_srad(&metric::Value::BytesValue(rnd_vec(rng, |r| rnd_bits(r) as u16).iter().flat_map(|x| x.to_le_bytes()).collect())),
        "vu32" | "vi32" | "vf32" => return val_from_srad(&metric::Value::BytesValue(rnd_vec(rng, |r| rnd_bits(r) as u32).iter().flat_map(|x| x.to_le_bytes()).collect())),
        "vu64" | "vi64" | "vf64" | "vdatetime" => return val_from_srad(&metric::Value::BytesValue(rnd_vec(rng, rnd_bits).iter().flat_map(|x| x.to_le_bytes()).collect())),
        "vstring" => {
            let v = rnd_vec(rng, |r| rnd_str(r, false));
            let mut o = vec![];
            for x in &v {
                o.extend_from_slice(x.as_bytes());
                o.push(0);
            }
            return val_from_srad(&metric::Value::BytesValue(o));
        }
        "raw" => Raw(random_raw(rng)).into(),
        _ => panic!("kind"),
    };
    val_from_srad(&mv.0)
}

fn random_prop_scalar(dt: u32, rng: &mut Rng) -> PVal {
    let b = rnd_bits(rng);
    match dt {
        1 | 5 => PVal::I((b & 0xFF) as u32),
        2 | 6 => PVal::I((b & 0xFFFF) as u32),
        3 | 7 => PVal::I(b as u32),
        4 | 8 | 13 => PVal::L(b),
        9 => PVal::F(b as u32),
        10 => PVal::D(b),
        11 => PVal::B(b & 1 == 1),
        _ => PVal::S(rnd_str(rng, true)),
    }
}

fn random_ups(rng: &mut Rng, depth: u32, out: &mut Out) -> Ups {
    let n = rng.below(5);
    let mut v: Vec<(String, Option<u32>, UVal)> = vec![];
    let mut keys: Vec<String> = vec![];
    for _ in 0..n {
        let k = match rng.below(8) {
            0 => String::new(),
            1 => "quality".to_string(),
            2 => "Quality ".to_string(),
            _ => rnd_str(rng, true),
        };
        if k == "Quality" || keys.contains(&k) {
            continue;
        }
        keys.push(k.clone());
        let e = match rng.below(12) {
            0 if depth > 0 => {
                out.count("prop:nested-set");
                (k, Some(20), UVal::Set(random_ups(rng, depth - 1, out)))
            }
            1 if depth > 0 => {
                out.count("prop:set-list");
                let m = rng.below(4);
                (k, Some(21), UVal::Sets((0..m).map(|_| random_ups(rng, depth - 1, out)).collect()))
            }
            2 => {
                out.count("prop:null");
                (k, Some(*rng.pick(&[20u32, 21])), UVal::Null)
            }
            3 | 4 => {
                out.count("prop:null");
                (k, Some(rng.range(1, 15) as u32), UVal::Null)
            }
            _ => {
                out.count("prop:scalar");
                let dt = rng.range(1, 15) as u32;
                out.count(&format!("prop-datatype:{}", spec_dt_name(Some(dt))));
                (k, Some(dt), UVal::Sc(random_prop_scalar(dt, rng)))
            }
        };
        v.push(e);
    }
    let q = *rng.pick(&[0u32, 192, 500]);
    let pos = rng.below(v.len() as u64 + 1) as usize;
    v.insert(pos, ("Quality".to_string(), Some(3), UVal::Sc(PVal::I(q))));
    Ups(v)
}

/// deepest nesting of property sets the generators use (the metric's own set is level 1). A nested set costs two
/// protobuf message levels (PropertyValue, PropertySet), one inside a set list three; prost refuses a message
/// nested deeper than 100 levels (its recursion limit, C19), so the unchanged library accepts up to 48 levels of
/// sets nested directly and fewer through lists: `chain_ups` nests through a list at most every other level, and
/// the generators skip what would reach beyond `MAX_WIRE_LEVELS` message levels.
pub const MAX_NEST: u32 = 40;
/// how the levels of a chain are nested: directly, through one-element set lists on every other level, alternating
pub const CHAIN_SHAPES: [&str; 3] = ["set", "list", "mixed"];

/// a property set of nesting depth `depth` (>= 1): `leaf` at the bottom, above it one set per level that holds
/// its Quality and the next level under the key `n` (as a PropertySet or a one-element PropertySetList)
pub fn chain_ups(depth: u32, shape: &str, leaf: Ups) -> Ups {
    let mut cur = leaf;
    for level in 1..depth {
        let via_list = match shape {
            "set" => false,
            "list" => level % 2 == 0,
            _ => level % 4 == 0,
        };
        let q = ("Quality".to_string(), Some(3), UVal::Sc(PVal::I([0u32, 192, 500][(level % 3) as usize])));
        let n = if via_list { ("n".to_string(), Some(21), UVal::Sets(vec![cur])) } else { ("n".to_string(), Some(20), UVal::Set(cur)) };
        cur = Ups(if level % 2 == 0 { vec![q, n] } else { vec![n, q] });
    }
    cur
}

/// A property set that uses everything a property set can hold, for components that need "a metric with
/// properties" (closed loop `rule props`): profile 0 = flat: a value AND a null of every scalar property datatype
/// (Int8..UInt64, Float, Double, Boolean, String, DateTime, Text, UUID), null PropertySet / PropertySetList;
/// 1 = a nested set holding profile 0, a list of two such sets, an empty list; 2 = profile 0 at the bottom of
/// 12 levels of nested sets (every fourth through a list); 3 = all of it in one set. Built through the public
/// API (`PropertySet::new_with_quality`, `insert`).
pub fn rich_ups(profile: u32) -> Ups {
    let flat = || {
        let mut v: Vec<(String, Option<u32>, UVal)> = vec![("Quality".to_string(), Some(3), UVal::Sc(PVal::I(192)))];
        for dt in 1..=15u32 {
            let val = match dt {
                1 | 5 => PVal::I(0x7F),
                2 | 6 => PVal::I(0x7FFF),
                3 | 7 => PVal::I(0x7FFF_FFFF),
                4 | 8 => PVal::L(0x7FFF_FFFF_FFFF_FFFF),
                13 => PVal::L(1_700_000_000_000),
                9 => PVal::F(1.5f32.to_bits()),
                10 => PVal::D(2.5f64.to_bits()),
                11 => PVal::B(true),
                _ => PVal::S(format!("s{}", dt)),
            };
            v.push((format!("v{}", dt), Some(dt), UVal::Sc(val)));
            v.push((format!("n{}", dt), Some(dt), UVal::Null));
        }
        v.push(("n20".to_string(), Some(20), UVal::Null));
        v.push(("n21".to_string(), Some(21), UVal::Null));
        Ups(v)
    };
    let nested = || vec![
        ("set".to_string(), Some(20), UVal::Set(flat())),
        ("sets".to_string(), Some(21), UVal::Sets(vec![flat(), flat()])),
        ("nosets".to_string(), Some(21), UVal::Sets(vec![])),
    ];
    let deep = || ("deep".to_string(), Some(20), UVal::Set(chain_ups(11, "mixed", flat())));
    match profile {
        0 => flat(),
        1 => {
            let mut v = vec![("Quality".to_string(), Some(3), UVal::Sc(PVal::I(0)))];
            v.extend(nested());
            Ups(v)
        }
        2 => Ups(vec![("Quality".to_string(), Some(3), UVal::Sc(PVal::I(500))), deep()]),
        _ => {
            let mut v = flat().0;
            v.extend(nested());
            v.push(deep());
            Ups(v)
        }
    }
}
pub const RICH_PROFILES: u32 = 4;
pub fn rich_props(profile: u32) -> PropertySet {
    ups_to_srad(&rich_ups(profile)).expect("rich property set is expressible through the API")
}

/// deepest protobuf message level a metric's property set reaches on the wire (Payload = 1, Metric = 2, the
/// metric's PropertySet = 3, each PropertyValue one more, a PropertySetList one more)
pub fn ups_wire_levels(u: &Ups, at: u32) -> u32 {
    u.0.iter()
        .map(|(_, _, v)| match v {
            UVal::Set(i) => ups_wire_levels(i, at + 2),
            UVal::Sets(l) => l.iter().map(|i| ups_wire_levels(i, at + 3)).max().unwrap_or(at + 2),
            _ => at + 1,
        })
        .max()
        .unwrap_or(at)
}
/// the generators stay this far below prost's limit of 100 nested messages
pub const MAX_WIRE_LEVELS: u32 = 90;

/// the typed property set `Quality` + one entry `p` of the given datatype (null, or the given scalar)
fn one_prop_ups(dt: u32, v: UVal) -> Ups {
    Ups(vec![("Quality".to_string(), Some(3), UVal::Sc(PVal::I(0))), ("p".to_string(), Some(dt), v)])
}

/// boundary and random values of a scalar property datatype, as the property value srad's own typed conversion yields
fn prop_scalar_values(dt: u32, rng: &mut Rng) -> Vec<PVal> {
    let bits = [0u64, 1, u64::MAX, 1 << 63, (1 << 63) - 1, 0x80, 0x7F, 0x8000, 0x7FFF, 0x8000_0000, 0x7FFF_FFFF, 0xFFFF_FFFF, rnd_bits(rng)];
    let mut v: Vec<PVal> = vec![];
    for b in bits {
        let x = match dt {
            1 | 5 => PVal::I((b & 0xFF) as u32),
            2 | 6 => PVal::I((b & 0xFFFF) as u32),
            3 | 7 => PVal::I(b as u32),
            4 | 8 | 13 => PVal::L(b),
            9 => PVal::F(b as u32),
            10 => PVal::D(b),
            11 => PVal::B(b & 1 == 1),
            _ => PVal::S(if b == 0 { String::new() } else if b == 1 { "\u{0}é€😀".to_string() } else { rnd_str(rng, true) }),
        };
        if !v.contains(&x) {
            v.push(x);
        }
    }
    v
}

fn random_ostr(rng: &mut Rng) -> Option<String> {
    if rng.chance(1, 2) {
        Some(rnd_str(rng, true))
    } else {
        None
    }
}
/// the shape of an md5 string (the discriminating trait of a metadata finding)
pub fn md5_shape(s: &str) -> &'static str {
    let hex = !s.is_empty() && s.bytes().all(|b| b.is_ascii_hexdigit());
    let up = s.bytes().any(|b| b.is_ascii_uppercase());
    let lo = s.bytes().any(|b| b.is_ascii_lowercase());
    match (hex, s.len()) {
        (true, 32) => match (up, lo) {
            (true, true) => "md5-32hex-mixedcase",
            (true, false) => "md5-32hex-uppercase",
            (false, true) => "md5-32hex-lowercase",
            _ => "md5-32hex-digits",
        },
        (true, _) => "md5-hex-other-length",
        _ if s.is_empty() => "md5-empty",
        _ => "md5-not-hex",
    }
}
/// md5 strings as users really produce them: digests rendered `{:02x}` / `{:02X}` / mixed, digits only, one character
/// short or long, 32 characters with one non-hex character, surrounded by whitespace, empty, `md5:`-prefixed, base64
fn random_md5(rng: &mut Rng) -> String {
    let digest = |rng: &mut Rng, n: usize, case: u64| -> String {
        (0..n)
            .map(|_| {
                let c = b"0123456789abcdef"[rng.below(16) as usize] as char;
                match case {
                    0 => c,
                    1 => c.to_ascii_uppercase(),
                    _ => if rng.chance(1, 2) { c.to_ascii_uppercase() } else { c },
                }
            })
            .collect()
    };
    match rng.below(12) {
        0 => digest(rng, 32, 0),
        1 | 2 => { let mut s = digest(rng, 31, 1); s.push('F'); s }
        3 | 4 => { let mut s = digest(rng, 30, 2); s.push_str("aB"); s }
        5 => (0..32).map(|_| (b'0' + rng.below(10) as u8) as char).collect(),
        6 => { let c = rng.below(3); digest(rng, 31, c) }
        7 => { let c = rng.below(3); digest(rng, 33, c) }
        8 => { let mut s = digest(rng, 31, 1); s.insert(rng.below(32) as usize, *rng.pick(&['G', 'g', '-', ' ', 'é'])); s }
        9 => format!(" {}\n", digest(rng, 32, 1)),
        10 => String::new(),
        _ => format!("{}{}", rng.pick(&["md5:", "MD5=", "0x"]), digest(rng, 32, 2)),
    }
}
/// the other metadata strings with contents of their kind: media types with parameters and upper case, file names with
/// paths / spaces / upper-case extensions / trailing dots, descriptions with surrounding white space and line breaks
fn random_meta_text(rng: &mut Rng, field: u32) -> String {
    let pool: &[&str] = match field {
        0 => &["  padded description  ", "line one\nline two\r\n", "\tTAB", "UPPER lower MiXeD", "", " "],
        1 => &["Application/JSON", "text/plain; charset=UTF-8", "TEXT/PLAIN", " text/plain", "application/x-raw ", "", "*/*", "no-slash"],
        2 => &["C:\\Dir\\File.BIN", "/abs/path/../f.bin", "name with spaces.txt", "UPPER.TXT", ".hidden", "trailing.", "", "a/", "Ünïcode.dat"],
        _ => &["BIN", ".bin", "Tar.Gz", "", " bin", "application/octet-stream"],
    };
    rng.pick(pool).to_string()
}
fn random_emeta(rng: &mut Rng) -> EMeta {
    // half of the metadata carry field-shaped strings, the other half arbitrary Unicode
    let shaped = rng.chance(1, 2);
    let mut text = |rng: &mut Rng, field: u32| -> Option<String> {
        if shaped && rng.chance(2, 3) {
            Some(random_meta_text(rng, field))
        } else {
            random_ostr(rng)
        }
    };
    EMeta {
        desc: text(rng, 0),
        ct: text(rng, 1),
        size: if rng.chance(1, 2) { Some(rnd_bits(rng)) } else { None },
        md5: if shaped { Some(random_md5(rng)) } else { random_ostr(rng) },
        fname: text(rng, 2),
        ftype: text(rng, 3),
    }
}

/// `tsmode`: 0 = spread, 1 = few distinct values (ties), 2 = all equal
fn random_pm(ids: &[(String, &'static str)], rng: &mut Rng, tsmode: u32, out: &mut Out) -> Pm {
    let (id, kind) = rng.pick(ids).clone();
    let id = p_id(&parse_tree(&id).unwrap()).unwrap();
    let val = if rng.chance(1, 6) { None } else { Some(random_val(kind, rng)) };
    out.count(&format!("datatype:{}", kind));
    out.count(if val.is_some() { "value:some" } else { "value:null" });
    let ts = match tsmode {
        2 => Some(5000),
        1 => Some(5000 + rng.below(3)),
        _ => match rng.below(8) {
            0 => None,
            1 => Some(0),
            2 => Some(u64::MAX),
            _ => Some(rng.below(100_000)),
        },
    };
    let meta = if rng.chance(2, 5) { Some(random_emeta(rng)) } else { None };
    let props = if rng.chance(1, 2) {
        let u = random_ups(rng, 3, out);
        // one property set in 16 sits at the bottom of a deep chain of nested sets
        if rng.chance(1, 16) {
            let mut extra = rng.range(2, MAX_NEST as u64 - 4) as u32;
            let shape = *rng.pick(&CHAIN_SHAPES);
            while extra > 1 && ups_wire_levels(&chain_ups(extra, shape, u.clone()), 3) > MAX_WIRE_LEVELS {
                extra -= 1;
            }
            out.count("prop:deep-chain");
            Some(chain_ups(extra, shape, u))
        } else {
            Some(u)
        }
    } else {
        None
    };
    if let Some(u) = &props {
        out.count(&format!("prop-nesting-depth:{}", match ups_depth(u) { 1 => "1", 2 => "2", 3..=4 => "3-4", 5..=8 => "5-8", 9..=16 => "9-16", 17..=32 => "17-32", _ => "33+" }));
    }
    out.count(if meta.is_some() { "metadata:some" } else { "metadata:none" });
    if let Some(d) = meta.as_ref().and_then(|m| m.md5.as_ref()) {
        out.count(&format!("metadata:{}", md5_shape(d)));
    }
    out.count(if props.is_some() { "properties:some" } else { "properties:none" });
    Pm {
        id,
        val,
        tr: *rng.pick(&[None, Some(true), Some(false)]),
        hi: *rng.pick(&[None, Some(true), Some(false)]),
        ts,
        meta,
        props,
    }
}

fn show_pms(pms: &[Pm]) -> String {
    show_list("L", pms.iter().map(show_pm).collect())
}
fn show_qms(qs: &[Qm]) -> String {
    show_list("L", qs.iter().map(|q| show_qm(q, false)).collect())
}

/// one end-to-end case: the pure edge conversion of every metric, the publish through the real
/// handle, and the host conversion of the payload the client was really handed
fn e2e_case(out: &mut Out, who: &str, variant: &str, pms: &[Pm], stat: &str) {
    out.begin_case("metric new", "ok");
    let (prevseq, now) = with_world(|w| {
        if !w.inner.synced {
            w.resync();
        }
        (w.edge_seq(), w.tick())
    });
    for p in pms.iter().take(8) {
        line(out, &format!("metric edge {} {}", now, show_pm(p)));
    }
    line(out, &format!("metric e2e {} {} {} {} {}", who, variant, prevseq, now, show_pms(pms)));
    if pms.iter().all(|p| p.props.as_ref().map(|u| u.0.len() <= 1).unwrap_or(true)) {
        let (prevseq, now) = with_world(|w| {
            if !w.inner.synced {
                w.resync();
            }
            (w.edge_seq(), w.tick())
        });
        line(out, &format!("metric wbytes {} {} {} {} {}", who, variant, prevseq, now, show_pms(pms)));
        out.count("wire-bytes-compared");
    }
    out.nontrivial();
    out.count(stat);
    out.count(&format!("variant:{}:{}", who, variant));
    out.count(&format!("batch-size:{}", match pms.len() { 0 => "0", 1 => "1", 2..=4 => "2-4", 5..=16 => "5-16", _ => "17+" }));
}

/// one birth case: a rebirth whose node / device birth carries one extra metric per property set
fn bprops_case(out: &mut Out, who: &str, sets: &[Ups], stat: &str) {
    out.begin_case("metric new", "ok");
    line(out, &format!("metric bprops {} {}", who, show_list("L", sets.iter().map(show_ups).collect())));
    out.nontrivial();
    out.count(stat);
    out.count(&format!("birth-props:{}", who));
}

/// a host case on the payload metrics the real edge conversion produced for `pms`
fn host_case_from_edge(out: &mut Out, verb: &str, seq: Option<u64>, ts: Option<u64>, qs: &[Qm], stat: &str) {
    out.begin_case("metric new", "ok");
    line(out, &format!("metric host {} {} {} {}", verb, on(seq), on(ts), show_qms(qs)));
    out.nontrivial();
    out.count(stat);
}

fn sample_props(kind: u32) -> Option<PSetT> {
    let q = Ppv { ty: Some(3), nu: None, v: Some(PVal::I(0)) };
    match kind {
        0 => None,
        1 => Some(PSetT { keys: vec!["Quality".into()], vals: vec![q] }),
        _ => Some(PSetT { keys: vec!["Quality".into(), "b".into()], vals: vec![q] }),
    }
}

/// the marker combinations of a payload metric (T-table `metricHostTable` and exhaustive ops)
fn host_marker_rows() -> Vec<(Vec<String>, Qm)> {
    let mut rows = vec![];
    let ob3 = [None, Some(true), Some(false)];
    for alias in [false, true] {
        for name in [false, true] {
            for ts in [false, true] {
                for value in [false, true] {
                    for nu in ob3 {
                        for hi in ob3 {
                            for tr in ob3 {
                                for props in 0..3u32 {
                                    let q = Qm {
                                        name: if name { Some("m".into()) } else { None },
                                        alias: if alias { Some(7) } else { None },
                                        ts: if ts { Some(9) } else { None },
                                        dt: None,
                                        hi,
                                        tr,
                                        nu,
                                        meta: None,
                                        props: sample_props(props),
                                        val: if value { Some(Val::I(5)) } else { None },
                                    };
                                    let lb = |b: bool| if b { "true" } else { "false" }.to_string();
                                    let lo = |o: Option<bool>| match o {
                                        None => "none".to_string(),
                                        Some(b) => format!("(some {})", if b { "true" } else { "false" }),
                                    };
                                    rows.push((vec![lb(alias), lb(name), lb(ts), lb(value), lo(nu), lo(hi), lo(tr), props.to_string()], q));
                                }
                            }
                        }
                    }
                }
            }
        }
    }
    rows
}

/// payload property sets for the property-value decision table: (nk, nv, has value, is_null, type)
fn prop_marker_rows() -> Vec<(Vec<String>, PSetT)> {
    let mut rows = vec![];
    let lb = |b: bool| if b { "true" } else { "false" }.to_string();
    let lo = |o: Option<bool>| match o {
        None => "none".to_string(),
        Some(b) => format!("(some {})", if b { "true" } else { "false" }),
    };
    let lt = |o: Option<u32>| match o {
        None => "none".to_string(),
        Some(b) => format!("(some {})", b),
    };
    let keys = ["a", "b", "c"];
    for nk in 0..=2usize {
        for nv in 0..=2usize {
            for value in [false, true] {
                for nu in [None, Some(true), Some(false)] {
                    for ty in [None, Some(0u32), Some(3), Some(34), Some(35), Some(u32::MAX)] {
                        let e = Ppv { ty, nu, v: if value { Some(PVal::I(1)) } else { None } };
                        let s = PSetT {
                            keys: keys[..nk].iter().map(|k| k.to_string()).collect(),
                            vals: (0..nv).map(|_| e.clone()).collect(),
                        };
                        rows.push((vec![nk.to_string(), nv.to_string(), lb(value), lo(nu), lt(ty)], s));
                    }
                }
            }
        }
    }
    rows
}

fn edge_marker_rows(ids: &[(String, &'static str)]) -> Vec<(Vec<String>, Pm)> {
    let mut rows = vec![];
    let by_alias = ids.iter().find(|(i, k)| *k == "i32" && i.starts_with('A')).unwrap().0.clone();
    let by_name = ids.iter().find(|(i, k)| *k == "i32" && i.starts_with('N')).unwrap().0.clone();
    let lb = |b: bool| if b { "true" } else { "false" }.to_string();
    let lo = |o: Option<bool>| match o {
        None => "none".to_string(),
        Some(b) => format!("(some {})", if b { "true" } else { "false" }),
    };
    for alias in [false, true] {
        for value in [false, true] {
            for tr in [None, Some(true), Some(false)] {
                for hi in [None, Some(true), Some(false)] {
                    for ts in [false, true] {
                        for meta in [false, true] {
                            for props in [false, true] {
                                let id = p_id(&parse_tree(if alias { &by_alias } else { &by_name }).unwrap()).unwrap();
                                let p = Pm {
                                    id,
                                    val: if value { Some(Val::I(5)) } else { None },
                                    tr,
                                    hi,
                                    ts: if ts { Some(9) } else { None },
                                    meta: if meta { Some(EMeta { desc: Some("d".into()), ..Default::default() }) } else { None },
                                    props: if props { Some(Ups(vec![("Quality".into(), Some(3), UVal::Sc(PVal::I(0)))])) } else { None },
                                };
                                rows.push((vec![lb(alias), lb(value), lo(tr), lo(hi), lb(ts), lb(meta), lb(props)], p));
                            }
                        }
                    }
                }
            }
        }
    }
    rows
}

fn mutate_pset(s: &mut PSetT, rng: &mut Rng, out: &mut Out) {
    match rng.below(9) {
        0 => {
            if !s.keys.is_empty() {
                let i = rng.below(s.keys.len() as u64) as usize;
                s.keys.remove(i);
            }
            out.count("propset-mutation:key-removed");
        }
        1 => {
            if !s.vals.is_empty() {
                let i = rng.below(s.vals.len() as u64) as usize;
                s.vals.remove(i);
            }
            out.count("propset-mutation:value-removed");
        }
        2 => {
            s.keys.push(rnd_str(rng, true));
            out.count("propset-mutation:key-added");
        }
        3 => {
            if !s.vals.is_empty() {
                let i = rng.below(s.vals.len() as u64) as usize;
                s.vals[i].v = None;
                s.vals[i].nu = *rng.pick(&[None, Some(false), Some(true)]);
            }
            out.count("propset-mutation:value-absent");
        }
        4 => {
            if !s.vals.is_empty() {
                let i = rng.below(s.vals.len() as u64) as usize;
                s.vals[i].ty = Some(*rng.pick(&[35u32, 36, 100, 255, 256, 65536, u32::MAX, 34, 0]));
            }
            out.count("propset-mutation:type-code");
        }
        5 => {
            if !s.vals.is_empty() {
                let i = rng.below(s.vals.len() as u64) as usize;
                s.vals[i].nu = *rng.pick(&[Some(false), Some(true)]);
            }
            out.count("propset-mutation:is-null-with-value");
        }
        6 => {
            if !s.keys.is_empty() {
                let i = rng.below(s.keys.len() as u64) as usize;
                let k = s.keys[i].clone();
                s.keys.push(k);
                s.vals.push(Ppv { ty: Some(12), nu: None, v: Some(PVal::S("dup".into())) });
            }
            out.count("propset-mutation:duplicate-key");
        }
        7 => {
            // malformed nested set: stays in payload form at the host
            s.keys.push("nested".into());
            s.vals.push(Ppv {
                ty: Some(20),
                nu: None,
                v: Some(PVal::Set(PSetT { keys: vec!["x".into(), "y".into()], vals: vec![Ppv { ty: Some(99), nu: Some(false), v: None }] })),
            });
            out.count("propset-mutation:malformed-nested");
        }
        _ => out.count("propset-mutation:none"),
    }
}

fn mutate_qm(q: &mut Qm, rng: &mut Rng, out: &mut Out) {
    match rng.below(12) {
        0 => {
            q.name = None;
            q.alias = None;
            out.count("metric-mutation:no-identifier");
        }
        1 => {
            q.name = Some(rnd_str(rng, false));
            q.alias = Some(rng.next());
            out.count("metric-mutation:both-identifiers");
        }
        2 => {
            q.ts = None;
            out.count("metric-mutation:no-timestamp");
        }
        3 => {
            q.val = None;
            q.nu = *rng.pick(&[None, Some(false), Some(true)]);
            out.count("metric-mutation:no-value");
        }
        4 => {
            q.nu = *rng.pick(&[Some(false), Some(true)]);
            out.count("metric-mutation:is-null-with-value");
        }
        5 | 6 | 7 => {
            let mut s = q.props.clone().unwrap_or_default();
            mutate_pset(&mut s, rng, out);
            q.props = Some(s);
        }
        8 => {
            q.dt = Some(*rng.pick(&[0u32, 3, 34, 35, 1000, u32::MAX]));
            out.count("metric-mutation:datatype");
        }
        9 => {
            q.meta = Some(PMeta { mp: Some(true), seq: Some(rng.next()), ..q.meta.clone().unwrap_or_default() });
            out.count("metric-mutation:multipart-metadata");
        }
        _ => out.count("metric-mutation:none"),
    }
}

pub const RULE: &str = "end to end through the real NodeHandle/DeviceHandle -> recording client -> prost encode -> topic_and_payload_to_event -> AppEventLoop / Application -> recording MetricStore: every registered metric (27 Rust types incl. a user type carrying data sets / templates / extension values, by name and by alias, node and device) x value/null x transient n/t/f x historical n/t/f (exhaustive, single publishes through publish_metric and try_publish_metric); the marker combinations identifier kind x value x flags x default/custom timestamp x metadata x properties (exhaustive, 288); every timestamp assignment over {1,2,3} for batches of up to 5 (thorough 6) metrics through the sorting variants (exhaustive); random batches of size 1..=64 (thorough: ..=200) through all six publish variants on node and device with spread / few distinct / all-equal timestamps, random metadata (arbitrary Unicode and field-shaped strings: md5 digests of every case/length shape, media types, file names) and property sets (random keys incl. empty, all 15 scalar property types incl. DateTime and, through user property types, Text and UUID, nulls, nested sets and set lists to depth 3, one set in 16 at the bottom of a chain of up to 40 nested sets, quality Good/Bad/Stale); every property datatype x null / boundary values alone beside Quality on a data metric and, through `BirthMetricDetails::with_properties` and a real rebirth, on a birth metric of the NBIRTH and of the DBIRTH (exhaustive); nesting depth 1..=40 x nested directly / through set lists, on data and on birth metrics (exhaustive, within 90 protobuf levels); random property sets on birth metrics; empty batches; host conversion alone on the payloads the edge really produced and on mutated ones (identifier/timestamp/value/is_null/datatype/metadata markers, malformed property sets) for NDATA and DDATA, all 1296 marker combinations of a payload metric (exhaustive), payload seq/timestamp absent and out of range; NBIRTH/DBIRTH payloads built from the same metrics with name/datatype/bdSeq present, absent and out of range; payload property sets alone: 648 count/marker/type-code combinations (exhaustive) plus mutated random sets. Non-trivial = every case (each executes at least one conversion); distinct = distinct op lines (hashed).";

pub fn run(args: &Args, out: &mut Out) -> &'static str {
    let mut rng = Rng::new(args.seed);
    let th = args.thorough();
    let nids = with_world(|w| w.token_ids("n"));
    let dids = with_world(|w| w.token_ids("d"));

    // --- every token x value/null x flags, single publish ---
    for (who, ids) in [("n", &nids), ("d", &dids)] {
        for (id, kind) in ids.iter() {
            for value in [true, false] {
                for tr in [None, Some(true), Some(false)] {
                    for hi in [None, Some(true), Some(false)] {
                        let p = Pm {
                            id: p_id(&parse_tree(id).unwrap()).unwrap(),
                            val: if value { Some(random_val(kind, &mut rng)) } else { None },
                            tr,
                            hi,
                            ts: Some(rng.below(1000)),
                            meta: None,
                            props: None,
                        };
                        out.count(&format!("datatype:{}", kind));
                        out.count(if value { "value:some" } else { "value:null" });
                        let variant = if rng.chance(1, 2) { "pm" } else { "tpm" };
                        e2e_case(out, who, variant, &[p], "single-exhaustive-flags");
                    }
                }
            }
        }
    }
    out.exhaustive.push("every registered metric (27 types x name/alias x node/device) x value/null x transient {absent,true,false} x historical {absent,true,false}".into());

    // --- marker combinations ---
    for (_, p) in edge_marker_rows(&nids) {
        e2e_case(out, "n", "pm", &[p], "single-exhaustive-markers");
    }
    out.exhaustive.push("identifier kind x value/null x transient x historical x default/custom timestamp x metadata x properties (288 combinations)".into());

    // --- metadata strings: every md5 shape and every field-shaped text, alone in an otherwise plain metadata ---
    {
        let mk = |f: &dyn Fn(&mut EMeta)| {
            let mut m = EMeta::default();
            f(&mut m);
            m
        };
        let mut metas: Vec<EMeta> = vec![];
        for d in [
            "d41d8cd98f00b204e9800998ecf8427e", "D41D8CD98F00B204E9800998ECF8427E", "D41d8cd98f00b204e9800998ecf8427E", "00000000000000000000000000000000",
            "01234567890123456789012345678901", "D41D8CD98F00B204E9800998ECF8427", "D41D8CD98F00B204E9800998ECF8427E0", "G41D8CD98F00B204E9800998ECF8427E",
            " D41D8CD98F00B204E9800998ECF8427E", "D41D8CD9-8F00B204-E9800998-ECF8427E", "", "MD5:D41D8CD98F00B204E9800998ECF8427E", "1B2M2Y8AsgTpgAmY7PhCfg==",
            "ABCDEFABCDEFABCDEFABCDEFABCDEFAB", "abcdefabcdefabcdefabcdefabcdefab",
        ] {
            metas.push(mk(&|m| m.md5 = Some(d.to_string())));
        }
        for field in 0..4u32 {
            let mut seen: Vec<String> = vec![];
            for _ in 0..64 {
                let t = random_meta_text(&mut rng, field);
                if seen.contains(&t) {
                    continue;
                }
                seen.push(t.clone());
                // also the digest-shaped strings in the fields that are NOT md5
                for t in [t, "D41D8CD98F00B204E9800998ECF8427E".to_string()] {
                    metas.push(mk(&|m| match field {
                        0 => m.desc = Some(t.clone()),
                        1 => m.ct = Some(t.clone()),
                        2 => m.fname = Some(t.clone()),
                        _ => m.ftype = Some(t.clone()),
                    }));
                }
            }
        }
        metas.dedup();
        for (who, ids) in [("n", &nids), ("d", &dids)] {
            let id = p_id(&parse_tree(&ids.iter().find(|(i, k)| *k == "i32" && i.starts_with('N')).unwrap().0).unwrap()).unwrap();
            for m in &metas {
                if let Some(d) = &m.md5 {
                    out.count(&format!("metadata:{}", md5_shape(d)));
                }
                let p = Pm { id: id.clone(), val: Some(Val::I(7)), tr: None, hi: None, ts: Some(11), meta: Some(m.clone()), props: None };
                e2e_case(out, who, "pm", &[p], "metadata-string-shapes");
            }
        }
        out.exhaustive.push("md5 shapes (32 hex lower/upper/mixed/digits, 31/33 hex, non-hex, padded, dashed, empty, prefixed, base64) and field-shaped description/content type/file name/file type strings, each alone in a metadata, node and device".into());
    }

    // --- properties: every property datatype x value / null, on data metrics and on birth metrics ---
    {
        let by_name = |ids: &Vec<(String, &'static str)>| p_id(&parse_tree(&ids.iter().find(|(i, k)| *k == "i32" && i.starts_with('N')).unwrap().0).unwrap()).unwrap();
        let by_alias = |ids: &Vec<(String, &'static str)>| p_id(&parse_tree(&ids.iter().find(|(i, k)| *k == "f64" && i.starts_with('A')).unwrap().0).unwrap()).unwrap();
        let flat = |q: u32| Ups(vec![("Quality".to_string(), Some(3), UVal::Sc(PVal::I(q))), ("unit".to_string(), Some(12), UVal::Sc(PVal::S("°C".into())))]);
        for (who, ids) in [("n", &nids), ("d", &dids)] {
            let mut k = 0u32;
            for dt in (1..=15u32).chain([20, 21]) {
                let mut vals: Vec<UVal> = vec![UVal::Null];
                match dt {
                    20 => vals.extend([UVal::Set(flat(0)), UVal::Set(one_prop_ups(13, UVal::Sc(PVal::L(1_700_000_000_000)))), UVal::Set(one_prop_ups(20, UVal::Null))]),
                    21 => vals.extend([UVal::Sets(vec![]), UVal::Sets(vec![flat(192)]), UVal::Sets(vec![flat(500), one_prop_ups(21, UVal::Null), one_prop_ups(8, UVal::Sc(PVal::L(u64::MAX)))])]),
                    _ => vals.extend(prop_scalar_values(dt, &mut rng).into_iter().map(UVal::Sc)),
                }
                let mut birth_sets = vec![];
                for v in vals {
                    let u = one_prop_ups(dt, v.clone());
                    out.count(&format!("prop-datatype:{}{}", spec_dt_name(Some(dt)), if v == UVal::Null { ":null" } else { "" }));
                    k += 1;
                    let p = Pm {
                        id: if k % 2 == 0 { by_name(ids) } else { by_alias(ids) },
                        val: Some(if k % 2 == 0 { Val::I(k) } else { Val::D(k as u64) }),
                        tr: None,
                        hi: None,
                        ts: Some(100 + k as u64),
                        meta: None,
                        props: Some(u.clone()),
                    };
                    e2e_case(out, who, ["pm", "tpm", "pmu", "pms"][(k % 4) as usize], &[p], "props-exhaustive-datatypes");
                    birth_sets.push(u);
                }
                // the same sets on birth metrics: each alone (the first two: null and a value), then all of the datatype together
                for u in birth_sets.iter().take(2) {
                    bprops_case(out, who, std::slice::from_ref(u), "birth-props-exhaustive-datatypes");
                }
                bprops_case(out, who, &birth_sets, "birth-props-exhaustive-datatypes");
            }
        }
        out.exhaustive.push("properties: every property datatype (Int8..UInt64, Float, Double, Boolean, String, DateTime, and through user property types Text and UUID; PropertySet, PropertySetList) x null / boundary values, alone beside Quality, on a data metric (node and device, by name and by alias) and on a birth metric of the NBIRTH and of the DBIRTH".into());
        // --- nesting depth 1..=MAX_NEST x how the levels are nested ---
        let leaf = Ups(vec![("leaf".to_string(), Some(13), UVal::Sc(PVal::L(86_400_000))), ("Quality".to_string(), Some(3), UVal::Sc(PVal::I(500)))]);
        for depth in 1..=MAX_NEST {
            for (si, shape) in CHAIN_SHAPES.iter().enumerate() {
                let u = chain_ups(depth, shape, leaf.clone());
                if ups_wire_levels(&u, 3) > MAX_WIRE_LEVELS || (depth == 1 && si > 0) {
                    continue;
                }
                let who = if (depth as usize + si) % 2 == 0 { "n" } else { "d" };
                let ids = if who == "n" { &nids } else { &dids };
                out.count(&format!("prop-nesting-depth:{}", match depth { 1 => "1", 2 => "2", 3..=4 => "3-4", 5..=8 => "5-8", 9..=16 => "9-16", 17..=32 => "17-32", _ => "33+" }));
                let p = Pm { id: by_name(ids), val: Some(Val::I(depth)), tr: None, hi: None, ts: Some(depth as u64), meta: None, props: Some(u.clone()) };
                e2e_case(out, who, ["pm", "tpms", "pmu"][si], &[p], "props-nesting-depth");
                bprops_case(out, if who == "n" { "d" } else { "n" }, &[u], "birth-props-nesting-depth");
            }
        }
        out.exhaustive.push(format!("properties: nesting depth 1..={} (the metric's own set is level 1) x levels nested directly / through one-element set lists on every other level / on every fourth level, as far as the message stays within {} protobuf levels, on a data metric and on a birth metric", MAX_NEST, MAX_WIRE_LEVELS));
        // --- random property sets on birth metrics ---
        for _ in 0..(if th { 1500 } else { 150 }) {
            let who = if rng.chance(1, 2) { "n" } else { "d" };
            let n = rng.range(1, 3) as usize;
            let sets: Vec<Ups> = (0..n)
                .map(|_| {
                    let u = random_ups(&mut rng, 3, out);
                    if rng.chance(1, 8) {
                        let shape = *rng.pick(&CHAIN_SHAPES);
                        let mut extra = rng.range(2, MAX_NEST as u64 - 4) as u32;
                        while extra > 1 && ups_wire_levels(&chain_ups(extra, shape, u.clone()), 3) > MAX_WIRE_LEVELS {
                            extra -= 1;
                        }
                        chain_ups(extra, shape, u)
                    } else {
                        u
                    }
                })
                .collect();
            bprops_case(out, who, &sets, "birth-props-random");
        }
    }

    // --- empty batches ---
    for who in ["n", "d"] {
        for variant in ["pmu", "tpmu", "pms", "tpms"] {
            e2e_case(out, who, variant, &[], "empty-batch");
        }
    }

    // --- every timestamp assignment over {1,2,3} for batches of 1..=5 (6 in thorough) distinct metrics, sorting variants ---
    {
        let ids: Vec<Id> = nids.iter().filter(|(_, k)| *k == "u8" || *k == "i16" || *k == "u32").map(|(i, _)| p_id(&parse_tree(i).unwrap()).unwrap()).collect();
        let maxn = if th { 6 } else { 5 };
        for n in 1..=maxn {
            for code in 0..3u32.pow(n as u32) {
                let mut c = code;
                let pms: Vec<Pm> = (0..n)
                    .map(|i| {
                        let t = 1 + (c % 3) as u64;
                        c /= 3;
                        Pm { id: ids[i].clone(), val: Some(Val::I(i as u32)), tr: None, hi: None, ts: Some(t), meta: None, props: None }
                    })
                    .collect();
                e2e_case(out, "n", if code % 2 == 0 { "pms" } else { "tpms" }, &pms, "sort-exhaustive-small");
            }
        }
        out.exhaustive.push(format!("sorting variants: every assignment of timestamps from {{1,2,3}} to batches of 1..={} distinct metrics", maxn));
    }
    // --- random batches ---
    let nb = if th { 12000 } else { 1200 };
    for k in 0..nb {
        let who = if rng.chance(1, 2) { "n" } else { "d" };
        let ids = if who == "n" { &nids } else { &dids };
        let variant = *rng.pick(&["pmu", "tpmu", "pms", "tpms", "pms", "tpms"]);
        let size = match rng.below(10) {
            0 => 1,
            1..=4 => rng.range(2, 6),
            5..=7 => rng.range(7, 20),
            8 => rng.range(21, 64),
            _ => if th { rng.range(64, 200) } else { 64 },
        } as usize;
        let tsmode = (k % 3) as u32;
        out.count(&format!("timestamps:{}", ["spread", "few-distinct", "all-equal"][tsmode as usize]));
        let pms: Vec<Pm> = (0..size).map(|_| random_pm(ids, &mut rng, tsmode, out)).collect();
        e2e_case(out, who, variant, &pms, "random-batch");
    }
    // single publishes with everything random
    for _ in 0..(if th { 20000 } else { 2000 }) {
        let who = if rng.chance(1, 2) { "n" } else { "d" };
        let ids = if who == "n" { &nids } else { &dids };
        let p = random_pm(ids, &mut rng, 0, out);
        let variant = *rng.pick(&["pm", "tpm", "pmu", "pms"]);
        e2e_case(out, who, variant, &[p], "random-single");
    }

    // --- host conversion alone: the payload metrics the edge produces, as is and mutated ---
    for _ in 0..(if th { 30000 } else { 3000 }) {
        let n = rng.range(1, 5) as usize;
        let now = 10 + rng.below(1000);
        let mut qs: Vec<Qm> = vec![];
        for _ in 0..n {
            let p = random_pm(&nids, &mut rng, 0, out);
            if let Ok(q) = with_world(|w| w.edge(now, &p)) {
                qs.push(q);
            }
        }
        let mutated = rng.chance(3, 4);
        if mutated {
            let i = rng.below(qs.len() as u64) as usize;
            mutate_qm(&mut qs[i], &mut rng, out);
        }
        let seq = match rng.below(8) {
            0 => None,
            1 => Some(rng.next()),
            2 => Some(256),
            _ => Some(rng.below(256)),
        };
        let ts = match rng.below(8) {
            0 => None,
            1 => Some(u64::MAX),
            _ => Some(1 + rng.below(100_000)),
        };
        let verb = if rng.chance(1, 2) { "ND" } else { "DD" };
        host_case_from_edge(out, verb, seq, ts, &qs, if mutated { "host-mutated" } else { "host-valid" });
    }
    // --- births: the same metric conversion plus name / datatype, and the bdSeq metric ---
    for _ in 0..(if th { 15000 } else { 1500 }) {
        let n = rng.range(0, 4) as usize;
        let now = 10 + rng.below(1000);
        let mut qs: Vec<Qm> = vec![];
        for _ in 0..n {
            let p = random_pm(&nids, &mut rng, 0, out);
            if let Ok(mut q) = with_world(|w| w.edge(now, &p)) {
                if q.name.is_none() {
                    q.name = Some(rnd_str(&mut rng, false));
                }
                q.dt = Some(rng.below(35) as u32);
                qs.push(q);
            }
        }
        let node = rng.chance(1, 2);
        if node {
            let bd = Qm {
                name: Some("bdSeq".into()),
                ts: Some(now),
                dt: Some(4),
                val: Some(Val::L(rng.below(256))),
                ..Default::default()
            };
            let pos = rng.below(qs.len() as u64 + 1) as usize;
            qs.insert(pos, bd);
        }
        let mutated = rng.chance(2, 3);
        if mutated && !qs.is_empty() {
            let i = rng.below(qs.len() as u64) as usize;
            match rng.below(8) {
                0 => {
                    qs[i].dt = None;
                    out.count("birth-mutation:no-datatype");
                }
                1 => {
                    qs[i].dt = Some(*rng.pick(&[35u32, 36, 255, 65536, u32::MAX]));
                    out.count("birth-mutation:bad-datatype");
                }
                2 => {
                    qs[i].name = None;
                    out.count("birth-mutation:no-name");
                }
                3 => {
                    if let Some(b) = qs.iter_mut().find(|q| q.name.as_deref() == Some("bdSeq")) {
                        b.val = Some(match rng.below(5) {
                            0 => Val::L(256),
                            1 => Val::L(u64::MAX),
                            2 => Val::L(1 << 63),
                            3 => Val::I(3),
                            _ => Val::L(255),
                        });
                    }
                    out.count("birth-mutation:bdseq-value");
                }
                4 => {
                    qs.retain(|q| q.name.as_deref() != Some("bdSeq"));
                    out.count("birth-mutation:bdseq-removed");
                }
                5 => {
                    if let Some(b) = qs.iter_mut().find(|q| q.name.as_deref() == Some("bdSeq")) {
                        b.val = None;
                        b.nu = Some(true);
                    }
                    out.count("birth-mutation:bdseq-null");
                }
                _ => mutate_qm(&mut qs[i], &mut rng, out),
            }
        }
        let seq = if node {
            match rng.below(6) {
                0 => None,
                1 => Some(1 + rng.below(300)),
                _ => Some(0),
            }
        } else {
            match rng.below(6) {
                0 => None,
                1 => Some(rng.next()),
                _ => Some(rng.below(256)),
            }
        };
        let ts = match rng.below(8) {
            0 => None,
            1 => Some(u64::MAX),
            _ => Some(2 + rng.below(100_000)),
        };
        host_case_from_edge(out, if node { "NB" } else { "DB" }, seq, ts, &qs, if mutated { "host-birth-mutated" } else { "host-birth-valid" });
    }
    // all marker combinations of a payload metric
    {
        let rows = host_marker_rows();
        for chunk in rows.chunks(36) {
            out.begin_case("metric new", "ok");
            for (_, q) in chunk {
                line(out, &format!("metric host ND 1 1 {}", show_qms(std::slice::from_ref(q))));
            }
            out.nontrivial();
            out.count("host-marker-table");
        }
        out.exhaustive.push("payload metric markers: alias x name x timestamp x value x is_null {absent,true,false} x is_historical x is_transient x properties {absent, well-formed, count mismatch} (1296 combinations)".into());
    }
    // --- property sets alone ---
    {
        let rows = prop_marker_rows();
        for chunk in rows.chunks(36) {
            out.begin_case("metric new", "ok");
            for (_, s) in chunk {
                line(out, &format!("metric pset {}", show_pset(s, false)));
                // the same set one level down: as the value of a property, read by the user's descent
                line(out, &format!("metric pdesc {}", show_pset(s, false)));
                line(out, &format!("metric pdesc {}", node("pl", vec![show_pset(s, false)])));
            }
            out.nontrivial();
            out.count("propset-marker-table");
        }
        out.exhaustive.push("payload property sets: key count 0..=2 x value count 0..=2 x value present x is_null {absent,true,false} x type {absent,0,3,34,35,2^32-1} (648 combinations)".into());
    }
    for _ in 0..(if th { 40000 } else { 4000 }) {
        let u = random_ups(&mut rng, 3, out);
        let mut s = spec_encode_ups(&u);
        let k = rng.below(3);
        for _ in 0..k {
            mutate_pset(&mut s, &mut rng, out);
        }
        out.begin_case("metric new", "ok");
        line(out, &format!("metric pset {}", show_pset(&s, false)));
        line(out, &format!("metric pdesc {}", show_pset(&s, false)));
        if rng.chance(1, 2) {
            let u2 = random_ups(&mut rng, 2, out);
            let s2 = spec_encode_ups(&u2);
            line(out, &format!("metric pdesc {}", node("pl", vec![show_pset(&s, false), show_pset(&s2, false)])));
            line(out, &format!("metric pdesc {}", node("pl", vec![])));
        }
        if rng.chance(1, 8) {
            for sc in ["i5", "l7", "b1", "s6162", "d0", "f0"] {
                line(out, &format!("metric pdesc {}", sc));
            }
        }
        out.nontrivial();
        out.count("propset-random");
    }
    RULE
}

// =====================================================================================
// T-table `MetricTable`: decision tables enumerated through the compiled crates
// =====================================================================================
pub fn table_metric() -> String {
    let mut out = Out::new(&std::env::temp_dir().join(format!("srad-verif-table-{}", std::process::id())));
    let mut s = String::from("-- GENERATED by `srad-verif table MetricTable` from the compiled srad crates; do not edit.\nimport SradModel.Model.Metric\nnamespace Srad.Generated\nopen Srad.Metric\n\n");
    // host: markers of a payload metric -> what the host makes of it
    s.push_str("/-- (alias?, name?, timestamp?, value?, is_null, is_historical, is_transient, properties 0 absent / 1 well-formed / 2 count mismatch) ↦ outcome at the host (NDATA with that one metric) -/\ndef metricHostTable : List (Bool × Bool × Bool × Bool × Option Bool × Option Bool × Option Bool × Nat × HShape) := [\n");
    let mut rows = vec![];
    for (cols, q) in host_marker_rows() {
        let a = exec(&format!("metric host ND 1 1 {}", show_qms(std::slice::from_ref(&q))), &mut out);
        let shape = if let Some(c) = a.strip_prefix("err ") {
            format!("HShape.err MErr.{}", c)
        } else if let Some(rest) = a.strip_prefix("data 1 1 L(") {
            let t = parse_tree(&rest[..rest.len() - 1]).expect("entry");
            let lb = |b: bool| if b { "true" } else { "false" };
            format!(
                "HShape.ok {} {} {} {} {}",
                lb(t.kids[0].head.starts_with('A')),
                lb(t.kids[1].head == "_"),
                lb(t.kids[3].head == "t"),
                lb(t.kids[4].head == "t"),
                lb(t.kids[6].head != "_")
            )
        } else {
            format!("HShape.other -- {}", a)
        };
        rows.push(format!("  ({}, {})", cols.join(", "), shape));
    }
    s.push_str(&rows.join(",\n"));
    s.push_str("\n]\n\n");
    // edge: markers of a PublishMetric -> markers of the payload metric
    s.push_str("/-- (by alias?, value?, transient, historical, custom timestamp?, metadata?, properties?) ↦ markers of `Metric::from(PublishMetric)` (name?, alias?, timestamp?, datatype?, is_historical, is_transient, is_null, metadata?, properties?, value?) -/\ndef metricEdgeTable : List ((Bool × Bool × Option Bool × Option Bool × Bool × Bool × Bool) × EShape) := [\n");
    let ids = with_world(|w| w.token_ids("n"));
    let mut rows = vec![];
    for (cols, p) in edge_marker_rows(&ids) {
        let q = with_world(|w| w.edge(77, &p)).expect("edge conversion");
        let lb = |b: bool| if b { "true" } else { "false" }.to_string();
        let lo = |o: Option<bool>| match o {
            None => "none".to_string(),
            Some(b) => format!("some {}", if b { "true" } else { "false" }),
        };
        rows.push(format!(
            "  (({}), EShape.mk {} {} {} {} ({}) ({}) ({}) {} {} {})",
            cols.join(", "),
            lb(q.name.is_some()),
            lb(q.alias.is_some()),
            lb(q.ts.is_some()),
            lb(q.dt.is_some()),
            lo(q.hi),
            lo(q.tr),
            lo(q.nu),
            lb(q.meta.is_some()),
            lb(q.props.is_some()),
            lb(q.val.is_some())
        ));
    }
    s.push_str(&rows.join(",\n"));
    s.push_str("\n]\n\n");
    // property values
    s.push_str("/-- (number of keys, number of values, value present?, is_null, type code) ↦ outcome of converting the payload property set at the host; `ok n` = accepted as a map of n entries -/\ndef metricPropTable : List (Nat × Nat × Bool × Option Bool × Option Nat × PShape) := [\n");
    let mut rows = vec![];
    for (cols, ps) in prop_marker_rows() {
        let a = exec(&format!("metric pset {}", show_pset(&ps, false)), &mut out);
        let shape = if a == "err" {
            "PShape.err".to_string()
        } else if let Some(rest) = a.strip_prefix("ok ") {
            let t = parse_tree(rest).expect("set");
            let first = t.kids[1].kids.first();
            match first {
                None => "PShape.ok 0 false none".to_string(),
                Some(p) => format!(
                    "PShape.ok {} {} {}",
                    t.kids[0].kids.len(),
                    if p.kids[2].head == "_" { "true" } else { "false" },
                    if p.kids[0].head == "_" { "none".to_string() } else { format!("(some {})", p.kids[0].head) }
                ),
            }
        } else {
            format!("PShape.other -- {}", a)
        };
        rows.push(format!("  ({}, {})", cols.join(", "), shape));
    }
    s.push_str(&rows.join(",\n"));
    s.push_str("\n]\n\n");
    // quality codes
    s.push_str("/-- (i32 bit pattern of an Int32 property value, the quality `Quality::try_from(PropertyValue)` reads from it as its code; the three qualities written by `new_with_quality` first) -/\ndef metricQualityTable : List (Nat × Option Nat) := [\n");
    let mut rows = vec![];
    for q in [Quality::Good, Quality::Bad, Quality::Stale] {
        // what `new_with_quality` writes, read back through the public conversions
        let ps: payload::PropertySet = PropertySet::new_with_quality(q).into();
        let code = match ps.values.first().and_then(|v| v.value.clone()) {
            Some(property_value::Value::IntValue(c)) if ps.keys == vec!["Quality".to_string()] && ps.values[0].r#type == Some(3) => c,
            _ => 999_999,
        };
        let back = Quality::try_from(PropertyValue(property_value::Value::IntValue(code))).ok().map(|q| q as i32 as u32);
        rows.push(format!("  ({}, {})", code, match back { Some(c) => format!("some {}", c), None => "none".into() }));
    }
    for code in [1u32, 191, 193, 499, 501, 0x7FFF_FFFF, 0x8000_0000, u32::MAX] {
        let back = Quality::try_from(PropertyValue(property_value::Value::IntValue(code))).ok().map(|q| q as i32 as u32);
        rows.push(format!("  ({}, {})", code, match back { Some(c) => format!("some {}", c), None => "none".into() }));
    }
    s.push_str(&rows.join(",\n"));
    s.push_str("\n]\n\nend Srad.Generated\n");
    let _ = std::fs::remove_dir_all(std::env::temp_dir().join(format!("srad-verif-table-{}", std::process::id())));
    s
}
