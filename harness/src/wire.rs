//! Component `wire` (M13, supports C12/C13/C08): the protobuf wire codec that `prost` 0.13
//! generates for the Sparkplug B schema, through `Message::encode_to_vec` / `Message::decode`
//! of the real `srad_types::payload` types. Ops (one per line):
//!   wire new
//!   wire enc <Msg> <tree>      struct built from the tree -> encode_to_vec -> hex
//!   wire dec <Msg> <hex>       decode -> `ok <tree>` | `err` (| `panic`)
//!   wire varint <n>            prost::encoding::encode_varint
//!   wire unvarint <hex>        prost::encoding::decode_varint -> `ok <n> <bytes left>` | `err`
//!   wire key <tag> <wt>        prost::encoding::encode_key
//!   wire unkey <hex>           prost::encoding::decode_key -> `ok <tag> <wt> <bytes left>` | `err`
//! Tree syntax (no blanks): `u<dec>` number (uint32/uint64; float/double as IEEE bits), `b0`/`b1`,
//! `x<hex>` string or bytes (`x-` empty), `(<tag>:<tree>,...)` message records in struct-field
//! order (repeated fields expanded, absent options / empty vectors not printed), `()` empty.
use crate::common::*;
use prost::Message;
use srad_types::payload::{
    data_set, data_set::data_set_value, metric, property_value, template, template::parameter,
    DataSet, MetaData, Metric, Payload, PropertySet, PropertySetList, PropertyValue, Template,
};

pub const RULE: &str = "non-trivial = a case that encodes or decodes a message with at least one nested message, or a malformed / reordered / truncated input, or a boundary number";

// ---------------------------------------------------------------------------------------------
// trees
// ---------------------------------------------------------------------------------------------

/// A value tree. `U/B/X/M` are what the text syntax can say; `F4/F8` are numbers that travel
/// as fixed width (printed as `u<bits>`); the remaining variants exist only for the
/// hand-written encoder of malformed / unusual inputs.
#[derive(Clone, Debug, PartialEq)]
pub enum T {
    U(u64),
    F4(u32),
    F8(u64),
    B(bool),
    X(Vec<u8>),
    M(Vec<(u32, T)>),
    /// varint with `pad` superfluous continuation bytes (over-long encoding)
    UL(u64, u8),
    /// unknown-field group: StartGroup, records, EndGroup(end_tag)
    Group(Vec<(u32, T)>, u32),
    /// packed encoding of the leaves
    Packed(Vec<T>),
    /// key with the given wire type followed by raw bytes
    Raw(u8, Vec<u8>),
    /// raw bytes without key (tag ignored)
    Bare(Vec<u8>),
}

pub fn show_t(t: &T, s: &mut String) {
    match t {
        T::U(v) => {
            s.push('u');
            s.push_str(&v.to_string())
        }
        T::F4(v) => {
            s.push('u');
            s.push_str(&v.to_string())
        }
        T::F8(v) => {
            s.push('u');
            s.push_str(&v.to_string())
        }
        T::B(b) => s.push_str(if *b { "b1" } else { "b0" }),
        T::X(b) => {
            s.push('x');
            s.push_str(&hex(b))
        }
        T::M(rs) => {
            s.push('(');
            for (i, (tag, v)) in rs.iter().enumerate() {
                if i > 0 {
                    s.push(',');
                }
                s.push_str(&tag.to_string());
                s.push(':');
                show_t(v, s);
            }
            s.push(')');
        }
        _ => s.push('?'),
    }
}
pub fn show(t: &T) -> String {
    let mut s = String::new();
    show_t(t, &mut s);
    s
}

fn parse_t(c: &[u8], i: &mut usize) -> Option<T> {
    match *c.get(*i)? {
        b'u' => {
            *i += 1;
            let st = *i;
            while *i < c.len() && c[*i].is_ascii_digit() {
                *i += 1;
            }
            std::str::from_utf8(&c[st..*i]).ok()?.parse::<u64>().ok().map(T::U)
        }
        b'b' => {
            *i += 2;
            match *c.get(*i - 1)? {
                b'0' => Some(T::B(false)),
                b'1' => Some(T::B(true)),
                _ => None,
            }
        }
        b'x' => {
            *i += 1;
            if c.get(*i) == Some(&b'-') {
                *i += 1;
                return Some(T::X(vec![]));
            }
            let st = *i;
            while *i < c.len() && (c[*i].is_ascii_digit() || (b'a'..=b'f').contains(&c[*i])) {
                *i += 1;
            }
            if *i == st || (*i - st) % 2 != 0 {
                return None;
            }
            Some(T::X(unhex(std::str::from_utf8(&c[st..*i]).ok()?)))
        }
        b'(' => {
            *i += 1;
            let mut rs = vec![];
            if c.get(*i) == Some(&b')') {
                *i += 1;
                return Some(T::M(rs));
            }
            loop {
                let st = *i;
                while *i < c.len() && c[*i].is_ascii_digit() {
                    *i += 1;
                }
                let tag = std::str::from_utf8(&c[st..*i]).ok()?.parse::<u32>().ok()?;
                if c.get(*i) != Some(&b':') {
                    return None;
                }
                *i += 1;
                let v = parse_t(c, i)?;
                rs.push((tag, v));
                match *c.get(*i)? {
                    b',' => *i += 1,
                    b')' => {
                        *i += 1;
                        return Some(T::M(rs));
                    }
                    _ => return None,
                }
            }
        }
        _ => None,
    }
}
pub fn parse_tree(s: &str) -> Option<T> {
    let c = s.as_bytes();
    let mut i = 0;
    let t = parse_t(c, &mut i)?;
    if i == c.len() {
        Some(t)
    } else {
        None
    }
}

pub fn depth_of(t: &T) -> usize {
    match t {
        T::M(rs) => 1 + rs.iter().map(|(_, v)| depth_of(v)).max().unwrap_or(0),
        _ => 0,
    }
}

// ---------------------------------------------------------------------------------------------
// the hand-written encoder (independent of prost)
// ---------------------------------------------------------------------------------------------

pub fn put_varint(mut v: u64, out: &mut Vec<u8>) {
    while v >= 0x80 {
        out.push((v as u8 & 0x7f) | 0x80);
        v >>= 7;
    }
    out.push(v as u8);
}
fn put_varint_long(v: u64, pad: u8, out: &mut Vec<u8>) {
    let mut tmp = vec![];
    put_varint(v, &mut tmp);
    if pad > 0 {
        let n = tmp.len();
        tmp[n - 1] |= 0x80;
        for _ in 1..pad {
            tmp.push(0x80);
        }
        tmp.push(0x00);
    }
    out.extend_from_slice(&tmp);
}
fn put_key(tag: u32, wt: u8, out: &mut Vec<u8>) {
    put_varint(((tag as u64) << 3) | wt as u64, out);
}
/// the bytes of a leaf without key (for packed encoding)
fn put_bare(t: &T, out: &mut Vec<u8>) {
    match t {
        T::U(v) => put_varint(*v, out),
        T::UL(v, p) => put_varint_long(*v, *p, out),
        T::B(b) => put_varint(*b as u64, out),
        T::F4(v) => out.extend_from_slice(&v.to_le_bytes()),
        T::F8(v) => out.extend_from_slice(&v.to_le_bytes()),
        T::X(b) => {
            put_varint(b.len() as u64, out);
            out.extend_from_slice(b)
        }
        T::M(rs) => {
            let mut body = vec![];
            enc_recs(rs, &mut body);
            put_varint(body.len() as u64, out);
            out.extend_from_slice(&body)
        }
        T::Raw(_, b) | T::Bare(b) => out.extend_from_slice(b),
        T::Packed(items) => {
            let mut body = vec![];
            for x in items {
                put_bare(x, &mut body);
            }
            put_varint(body.len() as u64, out);
            out.extend_from_slice(&body)
        }
        T::Group(rs, end) => {
            enc_recs(rs, out);
            put_key(*end, 4, out)
        }
    }
}
pub fn enc_rec(tag: u32, t: &T, out: &mut Vec<u8>) {
    let wt = match t {
        T::U(_) | T::UL(..) | T::B(_) => 0,
        T::F8(_) => 1,
        T::X(_) | T::M(_) | T::Packed(_) => 2,
        T::Group(..) => 3,
        T::F4(_) => 5,
        T::Raw(w, _) => *w,
        T::Bare(_) => 255,
    };
    if wt != 255 {
        put_key(tag, wt, out);
    }
    put_bare(t, out);
}
pub fn enc_recs(rs: &[(u32, T)], out: &mut Vec<u8>) {
    for (tag, t) in rs {
        enc_rec(*tag, t, out);
    }
}

// ---------------------------------------------------------------------------------------------
// real structs <-> trees
// ---------------------------------------------------------------------------------------------

pub trait TreeMsg: Message + Default + Sized {
    const NAME: &'static str;
    fn recs(&self) -> Vec<(u32, T)>;
    /// lenient builder (last one wins, repeated pushed); `None` on an unknown tag / wrong leaf
    fn build(rs: &[(u32, T)]) -> Option<Self>;
    fn tree(&self) -> T {
        T::M(self.recs())
    }
}

fn g_u64(t: &T) -> Option<u64> {
    if let T::U(v) = t {
        Some(*v)
    } else {
        None
    }
}
fn g_u32(t: &T) -> Option<u32> {
    g_u64(t).and_then(|v| u32::try_from(v).ok())
}
fn g_f32(t: &T) -> Option<f32> {
    g_u32(t).map(f32::from_bits)
}
fn g_f64(t: &T) -> Option<f64> {
    g_u64(t).map(f64::from_bits)
}
fn g_bool(t: &T) -> Option<bool> {
    if let T::B(v) = t {
        Some(*v)
    } else {
        None
    }
}
fn g_bytes(t: &T) -> Option<Vec<u8>> {
    if let T::X(v) = t {
        Some(v.clone())
    } else {
        None
    }
}
fn g_str(t: &T) -> Option<String> {
    g_bytes(t).and_then(|b| String::from_utf8(b).ok())
}
fn g_msg<M: TreeMsg>(t: &T) -> Option<M> {
    if let T::M(rs) = t {
        M::build(rs)
    } else {
        None
    }
}
fn s_str(s: &str) -> T {
    T::X(s.as_bytes().to_vec())
}

macro_rules! empty_msg {
    ($ty:ty, $name:expr) => {
        impl TreeMsg for $ty {
            const NAME: &'static str = $name;
            fn recs(&self) -> Vec<(u32, T)> {
                vec![]
            }
            fn build(rs: &[(u32, T)]) -> Option<Self> {
                if rs.is_empty() {
                    Some(Self::default())
                } else {
                    None
                }
            }
        }
    };
}
empty_msg!(metric::MetricValueExtension, "MetricValueExtension");
empty_msg!(property_value::PropertyValueExtension, "PropertyValueExtension");
empty_msg!(data_set_value::DataSetValueExtension, "DataSetValueExtension");
empty_msg!(parameter::ParameterValueExtension, "ParameterValueExtension");

impl TreeMsg for Payload {
    const NAME: &'static str = "Payload";
    fn recs(&self) -> Vec<(u32, T)> {
        let mut r = vec![];
        if let Some(v) = self.timestamp {
            r.push((1, T::U(v)));
        }
        for m in &self.metrics {
            r.push((2, m.tree()));
        }
        if let Some(v) = self.seq {
            r.push((3, T::U(v)));
        }
        if let Some(v) = &self.uuid {
            r.push((4, s_str(v)));
        }
        if let Some(v) = &self.body {
            r.push((5, T::X(v.clone())));
        }
        r
    }
    fn build(rs: &[(u32, T)]) -> Option<Self> {
        let mut p = Payload::default();
        for (tag, t) in rs {
            match tag {
                1 => p.timestamp = Some(g_u64(t)?),
                2 => p.metrics.push(g_msg(t)?),
                3 => p.seq = Some(g_u64(t)?),
                4 => p.uuid = Some(g_str(t)?),
                5 => p.body = Some(g_bytes(t)?),
                _ => return None,
            }
        }
        Some(p)
    }
}

impl TreeMsg for Metric {
    const NAME: &'static str = "Metric";
    fn recs(&self) -> Vec<(u32, T)> {
        let mut r = vec![];
        if let Some(v) = &self.name {
            r.push((1, s_str(v)));
        }
        if let Some(v) = self.alias {
            r.push((2, T::U(v)));
        }
        if let Some(v) = self.timestamp {
            r.push((3, T::U(v)));
        }
        if let Some(v) = self.datatype {
            r.push((4, T::U(v as u64)));
        }
        if let Some(v) = self.is_historical {
            r.push((5, T::B(v)));
        }
        if let Some(v) = self.is_transient {
            r.push((6, T::B(v)));
        }
        if let Some(v) = self.is_null {
            r.push((7, T::B(v)));
        }
        if let Some(v) = &self.metadata {
            r.push((8, v.tree()));
        }
        if let Some(v) = &self.properties {
            r.push((9, v.tree()));
        }
        if let Some(v) = &self.value {
            r.push(match v {
                metric::Value::IntValue(x) => (10, T::U(*x as u64)),
                metric::Value::LongValue(x) => (11, T::U(*x)),
                metric::Value::FloatValue(x) => (12, T::F4(x.to_bits())),
                metric::Value::DoubleValue(x) => (13, T::F8(x.to_bits())),
                metric::Value::BooleanValue(x) => (14, T::B(*x)),
                metric::Value::StringValue(x) => (15, s_str(x)),
                metric::Value::BytesValue(x) => (16, T::X(x.clone())),
                metric::Value::DatasetValue(x) => (17, x.tree()),
                metric::Value::TemplateValue(x) => (18, x.tree()),
                metric::Value::ExtensionValue(x) => (19, x.tree()),
            });
        }
        r
    }
    fn build(rs: &[(u32, T)]) -> Option<Self> {
        let mut p = Metric::default();
        for (tag, t) in rs {
            match tag {
                1 => p.name = Some(g_str(t)?),
                2 => p.alias = Some(g_u64(t)?),
                3 => p.timestamp = Some(g_u64(t)?),
                4 => p.datatype = Some(g_u32(t)?),
                5 => p.is_historical = Some(g_bool(t)?),
                6 => p.is_transient = Some(g_bool(t)?),
                7 => p.is_null = Some(g_bool(t)?),
                8 => p.metadata = Some(g_msg(t)?),
                9 => p.properties = Some(g_msg(t)?),
                10 => p.value = Some(metric::Value::IntValue(g_u32(t)?)),
                11 => p.value = Some(metric::Value::LongValue(g_u64(t)?)),
                12 => p.value = Some(metric::Value::FloatValue(g_f32(t)?)),
                13 => p.value = Some(metric::Value::DoubleValue(g_f64(t)?)),
                14 => p.value = Some(metric::Value::BooleanValue(g_bool(t)?)),
                15 => p.value = Some(metric::Value::StringValue(g_str(t)?)),
                16 => p.value = Some(metric::Value::BytesValue(g_bytes(t)?)),
                17 => p.value = Some(metric::Value::DatasetValue(g_msg(t)?)),
                18 => p.value = Some(metric::Value::TemplateValue(g_msg(t)?)),
                19 => p.value = Some(metric::Value::ExtensionValue(g_msg(t)?)),
                _ => return None,
            }
        }
        Some(p)
    }
}

impl TreeMsg for MetaData {
    const NAME: &'static str = "MetaData";
    fn recs(&self) -> Vec<(u32, T)> {
        let mut r = vec![];
        if let Some(v) = self.is_multi_part {
            r.push((1, T::B(v)));
        }
        if let Some(v) = &self.content_type {
            r.push((2, s_str(v)));
        }
        if let Some(v) = self.size {
            r.push((3, T::U(v)));
        }
        if let Some(v) = self.seq {
            r.push((4, T::U(v)));
        }
        if let Some(v) = &self.file_name {
            r.push((5, s_str(v)));
        }
        if let Some(v) = &self.file_type {
            r.push((6, s_str(v)));
        }
        if let Some(v) = &self.md5 {
            r.push((7, s_str(v)));
        }
        if let Some(v) = &self.description {
            r.push((8, s_str(v)));
        }
        r
    }
    fn build(rs: &[(u32, T)]) -> Option<Self> {
        let mut p = MetaData::default();
        for (tag, t) in rs {
            match tag {
                1 => p.is_multi_part = Some(g_bool(t)?),
                2 => p.content_type = Some(g_str(t)?),
                3 => p.size = Some(g_u64(t)?),
                4 => p.seq = Some(g_u64(t)?),
                5 => p.file_name = Some(g_str(t)?),
                6 => p.file_type = Some(g_str(t)?),
                7 => p.md5 = Some(g_str(t)?),
                8 => p.description = Some(g_str(t)?),
                _ => return None,
            }
        }
        Some(p)
    }
}

impl TreeMsg for PropertySet {
    const NAME: &'static str = "PropertySet";
    fn recs(&self) -> Vec<(u32, T)> {
        let mut r = vec![];
        for k in &self.keys {
            r.push((1, s_str(k)));
        }
        for v in &self.values {
            r.push((2, v.tree()));
        }
        r
    }
    fn build(rs: &[(u32, T)]) -> Option<Self> {
        let mut p = PropertySet::default();
        for (tag, t) in rs {
            match tag {
                1 => p.keys.push(g_str(t)?),
                2 => p.values.push(g_msg(t)?),
                _ => return None,
            }
        }
        Some(p)
    }
}

impl TreeMsg for PropertySetList {
    const NAME: &'static str = "PropertySetList";
    fn recs(&self) -> Vec<(u32, T)> {
        self.propertyset.iter().map(|x| (1, x.tree())).collect()
    }
    fn build(rs: &[(u32, T)]) -> Option<Self> {
        let mut p = PropertySetList::default();
        for (tag, t) in rs {
            match tag {
                1 => p.propertyset.push(g_msg(t)?),
                _ => return None,
            }
        }
        Some(p)
    }
}

impl TreeMsg for PropertyValue {
    const NAME: &'static str = "PropertyValue";
    fn recs(&self) -> Vec<(u32, T)> {
        let mut r = vec![];
        if let Some(v) = self.r#type {
            r.push((1, T::U(v as u64)));
        }
        if let Some(v) = self.is_null {
            r.push((2, T::B(v)));
        }
        if let Some(v) = &self.value {
            use property_value::Value as V;
            r.push(match v {
                V::IntValue(x) => (3, T::U(*x as u64)),
                V::LongValue(x) => (4, T::U(*x)),
                V::FloatValue(x) => (5, T::F4(x.to_bits())),
                V::DoubleValue(x) => (6, T::F8(x.to_bits())),
                V::BooleanValue(x) => (7, T::B(*x)),
                V::StringValue(x) => (8, s_str(x)),
                V::PropertysetValue(x) => (9, x.tree()),
                V::PropertysetsValue(x) => (10, x.tree()),
                V::ExtensionValue(x) => (11, x.tree()),
            });
        }
        r
    }
    fn build(rs: &[(u32, T)]) -> Option<Self> {
        use property_value::Value as V;
        let mut p = PropertyValue::default();
        for (tag, t) in rs {
            match tag {
                1 => p.r#type = Some(g_u32(t)?),
                2 => p.is_null = Some(g_bool(t)?),
                3 => p.value = Some(V::IntValue(g_u32(t)?)),
                4 => p.value = Some(V::LongValue(g_u64(t)?)),
                5 => p.value = Some(V::FloatValue(g_f32(t)?)),
                6 => p.value = Some(V::DoubleValue(g_f64(t)?)),
                7 => p.value = Some(V::BooleanValue(g_bool(t)?)),
                8 => p.value = Some(V::StringValue(g_str(t)?)),
                9 => p.value = Some(V::PropertysetValue(g_msg(t)?)),
                10 => p.value = Some(V::PropertysetsValue(g_msg(t)?)),
                11 => p.value = Some(V::ExtensionValue(g_msg(t)?)),
                _ => return None,
            }
        }
        Some(p)
    }
}

impl TreeMsg for DataSet {
    const NAME: &'static str = "DataSet";
    fn recs(&self) -> Vec<(u32, T)> {
        let mut r = vec![];
        if let Some(v) = self.num_of_columns {
            r.push((1, T::U(v)));
        }
        for c in &self.columns {
            r.push((2, s_str(c)));
        }
        for t in &self.types {
            r.push((3, T::U(*t as u64)));
        }
        for x in &self.rows {
            r.push((4, x.tree()));
        }
        r
    }
    fn build(rs: &[(u32, T)]) -> Option<Self> {
        let mut p = DataSet::default();
        for (tag, t) in rs {
            match tag {
                1 => p.num_of_columns = Some(g_u64(t)?),
                2 => p.columns.push(g_str(t)?),
                3 => p.types.push(g_u32(t)?),
                4 => p.rows.push(g_msg(t)?),
                _ => return None,
            }
        }
        Some(p)
    }
}

impl TreeMsg for data_set::Row {
    const NAME: &'static str = "Row";
    fn recs(&self) -> Vec<(u32, T)> {
        self.elements.iter().map(|x| (1, x.tree())).collect()
    }
    fn build(rs: &[(u32, T)]) -> Option<Self> {
        let mut p = data_set::Row::default();
        for (tag, t) in rs {
            match tag {
                1 => p.elements.push(g_msg(t)?),
                _ => return None,
            }
        }
        Some(p)
    }
}

impl TreeMsg for data_set::DataSetValue {
    const NAME: &'static str = "DataSetValue";
    fn recs(&self) -> Vec<(u32, T)> {
        use data_set_value::Value as V;
        let mut r = vec![];
        if let Some(v) = &self.value {
            r.push(match v {
                V::IntValue(x) => (1, T::U(*x as u64)),
                V::LongValue(x) => (2, T::U(*x)),
                V::FloatValue(x) => (3, T::F4(x.to_bits())),
                V::DoubleValue(x) => (4, T::F8(x.to_bits())),
                V::BooleanValue(x) => (5, T::B(*x)),
                V::StringValue(x) => (6, s_str(x)),
                V::ExtensionValue(x) => (7, x.tree()),
            });
        }
        r
    }
    fn build(rs: &[(u32, T)]) -> Option<Self> {
        use data_set_value::Value as V;
        let mut p = data_set::DataSetValue::default();
        for (tag, t) in rs {
            match tag {
                1 => p.value = Some(V::IntValue(g_u32(t)?)),
                2 => p.value = Some(V::LongValue(g_u64(t)?)),
                3 => p.value = Some(V::FloatValue(g_f32(t)?)),
                4 => p.value = Some(V::DoubleValue(g_f64(t)?)),
                5 => p.value = Some(V::BooleanValue(g_bool(t)?)),
                6 => p.value = Some(V::StringValue(g_str(t)?)),
                7 => p.value = Some(V::ExtensionValue(g_msg(t)?)),
                _ => return None,
            }
        }
        Some(p)
    }
}

impl TreeMsg for Template {
    const NAME: &'static str = "Template";
    fn recs(&self) -> Vec<(u32, T)> {
        let mut r = vec![];
        if let Some(v) = &self.version {
            r.push((1, s_str(v)));
        }
        for m in &self.metrics {
            r.push((2, m.tree()));
        }
        for m in &self.parameters {
            r.push((3, m.tree()));
        }
        if let Some(v) = &self.template_ref {
            r.push((4, s_str(v)));
        }
        if let Some(v) = self.is_definition {
            r.push((5, T::B(v)));
        }
        r
    }
    fn build(rs: &[(u32, T)]) -> Option<Self> {
        let mut p = Template::default();
        for (tag, t) in rs {
            match tag {
                1 => p.version = Some(g_str(t)?),
                2 => p.metrics.push(g_msg(t)?),
                3 => p.parameters.push(g_msg(t)?),
                4 => p.template_ref = Some(g_str(t)?),
                5 => p.is_definition = Some(g_bool(t)?),
                _ => return None,
            }
        }
        Some(p)
    }
}

impl TreeMsg for template::Parameter {
    const NAME: &'static str = "Parameter";
    fn recs(&self) -> Vec<(u32, T)> {
        use parameter::Value as V;
        let mut r = vec![];
        if let Some(v) = &self.name {
            r.push((1, s_str(v)));
        }
        if let Some(v) = self.r#type {
            r.push((2, T::U(v as u64)));
        }
        if let Some(v) = &self.value {
            r.push(match v {
                V::IntValue(x) => (3, T::U(*x as u64)),
                V::LongValue(x) => (4, T::U(*x)),
                V::FloatValue(x) => (5, T::F4(x.to_bits())),
                V::DoubleValue(x) => (6, T::F8(x.to_bits())),
                V::BooleanValue(x) => (7, T::B(*x)),
                V::StringValue(x) => (8, s_str(x)),
                V::ExtensionValue(x) => (9, x.tree()),
            });
        }
        r
    }
    fn build(rs: &[(u32, T)]) -> Option<Self> {
        use parameter::Value as V;
        let mut p = template::Parameter::default();
        for (tag, t) in rs {
            match tag {
                1 => p.name = Some(g_str(t)?),
                2 => p.r#type = Some(g_u32(t)?),
                3 => p.value = Some(V::IntValue(g_u32(t)?)),
                4 => p.value = Some(V::LongValue(g_u64(t)?)),
                5 => p.value = Some(V::FloatValue(g_f32(t)?)),
                6 => p.value = Some(V::DoubleValue(g_f64(t)?)),
                7 => p.value = Some(V::BooleanValue(g_bool(t)?)),
                8 => p.value = Some(V::StringValue(g_str(t)?)),
                9 => p.value = Some(V::ExtensionValue(g_msg(t)?)),
                _ => return None,
            }
        }
        Some(p)
    }
}

pub const MSGS: [&str; 15] = [
    "Payload",
    "Metric",
    "MetaData",
    "PropertySet",
    "PropertySetList",
    "PropertyValue",
    "DataSet",
    "Row",
    "DataSetValue",
    "Template",
    "Parameter",
    "MetricValueExtension",
    "PropertyValueExtension",
    "DataSetValueExtension",
    "ParameterValueExtension",
];

macro_rules! dispatch {
    ($name:expr, $f:ident, $($arg:expr),*) => {
        match $name {
            "Payload" => $f::<Payload>($($arg),*),
            "Metric" => $f::<Metric>($($arg),*),
            "MetaData" => $f::<MetaData>($($arg),*),
            "PropertySet" => $f::<PropertySet>($($arg),*),
            "PropertySetList" => $f::<PropertySetList>($($arg),*),
            "PropertyValue" => $f::<PropertyValue>($($arg),*),
            "DataSet" => $f::<DataSet>($($arg),*),
            "Row" => $f::<data_set::Row>($($arg),*),
            "DataSetValue" => $f::<data_set::DataSetValue>($($arg),*),
            "Template" => $f::<Template>($($arg),*),
            "Parameter" => $f::<template::Parameter>($($arg),*),
            "MetricValueExtension" => $f::<metric::MetricValueExtension>($($arg),*),
            "PropertyValueExtension" => $f::<property_value::PropertyValueExtension>($($arg),*),
            "DataSetValueExtension" => $f::<data_set_value::DataSetValueExtension>($($arg),*),
            "ParameterValueExtension" => $f::<parameter::ParameterValueExtension>($($arg),*),
            _ => "bad-op".to_string(),
        }
    };
}

/// outcome of encoding a tree with the real code
pub struct EncOut {
    pub answer: String,
    pub bytes: Option<Vec<u8>>,
    /// `encoded_len()` agreed with the bytes written
    pub len_ok: bool,
}

fn enc_real<M: TreeMsg + std::panic::RefUnwindSafe>(tree: &T) -> EncOut {
    let rs = match tree {
        T::M(rs) => rs,
        _ => return EncOut { answer: "bad-op".into(), bytes: None, len_ok: true },
    };
    let m = match M::build(rs) {
        Some(m) => m,
        None => return EncOut { answer: "bad-op".into(), bytes: None, len_ok: true },
    };
    // only canonical trees are requests (the struct prints back to the same tree)
    if show(&m.tree()) != show(tree) {
        return EncOut { answer: "bad-op".into(), bytes: None, len_ok: true };
    }
    match catch(|| (m.encode_to_vec(), m.encoded_len())) {
        Ok((b, l)) => EncOut { answer: hex(&b), len_ok: l == b.len(), bytes: Some(b) },
        Err(_) => EncOut { answer: "panic".into(), bytes: None, len_ok: true },
    }
}
fn enc_answer<M: TreeMsg + std::panic::RefUnwindSafe>(tree: &T) -> String {
    enc_real::<M>(tree).answer
}

/// `Ok(tree)` / `Err("err" | "panic")`
fn dec_real<M: TreeMsg>(bytes: &[u8]) -> Result<T, &'static str> {
    match catch(|| M::decode(bytes)) {
        Ok(Ok(m)) => Ok(m.tree()),
        Ok(Err(_)) => Err("err"),
        Err(_) => Err("panic"),
    }
}
fn dec_answer<M: TreeMsg>(bytes: &[u8]) -> String {
    match dec_real::<M>(bytes) {
        Ok(t) => format!("ok {}", show(&t)),
        Err(e) => e.to_string(),
    }
}

fn is_hex(s: &str) -> bool {
    s == "-" || (!s.is_empty() && s.len() % 2 == 0 && s.bytes().all(|c| c.is_ascii_digit() || (b'a'..=b'f').contains(&c)))
}

/// Execute ONE request line on the real code.
pub fn exec(op: &str) -> String {
    let _crumb = crate::common::crumb::guard(op);
    let w: Vec<&str> = op.split(' ').filter(|x| !x.is_empty()).collect();
    match w.as_slice() {
        ["wire", "new"] => "ok".into(),
        ["wire", "enc", m, tree] => match parse_tree(tree) {
            Some(t) => dispatch!(*m, enc_answer, &t),
            None => "bad-op".into(),
        },
        ["wire", "dec", m, hx] => {
            if !is_hex(hx) {
                return "bad-op".into();
            }
            let b = unhex(hx);
            dispatch!(*m, dec_answer, &b)
        }
        ["wire", "varint", n] => match n.parse::<u64>() {
            Ok(n) => {
                let mut b = vec![];
                match catch(move || {
                    prost::encoding::encode_varint(n, &mut b);
                    b
                }) {
                    Ok(b) => hex(&b),
                    Err(_) => "panic".into(),
                }
            }
            Err(_) => "bad-op".into(),
        },
        ["wire", "unvarint", hx] => {
            if !is_hex(hx) {
                return "bad-op".into();
            }
            let b = unhex(hx);
            match catch(|| {
                let mut s: &[u8] = &b;
                prost::encoding::decode_varint(&mut s).map(|v| (v, s.len()))
            }) {
                Ok(Ok((v, l))) => format!("ok {} {}", v, l),
                Ok(Err(_)) => "err".into(),
                Err(_) => "panic".into(),
            }
        }
        ["wire", "key", t, wt] => match (t.parse::<u32>(), wt.parse::<u64>()) {
            (Ok(t), Ok(wt)) if (1..(1u32 << 29)).contains(&t) && wt <= 5 => {
                match catch(move || {
                    let mut b = vec![];
                    let w = prost::encoding::WireType::try_from(wt).unwrap();
                    prost::encoding::encode_key(t, w, &mut b);
                    b
                }) {
                    Ok(b) => hex(&b),
                    Err(_) => "panic".into(),
                }
            }
            _ => "bad-op".into(),
        },
        ["wire", "unkey", hx] => {
            if !is_hex(hx) {
                return "bad-op".into();
            }
            let b = unhex(hx);
            match catch(|| {
                let mut s: &[u8] = &b;
                prost::encoding::decode_key(&mut s).map(|(t, w)| (t, w as u8, s.len()))
            }) {
                Ok(Ok((t, w, l))) => format!("ok {} {} {}", t, w, l),
                Ok(Err(_)) => "err".into(),
                Err(_) => "panic".into(),
            }
        }
        _ => "bad-op".into(),
    }
}

pub fn replay(_desc: &str, ops: &[String], out: &mut Out) {
    let mut first = true;
    for op in ops {
        let a = exec(op);
        if a == "panic" {
            out.fail("M13:no-panic", "replay", op.chars().take(300).collect());
        }
        if first || op == "wire new" {
            out.begin_case(op, &a);
            first = false;
        } else {
            out.line(op, &a);
        }
        if let Some(rest) = op.strip_prefix("wire enc ") {
            // oracle on replayed encodings as well
            let w: Vec<&str> = rest.split(' ').collect();
            if w.len() == 2 {
                if let Some(t) = parse_tree(w[1]) {
                    check_enc(w[0], &t, out, "replay");
                }
            }
        }
    }
}

// ---------------------------------------------------------------------------------------------
// harness-side schema table (second, independent transcription; drives the generators)
// ---------------------------------------------------------------------------------------------

#[derive(Clone, Copy, Debug, PartialEq)]
pub enum Ty {
    U32,
    U64,
    Bool,
    Str,
    Bytes,
    F32,
    F64,
    Msg(&'static str),
}
#[derive(Clone, Copy, Debug)]
pub enum Ent {
    Opt(u32, Ty),
    Rep(u32, Ty),
    One(&'static [(u32, Ty)]),
}
use Ent::*;
use Ty::*;

pub fn schema(m: &str) -> &'static [Ent] {
    match m {
        "Payload" => &[Opt(1, U64), Rep(2, Msg("Metric")), Opt(3, U64), Opt(4, Str), Opt(5, Bytes)],
        "Metric" => &[
            Opt(1, Str),
            Opt(2, U64),
            Opt(3, U64),
            Opt(4, U32),
            Opt(5, Bool),
            Opt(6, Bool),
            Opt(7, Bool),
            Opt(8, Msg("MetaData")),
            Opt(9, Msg("PropertySet")),
            One(&[
                (10, U32),
                (11, U64),
                (12, F32),
                (13, F64),
                (14, Bool),
                (15, Str),
                (16, Bytes),
                (17, Msg("DataSet")),
                (18, Msg("Template")),
                (19, Msg("MetricValueExtension")),
            ]),
        ],
        "MetaData" => &[
            Opt(1, Bool),
            Opt(2, Str),
            Opt(3, U64),
            Opt(4, U64),
            Opt(5, Str),
            Opt(6, Str),
            Opt(7, Str),
            Opt(8, Str),
        ],
        "PropertySet" => &[Rep(1, Str), Rep(2, Msg("PropertyValue"))],
        "PropertySetList" => &[Rep(1, Msg("PropertySet"))],
        "PropertyValue" => &[
            Opt(1, U32),
            Opt(2, Bool),
            One(&[
                (3, U32),
                (4, U64),
                (5, F32),
                (6, F64),
                (7, Bool),
                (8, Str),
                (9, Msg("PropertySet")),
                (10, Msg("PropertySetList")),
                (11, Msg("PropertyValueExtension")),
            ]),
        ],
        "DataSet" => &[Opt(1, U64), Rep(2, Str), Rep(3, U32), Rep(4, Msg("Row"))],
        "Row" => &[Rep(1, Msg("DataSetValue"))],
        "DataSetValue" => &[One(&[
            (1, U32),
            (2, U64),
            (3, F32),
            (4, F64),
            (5, Bool),
            (6, Str),
            (7, Msg("DataSetValueExtension")),
        ])],
        "Template" => &[
            Opt(1, Str),
            Rep(2, Msg("Metric")),
            Rep(3, Msg("Parameter")),
            Opt(4, Str),
            Opt(5, Bool),
        ],
        "Parameter" => &[
            Opt(1, Str),
            Opt(2, U32),
            One(&[
                (3, U32),
                (4, U64),
                (5, F32),
                (6, F64),
                (7, Bool),
                (8, Str),
                (9, Msg("ParameterValueExtension")),
            ]),
        ],
        _ => &[],
    }
}

const B64: [u64; 22] = [
    0,
    1,
    2,
    127,
    128,
    255,
    256,
    16383,
    16384,
    2097151,
    2097152,
    (1 << 31) - 1,
    1 << 31,
    (1 << 32) - 1,
    1 << 32,
    (1 << 35) - 1,
    1 << 35,
    (1 << 56) - 1,
    1 << 56,
    (1 << 63) - 1,
    1 << 63,
    u64::MAX,
];
const B32: [u32; 12] = [0, 1, 127, 128, 255, 16383, 16384, 2097151, 2097152, 1 << 31, u32::MAX - 1, u32::MAX];
const BF32: [u32; 10] = [
    0,
    0x8000_0000,
    1,
    0x3f80_0000,
    0x7f7f_ffff,
    0x7f80_0000,
    0xff80_0000,
    0x7fc0_0000,
    0x7f80_0001,
    0xffff_ffff,
];
const BF64: [u64; 10] = [
    0,
    0x8000_0000_0000_0000,
    1,
    0x3ff0_0000_0000_0000,
    0x7fef_ffff_ffff_ffff,
    0x7ff0_0000_0000_0000,
    0xfff0_0000_0000_0000,
    0x7ff8_0000_0000_0000,
    0x7ff0_0000_0000_0001,
    u64::MAX,
];
fn bstrings() -> Vec<String> {
    vec![
        String::new(),
        "a".into(),
        "\0".into(),
        "é".into(),
        "日本語".into(),
        "😀".into(),
        "\u{7f}\u{80}\u{7ff}\u{800}\u{ffff}\u{10000}\u{10ffff}".into(),
        "x".repeat(127),
        "y".repeat(128),
        "ß".repeat(8192),
    ]
}
fn bbytes() -> Vec<Vec<u8>> {
    vec![
        vec![],
        vec![0],
        vec![0xff],
        vec![0x80, 0x80],
        vec![0xc0, 0x80],
        vec![0xed, 0xa0, 0x80],
        (0..=255u8).collect(),
        vec![0xaa; 127],
        vec![0x55; 128],
        vec![7; 16384],
    ]
}

/// boundary values of a leaf type
fn boundary(ty: Ty) -> Vec<T> {
    match ty {
        U32 => B32.iter().map(|v| T::U(*v as u64)).collect(),
        U64 => B64.iter().map(|v| T::U(*v)).collect(),
        Bool => vec![T::B(false), T::B(true)],
        F32 => BF32.iter().map(|v| T::F4(*v)).collect(),
        F64 => BF64.iter().map(|v| T::F8(*v)).collect(),
        Str => bstrings().into_iter().map(|s| T::X(s.into_bytes())).collect(),
        Bytes => bbytes().into_iter().map(T::X).collect(),
        Msg(_) => vec![T::M(vec![])],
    }
}

fn gen_u64(r: &mut Rng) -> u64 {
    match r.below(4) {
        0 => *r.pick(&B64),
        1 => r.below(300),
        _ => {
            let bits = r.range(1, 64);
            let v = r.next();
            if bits == 64 {
                v
            } else {
                v & ((1u64 << bits) - 1)
            }
        }
    }
}
fn gen_u32(r: &mut Rng) -> u32 {
    match r.below(4) {
        0 => *r.pick(&B32),
        1 => r.below(40) as u32,
        _ => {
            let bits = r.range(1, 32);
            (r.next() & ((1u64 << bits) - 1)) as u32
        }
    }
}
fn gen_string(r: &mut Rng) -> String {
    const ALPH: [&str; 16] = ["a", "Z", "0", " ", "/", "\0", "é", "ß", "日", "本", "😀", "\u{10ffff}", "\u{7f}", "\u{80}", "_", "+"];
    let n = match r.below(12) {
        0 => 0,
        1 => r.range(120, 135),
        _ => r.range(1, 9),
    };
    let mut s = String::new();
    for _ in 0..n {
        let c: &&str = r.pick(&ALPH[..]); s.push_str(c);
    }
    s
}
fn gen_bytes(r: &mut Rng) -> Vec<u8> {
    let n = match r.below(12) {
        0 => 0,
        1 => r.range(120, 135),
        2 => r.range(250, 260),
        _ => r.range(1, 12),
    };
    (0..n).map(|_| r.next() as u8).collect()
}
fn gen_leaf(r: &mut Rng, ty: Ty, budget: u32) -> T {
    match ty {
        U32 => T::U(gen_u32(r) as u64),
        U64 => T::U(gen_u64(r)),
        Bool => T::B(r.chance(1, 2)),
        F32 => T::F4(if r.chance(1, 3) { *r.pick(&BF32) } else { r.next() as u32 }),
        F64 => T::F8(if r.chance(1, 3) { *r.pick(&BF64) } else { r.next() }),
        Str => T::X(gen_string(r).into_bytes()),
        Bytes => T::X(gen_bytes(r)),
        Msg(m) => T::M(gen_msg(r, m, budget)),
    }
}
/// canonical records of a random value of message `m`; nested messages only while `budget > 0`
pub fn gen_msg(r: &mut Rng, m: &str, budget: u32) -> Vec<(u32, T)> {
    let mut rs = vec![];
    for e in schema(m) {
        match *e {
            Opt(tag, ty) => {
                let is_msg = matches!(ty, Msg(_));
                if (is_msg && budget == 0) || !r.chance(1, 2) {
                    continue;
                }
                rs.push((tag, gen_leaf(r, ty, budget.saturating_sub(1))));
            }
            Rep(tag, ty) => {
                let is_msg = matches!(ty, Msg(_));
                if is_msg && budget == 0 {
                    continue;
                }
                let n = match r.below(8) {
                    0 | 1 => 0,
                    2 | 3 => 1,
                    4 | 5 => 2,
                    6 => 3,
                    _ => {
                        if is_msg {
                            4
                        } else {
                            r.range(4, 20)
                        }
                    }
                };
                for _ in 0..n {
                    rs.push((tag, gen_leaf(r, ty, budget.saturating_sub(1))));
                }
            }
            One(ms) => {
                if r.chance(1, 5) {
                    continue;
                }
                // prefer nested members while there is budget (depth is the interesting part)
                let nested: Vec<&(u32, Ty)> = ms.iter().filter(|x| matches!(x.1, Msg(_))).collect();
                let (tag, ty) = if budget > 0 && !nested.is_empty() && r.chance(1, 2) {
                    **r.pick(&nested)
                } else {
                    *r.pick(ms)
                };
                if matches!(ty, Msg(_)) && budget == 0 {
                    // an empty nested message is still fine at the bottom
                    rs.push((tag, T::M(vec![])));
                } else {
                    rs.push((tag, gen_leaf(r, ty, budget.saturating_sub(1))));
                }
            }
        }
    }
    rs
}

// ---------------------------------------------------------------------------------------------
// oracles
// ---------------------------------------------------------------------------------------------

fn has_nested(t: &T) -> bool {
    depth_of(t) >= 2
}

/// encode `tree` of message `m` with the real code; oracle clauses on the result.
/// Returns the bytes.
fn check_enc(m: &str, tree: &T, out: &mut Out, feature: &str) -> Option<Vec<u8>> {
    fn go<M: TreeMsg + std::panic::RefUnwindSafe>(tree: &T) -> (EncOut, Option<Result<T, &'static str>>) {
        let e = enc_real::<M>(tree);
        let d = e.bytes.as_ref().map(|b| dec_real::<M>(b));
        (e, d)
    }
    let (e, d) = match m {
        "Payload" => go::<Payload>(tree),
        "Metric" => go::<Metric>(tree),
        "MetaData" => go::<MetaData>(tree),
        "PropertySet" => go::<PropertySet>(tree),
        "PropertySetList" => go::<PropertySetList>(tree),
        "PropertyValue" => go::<PropertyValue>(tree),
        "DataSet" => go::<DataSet>(tree),
        "Row" => go::<data_set::Row>(tree),
        "DataSetValue" => go::<data_set::DataSetValue>(tree),
        "Template" => go::<Template>(tree),
        "Parameter" => go::<template::Parameter>(tree),
        "MetricValueExtension" => go::<metric::MetricValueExtension>(tree),
        "PropertyValueExtension" => go::<property_value::PropertyValueExtension>(tree),
        "DataSetValueExtension" => go::<data_set_value::DataSetValueExtension>(tree),
        "ParameterValueExtension" => go::<parameter::ParameterValueExtension>(tree),
        _ => return None,
    };
    if e.answer == "panic" {
        out.fail("M13:no-panic", &format!("{}-encode", feature), show(tree).chars().take(300).collect());
        return None;
    }
    let bytes = e.bytes?;
    if !e.len_ok {
        out.fail("M13:encode-bytes-equal", &format!("{}-encoded-len", feature), show(tree).chars().take(300).collect());
    }
    // independent hand-written encoder of the same tree
    if let T::M(rs) = tree {
        let mut mine = vec![];
        enc_recs(rs, &mut mine);
        if mine != bytes {
            out.fail(
                "M13:encode-bytes-equal",
                feature,
                format!("tree={} prost={} hand={}", show(tree).chars().take(200).collect::<String>(), hex(&bytes), hex(&mine)),
            );
        }
    }
    // round trip (decoding is limited to 100 levels below the top message)
    let deep = depth_of(tree) > 101;
    match d {
        Some(Ok(t2)) => {
            if deep {
                out.fail("M13:roundtrip", &format!("{}-deep-accepted", feature), format!("depth {}", depth_of(tree)));
                // C19 "never ... hangs or over-allocates on arbitrary input": the decoder's depth is bounded
                // (prost's recursion limit); without it a hostile payload nested deep enough overflows the stack
                out.fail("C19:recursion-bounded", &format!("{}-deep-accepted", feature), format!("a payload nested {} levels deep was decoded instead of refused: the recursion limit of the wire decoder is gone", depth_of(tree)));
            } else if show(&t2) != show(tree) {
                out.fail(
                    "M13:roundtrip",
                    feature,
                    format!("in={} out={}", show(tree).chars().take(200).collect::<String>(), show(&t2).chars().take(200).collect::<String>()),
                );
            }
        }
        Some(Err("panic")) => out.fail("M13:no-panic", &format!("{}-decode", feature), hex(&bytes).chars().take(300).collect()),
        Some(Err(_)) => {
            if !deep {
                out.fail("M13:roundtrip", &format!("{}-rejected", feature), show(tree).chars().take(300).collect());
            }
        }
        None => {}
    }
    Some(bytes)
}

/// the two request lines of an encoding + the decoding of its bytes
fn emit_enc_dec(m: &str, tree: &T, out: &mut Out, feature: &str) -> Option<Vec<u8>> {
    let op = format!("wire enc {} {}", m, show(tree));
    let a = exec(&op);
    out.line(&op, &a);
    let bytes = check_enc(m, tree, out, feature)?;
    emit_dec(m, &bytes, out, feature);
    Some(bytes)
}
fn emit_dec(m: &str, bytes: &[u8], out: &mut Out, feature: &str) -> String {
    let op = format!("wire dec {} {}", m, hex(bytes));
    let a = exec(&op);
    if a == "panic" {
        out.fail("M13:no-panic", &format!("{}-decode", feature), hex(bytes).chars().take(300).collect());
    }
    out.line(&op, &a);
    a
}

// ---------------------------------------------------------------------------------------------
// mutations of trees (re-serialised by the hand-written encoder)
// ---------------------------------------------------------------------------------------------

const UNKNOWN_TAGS: [u32; 8] = [20, 21, 31, 100, 2047, 2048, 1 << 20, (1 << 29) - 1];

fn gen_unknown(r: &mut Rng, depth: u32) -> T {
    match r.below(if depth == 0 { 5 } else { 7 }) {
        0 => T::U(gen_u64(r)),
        1 => T::F4(r.next() as u32),
        2 => T::F8(r.next()),
        3 => T::X(gen_bytes(r)),
        4 => T::UL(r.below(1000), r.range(1, 3) as u8),
        5 => {
            // well-formed group with nested unknowns
            let n = r.below(3);
            let rs = (0..n).map(|_| (*r.pick(&UNKNOWN_TAGS), gen_unknown(r, depth - 1))).collect();
            T::Group(rs, 0) // end tag patched by the caller
        }
        _ => T::M(vec![(1, T::U(1))]),
    }
}
fn fix_groups(tag: u32, t: T) -> T {
    match t {
        T::Group(rs, 0) => T::Group(rs.into_iter().map(|(g, x)| (g, fix_groups(g, x))).collect(), tag),
        x => x,
    }
}

/// stable reorder: a random interleaving that keeps the relative order of equal tags
fn stable_shuffle(r: &mut Rng, rs: &[(u32, T)]) -> Vec<(u32, T)> {
    // group by tag keeping order, then draw a random tag sequence
    let mut tags: Vec<u32> = rs.iter().map(|x| x.0).collect();
    r.shuffle(&mut tags);
    let mut used = vec![false; rs.len()];
    let mut res = vec![];
    for t in tags {
        let i = (0..rs.len()).find(|&i| !used[i] && rs[i].0 == t).unwrap();
        used[i] = true;
        res.push(rs[i].clone());
    }
    res
}

/// apply `f` to the records of every message level (top-down), with probability 1/2 each
fn map_levels(r: &mut Rng, rs: &[(u32, T)], f: &mut dyn FnMut(&mut Rng, Vec<(u32, T)>) -> Vec<(u32, T)>) -> Vec<(u32, T)> {
    let inner: Vec<(u32, T)> = rs
        .iter()
        .map(|(tag, t)| match t {
            T::M(sub) => (*tag, T::M(map_levels(r, sub, f))),
            x => (*tag, x.clone()),
        })
        .collect();
    if r.chance(1, 2) {
        f(r, inner)
    } else {
        inner
    }
}

#[derive(Clone, Copy, Debug, PartialEq)]
enum Mutation {
    StableShuffle,
    Shuffle,
    Unknown,
    DupScalar,
    SplitMsg,
    Pack,
    WrongWire,
    Overlong,
    BigNumber,
    BadUtf8,
    EndGroup,
    ExtraField,
    RandomField,
}
const MUTATIONS: [Mutation; 13] = [
    Mutation::StableShuffle,
    Mutation::Shuffle,
    Mutation::Unknown,
    Mutation::DupScalar,
    Mutation::SplitMsg,
    Mutation::Pack,
    Mutation::WrongWire,
    Mutation::Overlong,
    Mutation::BigNumber,
    Mutation::BadUtf8,
    Mutation::EndGroup,
    Mutation::ExtraField,
    Mutation::RandomField,
];

/// schema-aware: at every level (probability 1/2) one more well-typed record of a random field of
/// the message at a random position — a second value for an `Option`, another member of a
/// `oneof` (the same one: merged / overwritten; a different one: replaces), one more element
fn extra_fields(r: &mut Rng, m: &str, rs: &[(u32, T)]) -> Vec<(u32, T)> {
    let sch = schema(m);
    let child = |tag: u32| -> Option<&'static str> {
        for e in sch {
            match *e {
                Opt(t, Msg(n)) | Rep(t, Msg(n)) if t == tag => return Some(n),
                One(ms) => {
                    for (t, ty) in ms {
                        if *t == tag {
                            if let Msg(n) = ty {
                                return Some(n);
                            }
                        }
                    }
                }
                _ => {}
            }
        }
        None
    };
    let mut v: Vec<(u32, T)> = rs
        .iter()
        .map(|(tag, t)| match (t, child(*tag)) {
            (T::M(sub), Some(n)) => (*tag, T::M(extra_fields(r, n, sub))),
            _ => (*tag, t.clone()),
        })
        .collect();
    if !sch.is_empty() && r.chance(1, 2) {
        for _ in 0..r.range(1, 2) {
            let (tag, ty) = match *r.pick(sch) {
                Opt(t, ty) | Rep(t, ty) => (t, ty),
                One(ms) => *r.pick(ms),
            };
            let leaf = gen_leaf(r, ty, 2);
            let at = r.below(v.len() as u64 + 1) as usize;
            v.insert(at, (tag, leaf));
        }
    }
    v
}


fn mutate(r: &mut Rng, m: &str, rs: &[(u32, T)], mu: Mutation) -> Vec<(u32, T)> {
    if mu == Mutation::ExtraField {
        return extra_fields(r, m, rs);
    }
    let mut f: Box<dyn FnMut(&mut Rng, Vec<(u32, T)>) -> Vec<(u32, T)>> = match mu {
        Mutation::StableShuffle => Box::new(|r, v| stable_shuffle(r, &v)),
        Mutation::Shuffle => Box::new(|r, mut v| {
            r.shuffle(&mut v);
            v
        }),
        Mutation::Unknown => Box::new(|r, mut v| {
            for _ in 0..r.range(1, 3) {
                let tag = *r.pick(&UNKNOWN_TAGS);
                let u = fix_groups(tag, gen_unknown(r, 3));
                let at = r.below(v.len() as u64 + 1) as usize;
                v.insert(at, (tag, u));
            }
            v
        }),
        Mutation::DupScalar => Box::new(|r, mut v| {
            // an earlier occurrence of a leaf with another value (last one wins for Option fields)
            let leaves: Vec<usize> = (0..v.len()).filter(|&i| !matches!(v[i].1, T::M(_))).collect();
            if leaves.is_empty() {
                return v;
            }
            let i = *r.pick(&leaves);
            let other = match &v[i].1 {
                T::U(x) => T::U(x.wrapping_add(1 + r.below(5))),
                T::F4(x) => T::F4(x ^ 1),
                T::F8(x) => T::F8(x ^ 1),
                T::B(x) => T::B(!x),
                T::X(x) => {
                    let mut y = x.clone();
                    y.push(b'!');
                    T::X(y)
                }
                x => x.clone(),
            };
            let at = r.below(v.len() as u64 + 1) as usize;
            v.insert(at, (v[i].0, other));
            v
        }),
        Mutation::SplitMsg => Box::new(|r, mut v| {
            // one nested message written as two occurrences (merged for Option / same oneof member)
            let ms: Vec<usize> = (0..v.len()).filter(|&i| matches!(&v[i].1, T::M(s) if !s.is_empty())).collect();
            if ms.is_empty() {
                return v;
            }
            let i = *r.pick(&ms);
            if let T::M(sub) = v[i].1.clone() {
                let k = r.below(sub.len() as u64 + 1) as usize;
                let (a, b) = sub.split_at(k);
                v[i].1 = T::M(a.to_vec());
                let at = r.range(i as u64 + 1, v.len() as u64) as usize;
                v.insert(at, (v[i].0, T::M(b.to_vec())));
            }
            v
        }),
        Mutation::Pack => Box::new(|r, v| {
            // maximal runs of equal-tag numeric leaves -> one packed record
            let mut res: Vec<(u32, T)> = vec![];
            let mut i = 0;
            while i < v.len() {
                let numeric = |t: &T| matches!(t, T::U(_) | T::F4(_) | T::F8(_) | T::B(_));
                if numeric(&v[i].1) && r.chance(2, 3) {
                    let mut j = i;
                    let mut items = vec![];
                    while j < v.len() && v[j].0 == v[i].0 && numeric(&v[j].1) {
                        items.push(v[j].1.clone());
                        j += 1;
                    }
                    if r.chance(1, 6) {
                        items.clear(); // empty packed record
                    }
                    res.push((v[i].0, T::Packed(items)));
                    i = j;
                } else {
                    res.push(v[i].clone());
                    i += 1;
                }
            }
            res
        }),
        Mutation::WrongWire => Box::new(|r, mut v| {
            if v.is_empty() {
                return v;
            }
            let i = r.below(v.len() as u64) as usize;
            v[i].1 = match r.below(5) {
                0 => T::U(r.below(10)),
                1 => T::F4(1),
                2 => T::F8(1),
                3 => T::X(vec![8, 1]),
                _ => T::Group(vec![], v[i].0),
            };
            v
        }),
        Mutation::Overlong => Box::new(|r, v| {
            v.into_iter()
                .map(|(tag, t)| match t {
                    T::U(x) if r.chance(1, 2) => {
                        // total length must stay <= 10 bytes to be accepted; sometimes exceed
                        (tag, T::UL(x, r.range(1, 10) as u8))
                    }
                    T::B(x) if r.chance(1, 2) => (tag, T::UL(x as u64, r.range(1, 9) as u8)),
                    x => (tag, x),
                })
                .collect()
        }),
        Mutation::BigNumber => Box::new(|r, v| {
            v.into_iter()
                .map(|(tag, t)| match t {
                    // uint32 fields truncate, bool fields are `!= 0`
                    T::U(x) if r.chance(1, 2) => (tag, T::U(x.wrapping_add(r.range(1, 7) << 32))),
                    T::B(x) if r.chance(1, 2) => (tag, T::U(if x { r.range(2, 1 << 40) } else { 0 })),
                    x => (tag, x),
                })
                .collect()
        }),
        Mutation::BadUtf8 => Box::new(|r, mut v| {
            const BAD: [&[u8]; 8] = [
                &[0xff],
                &[0xc0, 0x80],
                &[0xed, 0xa0, 0x80],
                &[0xf4, 0x90, 0x80, 0x80],
                &[0xe2, 0x82],
                &[0x80],
                &[0x61, 0xf0, 0x9f, 0x98],
                &[0xf8, 0x88, 0x80, 0x80, 0x80],
            ];
            let xs: Vec<usize> = (0..v.len()).filter(|&i| matches!(v[i].1, T::X(_))).collect();
            if xs.is_empty() {
                return v;
            }
            let i = *r.pick(&xs);
            v[i].1 = T::X(r.pick(&BAD).to_vec());
            v
        }),
        Mutation::EndGroup => Box::new(|r, mut v| {
            let at = r.below(v.len() as u64 + 1) as usize;
            let tag = *r.pick(&UNKNOWN_TAGS);
            let t = match r.below(9) {
                0 => T::Raw(4, vec![]),                           // lone EndGroup
                1 => T::Group(vec![], tag + 1),                   // mismatched end tag
                2 => T::Raw(3, vec![]),                           // unterminated group
                3 => T::Raw(r.range(6, 7) as u8, vec![0]),        // invalid wire type
                4 => T::Bare(vec![0x88, 0x80, 0x00, 0x05]),       // over-long key (tag 1, varint), value 5
                5 => T::Bare(vec![0xa0, 0x81, 0x80, 0x80, 0x00, 0x07]), // over-long key of an unknown tag
                6 => T::Bare(vec![0x88, 0x80, 0x80, 0x80, 0x10, 0x01]), // key = 2^32 + 8
                7 => T::Bare(vec![0x00, 0x01]),                   // tag 0
                _ => {
                    // a length prefix far beyond the buffer
                    let mut b = vec![0xa2, 0x06];
                    put_varint(if r.chance(1, 2) { u64::MAX } else { 1 << 40 }, &mut b);
                    T::Bare(b)
                }
            };
            v.insert(at, (tag, t));
            v
        }),
        Mutation::RandomField => Box::new(|r, mut v| {
            // any small tag with any leaf: a known field with the wrong / right wire type or unknown
            let at = r.below(v.len() as u64 + 1) as usize;
            let tag = r.range(1, 25) as u32;
            let t = match r.below(6) {
                0 => T::U(gen_u64(r)),
                1 => T::F4(r.next() as u32),
                2 => T::F8(r.next()),
                3 => T::X(gen_bytes(r)),
                4 => T::B(r.chance(1, 2)),
                _ => T::M(vec![]),
            };
            v.insert(at, (tag, t));
            v
        }),
        Mutation::ExtraField => unreachable!(),
    };
    map_levels(r, rs, &mut *f)
}

// ---------------------------------------------------------------------------------------------
// run
// ---------------------------------------------------------------------------------------------

fn deep_chain(kind: u32, levels: usize, leaf: Vec<(u32, T)>) -> Vec<(u32, T)> {
    // records of a Payload whose deepest message sits `levels` levels below the Payload
    // kind 0: Payload > Metric > Template > Metric > Template ...
    // kind 1: Payload > Metric > PropertySet > PropertyValue > PropertySet ...
    // kind 2: Payload > Metric > PropertySet > PropertyValue > PropertySetList > PropertySet > ...
    // `leaf` are the records of the deepest message (must fit that message or be unknown tags)
    fn names(kind: u32, levels: usize) -> Vec<(&'static str, u32)> {
        // (message at level i, tag that leads from level i-1 to it)
        let mut v = vec![("Metric", 2u32)];
        let mut cur = "Metric";
        while v.len() < levels {
            let (n, t) = match (kind, cur) {
                (0, "Metric") => ("Template", 18),
                (0, _) => ("Metric", 2),
                (_, "Metric") => ("PropertySet", 9),
                (_, "PropertySet") => ("PropertyValue", 2),
                (1, "PropertyValue") => ("PropertySet", 9),
                (_, "PropertyValue") => ("PropertySetList", 10),
                (_, _) => ("PropertySet", 1),
            };
            v.push((n, t));
            cur = n;
        }
        v
    }
    let ns = names(kind, levels);
    let mut cur = leaf;
    for (_, tag) in ns.iter().rev() {
        cur = vec![(*tag, T::M(cur))];
    }
    cur
}

pub fn run(args: &Args, out: &mut Out) -> &'static str {
    let mut rng = Rng::new(args.seed);
    let thorough = args.thorough();

    // ---- A. varints -------------------------------------------------------------------------
    // every byte string of length <= 2 through decode_varint (and through decode_key)
    out.exhaustive.push("decode_varint / decode_key on every byte string of length 0, 1, 2 (65793 inputs)".into());
    out.begin_case("wire new", "ok");
    let mut line_in_case = 0;
    let mut inputs: Vec<Vec<u8>> = vec![vec![]];
    for a in 0..=255u8 {
        inputs.push(vec![a]);
    }
    for a in 0..=255u8 {
        for b in 0..=255u8 {
            inputs.push(vec![a, b]);
        }
    }
    for b in &inputs {
        for what in ["unvarint", "unkey"] {
            let op = format!("wire {} {}", what, hex(b));
            let a = exec(&op);
            if a == "panic" {
                out.fail("M13:no-panic", what, hex(b));
            }
            out.line(&op, &a);
        }
        out.count("varint_exhaustive_inputs");
        line_in_case += 1;
        if line_in_case % 4096 == 0 {
            out.begin_case("wire new", "ok");
        }
    }
    // encode: every power of two and its neighbours, random values; decode of the encoding
    out.begin_case("wire new", "ok");
    out.nontrivial();
    let mut ns: Vec<u64> = vec![0, u64::MAX];
    for k in 0..64 {
        let p = 1u64 << k;
        ns.extend_from_slice(&[p - 1, p, p.wrapping_add(1)]);
    }
    for _ in 0..(if thorough { 20000 } else { 2000 }) {
        ns.push(gen_u64(&mut rng));
    }
    for n in &ns {
        let op = format!("wire varint {}", n);
        let a = exec(&op);
        out.line(&op, &a);
        if a == "panic" || a == "bad-op" {
            out.fail("M13:no-panic", "varint", op.clone());
            continue;
        }
        // oracle: round trip with a tail
        let mut b = unhex(&a);
        b.extend_from_slice(&[0xff, 0x01]);
        let op2 = format!("wire unvarint {}", hex(&b));
        let a2 = exec(&op2);
        out.line(&op2, &a2);
        if a2 != format!("ok {} 2", n) {
            out.fail("M13:roundtrip", "varint", format!("{} -> {} -> {}", n, a, a2));
        }
        out.count("varint_values");
    }
    // long / overflowing varints: 9, 10, 11 bytes, every last byte class
    out.begin_case("wire new", "ok");
    out.nontrivial();
    for len in [3usize, 5, 9, 10, 11, 12] {
        for last in [0u8, 1, 2, 0x7f, 0x80, 0x81, 0xff] {
            for fill in [0x80u8, 0xff, 0x81] {
                let mut b = vec![fill; len - 1];
                b.push(last);
                b.push(0x05);
                for what in ["unvarint", "unkey"] {
                    let op = format!("wire {} {}", what, hex(&b));
                    let a = exec(&op);
                    out.line(&op, &a);
                }
                out.count("varint_long_inputs");
            }
        }
    }
    // keys
    out.begin_case("wire new", "ok");
    for tag in [1u32, 2, 15, 16, 2047, 2048, 262143, 262144, (1 << 28), (1 << 29) - 1] {
        for wt in 0..=5 {
            let op = format!("wire key {} {}", tag, wt);
            let a = exec(&op);
            out.line(&op, &a);
            let op2 = format!("wire unkey {}", a);
            let a2 = exec(&op2);
            out.line(&op2, &a2);
            if a2 != format!("ok {} {} 0", tag, wt) {
                out.fail("M13:roundtrip", "key", format!("{} {} -> {} -> {}", tag, wt, a, a2));
            }
            out.count("keys");
        }
    }
    // keys that must be rejected: wire type 6/7, tag 0, key >= 2^32
    for key in [0u64, 1, 5, 6, 7, 8 + 6, 8 + 7, (1 << 32) - 1, (1 << 32) - 3, 1 << 32, (1 << 32) + 8, u64::MAX] {
        let mut b = vec![];
        put_varint(key, &mut b);
        let op = format!("wire unkey {}", hex(&b));
        let a = exec(&op);
        out.line(&op, &a);
        out.count("keys_invalid_candidates");
    }

    // ---- B. every single-field message over the boundary values of the field's type ---------
    out.exhaustive.push("every field of every message of the schema (15 messages), alone in its message, over the boundary values of its type; every 1- and 2-element repetition of repeated fields".into());
    for m in MSGS {
        out.begin_case("wire new", "ok");
        out.nontrivial();
        emit_enc_dec(m, &T::M(vec![]), out, "empty");
        let mut fields: Vec<(u32, Ty, bool)> = vec![];
        for e in schema(m) {
            match *e {
                Opt(t, ty) => fields.push((t, ty, false)),
                Rep(t, ty) => fields.push((t, ty, true)),
                One(ms) => fields.extend(ms.iter().map(|(t, ty)| (*t, *ty, false))),
            }
        }
        for (tag, ty, rep) in fields {
            let bs = boundary(ty);
            for v in &bs {
                emit_enc_dec(m, &T::M(vec![(tag, v.clone())]), out, "single-field");
                out.count("single_field_messages");
            }
            if rep {
                for v in bs.iter().take(4) {
                    for w in bs.iter().rev().take(3) {
                        emit_enc_dec(m, &T::M(vec![(tag, v.clone()), (tag, w.clone())]), out, "two-elements");
                        out.count("two_element_messages");
                    }
                }
            }
        }
    }
    // every byte string of length <= 2 as a Metric and as a PropertyValue (all keys of 1 byte)
    out.exhaustive.push("Metric::decode / DataSet::decode on every byte string of length 0, 1, 2".into());
    for m in ["Metric", "DataSet"] {
        out.begin_case("wire new", "ok");
        for (k, b) in inputs.iter().enumerate() {
            emit_dec(m, b, out, "two-bytes");
            out.count("decode_exhaustive_inputs");
            if k % 4096 == 4095 {
                out.begin_case("wire new", "ok");
            }
        }
    }

    // ---- C. random structured payloads + mutations ------------------------------------------
    let n_cases = if thorough { 30000 } else { 600 };
    for k in 0..n_cases {
        out.begin_case("wire new", "ok");
        let budget = match rng.below(10) {
            0 => 0,
            1 => 1,
            2 => 2,
            3 | 4 => 3,
            5 | 6 => 4,
            7 => 5,
            8 => 6,
            _ => 8,
        };
        let m = if k % 5 == 4 { *rng.pick(&MSGS[1..11]) } else { "Payload" };
        let rs = gen_msg(&mut rng, m, budget);
        let tree = T::M(rs.clone());
        let d = depth_of(&tree);
        out.count(&format!("gen_depth_{}", if d >= 6 { "6+".to_string() } else { d.to_string() }));
        if d >= 4 {
            out.count("gen_depth_ge_3_nested");
        }
        if has_nested(&tree) {
            out.nontrivial();
        }
        out.count(&format!("gen_msg_{}", m));
        let bytes = match emit_enc_dec(m, &tree, out, "random") {
            Some(b) => b,
            None => continue,
        };
        out.count_n("gen_bytes_total", bytes.len() as u64);
        // (b) re-serialisations
        for _ in 0..(if thorough { 6 } else { 4 }) {
            let mu = *rng.pick(&MUTATIONS);
            let rs2 = mutate(&mut rng, m, &rs, mu);
            let mut b2 = vec![];
            enc_recs(&rs2, &mut b2);
            let a = emit_dec(m, &b2, out, "mutated");
            out.count(&format!("mut_{:?}", mu));
            out.count(if a.starts_with("ok") { "mut_accepted" } else { "mut_rejected" });
            out.nontrivial();
            // oracle: reordering that keeps equal tags in order, and unknown fields, change nothing
            if (mu == Mutation::StableShuffle || mu == Mutation::Unknown) && d < 90 {
                let want = format!("ok {}", show(&tree));
                if a != want {
                    out.fail(
                        "M13:decode-agrees",
                        if mu == Mutation::Unknown { "unknown-fields-not-ignored" } else { "field-order-matters" },
                        format!("bytes={} want={} got={}", hex(&b2).chars().take(200).collect::<String>(), want.chars().take(200).collect::<String>(), a.chars().take(200).collect::<String>()),
                    );
                }
            }
        }
        // (c) truncations: every prefix when small, random prefixes otherwise; byte mutations
        if bytes.len() <= 48 {
            for l in 0..bytes.len() {
                emit_dec(m, &bytes[..l], out, "truncated");
                out.count("truncated_inputs");
            }
        } else {
            for _ in 0..8 {
                let l = rng.below(bytes.len() as u64) as usize;
                emit_dec(m, &bytes[..l], out, "truncated");
                out.count("truncated_inputs");
            }
        }
        if !bytes.is_empty() {
            for _ in 0..6 {
                let mut b2 = bytes.clone();
                match rng.below(4) {
                    0 => {
                        let i = rng.below(b2.len() as u64) as usize;
                        b2[i] ^= 1 << rng.below(8);
                    }
                    1 => {
                        let i = rng.below(b2.len() as u64) as usize;
                        b2[i] = rng.next() as u8;
                    }
                    2 => {
                        let i = rng.below(b2.len() as u64) as usize;
                        b2.remove(i);
                    }
                    _ => {
                        let i = rng.below(b2.len() as u64 + 1) as usize;
                        b2.insert(i, rng.next() as u8);
                    }
                }
                let a = emit_dec(m, &b2, out, "byte-mutated");
                out.count("byte_mutated_inputs");
                out.count(if a.starts_with("ok") { "byte_mutated_accepted" } else { "byte_mutated_rejected" });
            }
        }
    }

    // ---- D. random bytes --------------------------------------------------------------------
    out.begin_case("wire new", "ok");
    out.nontrivial();
    for k in 0..(if thorough { 200000 } else { 4000 }) {
        let n = rng.below(24) as usize;
        let mut b: Vec<u8> = vec![];
        if k % 2 == 0 {
            b = (0..n).map(|_| rng.next() as u8).collect();
        } else {
            // plausible: small keys, small lengths
            while b.len() < n {
                match rng.below(4) {
                    0 => b.push(((rng.range(1, 20) << 3) | rng.below(6)) as u8),
                    1 => b.push(rng.below(6) as u8),
                    2 => b.push(rng.next() as u8),
                    _ => b.push(0x80 | rng.below(4) as u8),
                }
            }
        }
        let m = *rng.pick(&MSGS[..11]);
        let a = emit_dec(m, &b, out, "random-bytes");
        out.count("random_byte_inputs");
        out.count(if a.starts_with("ok") { "random_bytes_accepted" } else { "random_bytes_rejected" });
        if k % 512 == 511 {
            out.begin_case("wire new", "ok");
            out.nontrivial();
        }
    }

    // ---- E. the recursion limit -------------------------------------------------------------
    // deepest message `levels` below the Payload; accepted iff levels <= 100; an unknown field or
    // a group in a message `levels` below needs levels < 100 (skip_field checks the limit)
    out.exhaustive.push("nesting depth 97..=103 for three nesting chains, with / without an unknown field or group at the deepest level".into());
    for kind in 0..3u32 {
        for levels in [1usize, 2, 3, 50, 97, 98, 99, 100, 101, 102, 103, 150] {
            out.begin_case("wire new", "ok");
            out.nontrivial();
            let rs = deep_chain(kind, levels, vec![]);
            let tree = T::M(rs.clone());
            let op = format!("wire enc Payload {}", show(&tree));
            let a = exec(&op);
            out.line(&op, &a);
            let bytes = check_enc("Payload", &tree, out, "deep");
            if let Some(bytes) = bytes {
                let a = emit_dec("Payload", &bytes, out, "deep");
                let want_ok = levels <= 100;
                if a.starts_with("ok") != want_ok {
                    out.fail("M13:roundtrip", "recursion-limit", format!("kind {} levels {} -> {}", kind, levels, a.chars().take(40).collect::<String>()));
                }
                out.count(if want_ok { "deep_accepted" } else { "deep_rejected" });
            }
            // unknown things at the deepest level
            for (name, leaf) in [
                ("unknown-varint", vec![(100u32, T::U(5))]),
                ("unknown-len", vec![(100u32, T::X(vec![1, 2, 3]))]),
                ("unknown-group", vec![(100u32, T::Group(vec![(7, T::U(1))], 100))]),
                ("unknown-group-nested", vec![(100u32, T::Group(vec![(7, T::Group(vec![(8, T::Group(vec![], 8))], 7))], 100))]),
            ] {
                let rs = deep_chain(kind, levels, leaf);
                let mut b = vec![];
                enc_recs(&rs, &mut b);
                emit_dec("Payload", &b, out, name);
                out.count("deep_unknown_inputs");
            }
        }
    }
    // groups nested deeper than the limit at the top level
    out.begin_case("wire new", "ok");
    out.nontrivial();
    for n in [1usize, 2, 50, 98, 99, 100, 101, 102] {
        let mut t = T::Group(vec![], 30);
        for _ in 1..n {
            t = T::Group(vec![(30, t)], 30);
        }
        let mut b = vec![];
        enc_recs(&[(30, t)], &mut b);
        emit_dec("Payload", &b, out, "nested-groups");
        out.count("nested_group_inputs");
    }
    RULE
}
