//! Component `rumqtt` (M14): the glue crate `srad-client-rumqtt` (its `EventLoop` and `Client`)
//! driven for real against a FAKE BROKER living in the harness: a tokio TCP listener on
//! 127.0.0.1:0 that speaks MQTT v5 through rumqttc's own packet codec
//! (`rumqttc::v5::mqttbytes::v5::Packet::{read, write}`).
//!
//! One case = one `EventLoop::new` + one broker. Every step starts and ends quiescent: the client
//! is connected, its request queue is empty and everything the broker sent has been polled. The
//! barrier is a sentinel PUBLISH (`$M14/<k>`) the broker sends last: TCP keeps the order, so when
//! `poll` returns the sentinel every earlier packet has been turned into events (the sentinel
//! itself is not reported). No step waits for "silence"; real time is used only as a failure
//! deadline and to count the glue's 1 s sleeps (`sl` = whole seconds the step took).
//!
//! Ops (ids / bytes as hex, `-` = empty, `~` = absent):
//!   rumqtt new <cap> <cs 0|1> <se ~|n> <will ~|t:p:q:r>   MqttOptions the user hands to EventLoop::new
//!   rumqtt will <topic> <payload> <q> <r>                 EventLoop::set_last_will
//!   rumqtt policy <p,p,..|->                              broker: answers to the next CONNECTs
//!                                                         (ok | refuse | drop | junk); default ok
//!   rumqtt settle                                         poll until connected and quiet
//!   rumqtt bpub <topic> <payload> <f 0|1> <qos 0|1>       broker PUBLISHes (f: prost accepts payload)
//!   rumqtt bdisc | bdiscb | bdrop                         broker sends DISCONNECT (with / without the
//!                                                         property-length byte) and closes | just closes
//!   rumqtt bburst <n> <topic> <payload> <f> k=<k>         n PUBLISHes + DISCONNECT in ONE write; k = how
//!                                                         many of them `poll` returned before Offline
//!                                                         (observed; rumqttc / TCP segmentation decide)
//!   rumqtt cpub <kind> <topic> <payload>                  blocking publish_*_message
//!   rumqtt cpub state <topic> <0|1> <ts>
//!   rumqtt ctry <n> <kind> <topic> <payload>              n try_publish_* calls while nobody polls
//!   rumqtt cfull <kind> <topic> <payload>                 cap try_ calls, then the blocking one (30 ms)
//!   rumqtt csub <filter,..|->                             subscribe_many; filter = full:q | group.<id>:q
//!                                                         | node.<g>.<n>:q | ntopic.<t>:q | dtopic.<t>:q | state.<t>:q
//!   rumqtt cdisc stop|cont|twice                          Client::disconnect (stop: stop polling at Offline)
//!   rumqtt end
//! Answer of a polling op: `ret=<..> ev=<..> sl=<n> conn=<..> seen=<..>` — results of the client
//! calls, srad events returned by `poll` (`on`, `off`, `m:<event>`), sleeps, the CONNECT packets
//! the broker received (`cs<0|1>/se<n|~>/w<t:p:q:r|~>`) and the client packets it received
//! (`p:<topic>:<q>:<r>:<payload>`, `s:<path>:<q>+..`, `d`); ` timeout` appended when the step's
//! barrier was not reached within its deadline (8 s + 1 s per queued policy).
//!
//! Direct oracles (clauses `M14:<clause>`), all written from the property text, not from srad:
//! `will-on-wire` (every CONNECT carries the last `set_last_will` before it, no will properties),
//! `clean-start`, `session-expiry` (every CONNECT), `qos-retain` (table of the nine kinds),
//! `topic`, `payload-bytes` (= prost encoding / STATE JSON of what was handed to the client),
//! `publish-count`, `publish-flags`, `subscribe-filters`, `online-per-connack` (Online events of a
//! step = successful CONNACKs of the step), `offline-after-loss` (Offline before the next Online
//! after DISCONNECT / socket loss / client disconnect), `offline-once` (exactly one),
//! `publish-passthrough` (the event equals `topic_and_payload_to_event` of the injected bytes),
//! `sleep` (whole seconds = failed attempts while Disconnected; none after a manual disconnect),
//! `quiet` (barrier reached), `no-panic`.
//!
//! `srad-verif rumqtt --out DIR probe` prints two behaviours outside the model (see `probe`).
use crate::common::*;
use bytes::{Bytes, BytesMut};
use prost::Message as _;
use rumqttc::v5::mqttbytes::v5::{
    ConnAck, ConnectProperties, ConnectReturnCode, Disconnect, DisconnectReasonCode, Packet,
    PingResp, PubAck, Publish, SubAck, SubscribeReasonCode,
};
use rumqttc::v5::mqttbytes::{Error as MqttErr, QoS as MQoS};
use rumqttc::v5::MqttOptions;
use srad_client::{
    topic_and_payload_to_event, Client as _, Event, EventLoop as _, LastWill, MessageError,
    MessageKind, StatePayload,
};
use srad_client_rumqtt::{Client, EventLoop};
use srad_types::payload::{metric, Metric, Payload};
use srad_types::topic::{
    DeviceMessage, DeviceTopic, NodeMessage, NodeTopic, QoS, StateTopic, Topic, TopicFilter,
};
use std::collections::VecDeque;
use std::sync::atomic::{AtomicUsize, Ordering};
use std::sync::{Arc, Mutex};
use std::time::{Duration, Instant};
use tokio::io::{AsyncReadExt, AsyncWriteExt};
use tokio::net::{TcpListener, TcpStream};
use tokio::sync::{mpsc, watch};

pub const RULE: &str = "non-trivial = a case with at least one connection loss (broker DISCONNECT, dropped socket, refused / failed reconnect, client disconnect, burst) or a full request queue";

// ---------------------------------------------------------------------------------------------
// the fake broker
// ---------------------------------------------------------------------------------------------

#[derive(Clone, Copy, PartialEq, Debug)]
enum Pol {
    Ok,
    Refuse,
    Drop,
    Junk,
}

type WillT = (Vec<u8>, Vec<u8>, u8, bool);

#[derive(Clone, Debug)]
struct ConnRec {
    cs: bool,
    se: Option<u32>,
    will: Option<WillT>,
    will_props: bool,
}

#[derive(Clone, Debug)]
enum Seen {
    Pub { topic: Vec<u8>, qos: u8, retain: bool, payload: Vec<u8>, dup: bool, props: bool },
    Sub(Vec<(Vec<u8>, u8, bool, bool)>),
    Disc,
}

#[derive(Default)]
struct BState {
    pols: VecDeque<Pol>,
    conns: Vec<ConnRec>,
    seen: Vec<Seen>,
    seen_total: u64,
    connacks_ok: u64,
    active: bool,
    /// probes only: do not acknowledge QoS 1 publishes
    noack: bool,
}

enum Cmd {
    Publish { topic: Vec<u8>, payload: Vec<u8>, qos: u8 },
    Burst { n: usize, topic: Vec<u8>, payload: Vec<u8> },
    Disconnect { bare: bool },
    Drop,
}

type Shared = Arc<Mutex<BState>>;
type Progress = Arc<watch::Sender<u64>>;

fn bump(p: &Progress) {
    p.send_modify(|v| *v += 1);
}

fn qos_num(q: MQoS) -> u8 {
    match q {
        MQoS::AtMostOnce => 0,
        MQoS::AtLeastOnce => 1,
        MQoS::ExactlyOnce => 2,
    }
}

async fn read_packet(sock: &mut TcpStream, buf: &mut BytesMut) -> Option<Packet> {
    loop {
        // rumqttc writes a normal DISCONNECT as `E0 00`, which its own `Packet::read` refuses
        // (`PayloadRequired`): recognise it here
        if buf.len() >= 2 && buf[0] == 0xE0 && buf[1] == 0 {
            let _ = buf.split_to(2);
            return Some(Packet::Disconnect(Disconnect::new(DisconnectReasonCode::NormalDisconnection)));
        }
        match Packet::read(buf, None) {
            Ok(p) => return Some(p),
            Err(MqttErr::InsufficientBytes(_)) => {}
            Err(_) => return None,
        }
        match sock.read_buf(buf).await {
            Ok(0) | Err(_) => return None,
            Ok(_) => {}
        }
    }
}

async fn write_packet(sock: &mut TcpStream, p: Packet) -> bool {
    let mut b = BytesMut::new();
    if p.write(&mut b).is_err() {
        return false;
    }
    sock.write_all(&b[..]).await.is_ok()
}

/// a server DISCONNECT (reason 0x8B "server shutting down") rumqttc 0.24 can parse: its reader
/// insists on a property-length byte ...
const SERVER_DISCONNECT: [u8; 4] = [0xE0, 0x02, 0x8B, 0x00];
/// ... the bare form (legal MQTT 5: property length omitted) is a framing problem for it; the
/// connection then ends with an I/O error instead of `StateError::ServerDisconnect`
const SERVER_DISCONNECT_BARE: [u8; 3] = [0xE0, 0x01, 0x8B];

fn mk_publish(topic: &[u8], payload: &[u8], qos: u8, pkid: u16) -> Publish {
    Publish {
        dup: false,
        qos: if qos == 0 { MQoS::AtMostOnce } else { MQoS::AtLeastOnce },
        retain: false,
        topic: Bytes::from(topic.to_vec()),
        pkid: if qos == 0 { 0 } else { pkid },
        payload: Bytes::from(payload.to_vec()),
        properties: None,
    }
}

async fn broker(
    listener: TcpListener,
    sh: Shared,
    mut cmd: mpsc::UnboundedReceiver<Cmd>,
    prog: Progress,
) {
    let mut pkid: u16 = 0;
    loop {
        let (mut sock, _) = match listener.accept().await {
            Ok(x) => x,
            Err(_) => return,
        };
        let _ = sock.set_nodelay(true);
        let mut buf = BytesMut::with_capacity(4096);
        let (connect, will) = match read_packet(&mut sock, &mut buf).await {
            Some(Packet::Connect(c, w, _)) => (c, w),
            _ => continue,
        };
        let rec = ConnRec {
            cs: connect.clean_start,
            se: connect.properties.as_ref().and_then(|p| p.session_expiry_interval),
            will: will
                .as_ref()
                .map(|w| (w.topic.to_vec(), w.message.to_vec(), qos_num(w.qos), w.retain)),
            will_props: will.as_ref().map(|w| w.properties.is_some()).unwrap_or(false),
        };
        let pol = {
            let mut s = sh.lock().unwrap();
            s.conns.push(rec);
            s.pols.pop_front().unwrap_or(Pol::Ok)
        };
        match pol {
            Pol::Drop => continue,
            Pol::Refuse => {
                let _ = write_packet(
                    &mut sock,
                    Packet::ConnAck(ConnAck {
                        session_present: false,
                        code: ConnectReturnCode::NotAuthorized,
                        properties: None,
                    }),
                )
                .await;
                continue;
            }
            Pol::Junk => {
                let _ = write_packet(&mut sock, Packet::PingResp(PingResp)).await;
                continue;
            }
            Pol::Ok => {}
        }
        if !write_packet(
            &mut sock,
            Packet::ConnAck(ConnAck {
                session_present: false,
                code: ConnectReturnCode::Success,
                properties: None,
            }),
        )
        .await
        {
            continue;
        }
        {
            let mut s = sh.lock().unwrap();
            s.connacks_ok += 1;
            s.active = true;
        }
        loop {
            tokio::select! {
                biased;
                c = cmd.recv() => match c {
                    None => return,
                    Some(Cmd::Publish { topic, payload, qos }) => {
                        pkid = pkid % 60000 + 1;
                        if !write_packet(&mut sock, Packet::Publish(mk_publish(&topic, &payload, qos, pkid))).await {
                            break;
                        }
                    }
                    Some(Cmd::Burst { n, topic, payload }) => {
                        let mut b = BytesMut::new();
                        for _ in 0..n {
                            let _ = Packet::Publish(mk_publish(&topic, &payload, 0, 0)).write(&mut b);
                        }
                        b.extend_from_slice(&SERVER_DISCONNECT);
                        let _ = sock.write_all(&b[..]).await;
                        break;
                    }
                    Some(Cmd::Disconnect { bare }) => {
                        let _ = sock.write_all(if bare { &SERVER_DISCONNECT_BARE[..] } else { &SERVER_DISCONNECT[..] }).await;
                        break;
                    }
                    Some(Cmd::Drop) => break,
                },
                p = read_packet(&mut sock, &mut buf) => match p {
                    None => break,
                    Some(Packet::Publish(p)) => {
                        {
                            let mut s = sh.lock().unwrap();
                            s.seen.push(Seen::Pub {
                                topic: p.topic.to_vec(),
                                qos: qos_num(p.qos),
                                retain: p.retain,
                                payload: p.payload.to_vec(),
                                dup: p.dup,
                                props: p.properties.is_some(),
                            });
                            s.seen_total += 1;
                        }
                        if p.qos == MQoS::AtLeastOnce && !sh.lock().unwrap().noack {
                            let _ = write_packet(&mut sock, Packet::PubAck(PubAck::new(p.pkid, None))).await;
                        }
                        bump(&prog);
                    }
                    Some(Packet::Subscribe(sub)) => {
                        let codes = sub.filters.iter().map(|f| SubscribeReasonCode::Success(f.qos)).collect();
                        {
                            let mut s = sh.lock().unwrap();
                            s.seen.push(Seen::Sub(
                                sub.filters.iter().map(|f| (f.path.as_bytes().to_vec(), qos_num(f.qos), f.nolocal, f.preserve_retain)).collect(),
                            ));
                            s.seen_total += 1;
                        }
                        let _ = write_packet(&mut sock, Packet::SubAck(SubAck { pkid: sub.pkid, return_codes: codes, properties: None })).await;
                        bump(&prog);
                    }
                    Some(Packet::Disconnect(_)) => {
                        {
                            let mut s = sh.lock().unwrap();
                            s.seen.push(Seen::Disc);
                            s.seen_total += 1;
                            s.active = false;
                        }
                        bump(&prog);
                        break;
                    }
                    Some(Packet::PingReq(_)) => {
                        let _ = write_packet(&mut sock, Packet::PingResp(PingResp)).await;
                    }
                    Some(_) => {}
                },
            }
        }
        sh.lock().unwrap().active = false;
        drop(sock);
    }
}

// ---------------------------------------------------------------------------------------------
// canonical text
// ---------------------------------------------------------------------------------------------

fn show_kind(k: &MessageKind) -> String {
    match k {
        MessageKind::Birth => "birth".into(),
        MessageKind::Death => "death".into(),
        MessageKind::Data => "data".into(),
        MessageKind::Cmd => "cmd".into(),
        MessageKind::Other(s) => format!("other:{}", hex(s.as_bytes())),
    }
}

fn show_reason(r: &MessageError) -> &'static str {
    match r {
        MessageError::DecodePayloadError(_) => "decode",
        MessageError::InvalidSparkplugTopic => "topic",
        MessageError::TopicUtf8Error(_) => "utf8",
        MessageError::StatePayloadJsonDecodeError(_) => "json",
    }
}

fn show_event(e: &Event) -> String {
    match e {
        Event::Online => "on".into(),
        Event::Offline => "off".into(),
        Event::Node(m) => format!(
            "m:node.{}.{}.{}",
            hex(m.group_id.as_bytes()),
            hex(m.node_id.as_bytes()),
            show_kind(&m.message.kind)
        ),
        Event::Device(m) => format!(
            "m:device.{}.{}.{}.{}",
            hex(m.group_id.as_bytes()),
            hex(m.node_id.as_bytes()),
            hex(m.device_id.as_bytes()),
            show_kind(&m.message.kind)
        ),
        Event::State { host_id, payload } => {
            let (o, ts) = match payload {
                StatePayload::Online { timestamp } => (1, *timestamp),
                StatePayload::Offline { timestamp } => (0, *timestamp),
            };
            format!("m:state.{}.{}.{}", hex(host_id.as_bytes()), o, ts)
        }
        Event::InvalidPublish { reason, topic, payload } => {
            format!("m:invalid.{}.{}.{}", show_reason(reason), hex(topic), hex(payload))
        }
    }
}

fn show_will(w: &Option<WillT>) -> String {
    match w {
        None => "~".into(),
        Some((t, p, q, r)) => format!("{}:{}:{}:{}", hex(t), hex(p), q, *r as u8),
    }
}

fn show_conn(c: &ConnRec) -> String {
    format!(
        "cs{}/se{}/w{}",
        c.cs as u8,
        c.se.map(|x| x.to_string()).unwrap_or("~".into()),
        show_will(&c.will)
    )
}

fn show_seen(s: &Seen) -> String {
    match s {
        Seen::Pub { topic, qos, retain, payload, .. } => {
            format!("p:{}:{}:{}:{}", hex(topic), qos, *retain as u8, hex(payload))
        }
        Seen::Sub(fs) => format!(
            "s:{}",
            fs.iter().map(|(p, q, _, _)| format!("{}:{}", hex(p), q)).collect::<Vec<_>>().join("+")
        ),
        Seen::Disc => "d".into(),
    }
}

fn join_or_dash(v: &[String], sep: &str) -> String {
    if v.is_empty() {
        "-".into()
    } else {
        v.join(sep)
    }
}

#[derive(Default)]
struct Obs {
    /// events of the preliminary settle (the step started without a connection)
    pre_ev: usize,
    /// CONNECTs of the preliminary settle
    pre_conn: usize,
    ret: Vec<String>,
    ev: Vec<String>,
    conns: Vec<ConnRec>,
    seen: Vec<Seen>,
    timeout: bool,
    connacks: u64,
}

impl Obs {
    fn answer(&self, sl: u64) -> String {
        format!(
            "ret={} ev={} sl={} conn={} seen={}{}",
            join_or_dash(&self.ret, ","),
            join_or_dash(&self.ev, ","),
            sl,
            join_or_dash(&self.conns.iter().map(show_conn).collect::<Vec<_>>(), ";"),
            join_or_dash(&self.seen.iter().map(show_seen).collect::<Vec<_>>(), ";"),
            if self.timeout { " timeout" } else { "" }
        )
    }
}

// ---------------------------------------------------------------------------------------------
// one case
// ---------------------------------------------------------------------------------------------

#[derive(Default)]
pub struct CaseResult {
    lines: Vec<(String, String)>,
    fails: Vec<(String, String, String)>,
    counts: Vec<String>,
    nontrivial: bool,
    cur_op: Option<String>,
}

struct Sess {
    el: EventLoop,
    client: Client,
    sh: Shared,
    cmd: mpsc::UnboundedSender<Cmd>,
    prog: Progress,
    prog_rx: watch::Receiver<u64>,
    onlines: u64,
    sentinel: u64,
    cap: usize,
    /// the harness's own record of the will that must be on the next CONNECT
    cur_will: Option<WillT>,
    /// the client disconnected by itself and no Online was seen since
    manual: bool,
}

type Rets = Arc<Mutex<Vec<Option<bool>>>>;

struct Expect {
    base_seen: u64,
    base_connacks: u64,
    rets: Option<Rets>,
    seen_per_ok: bool,
    extra_seen: u64,
    extra_connacks: u64,
}

fn sentinel_topic(k: u64) -> Vec<u8> {
    format!("$M14/{}", k).into_bytes()
}

impl Sess {
    fn snapshot(&self) -> (u64, u64, bool) {
        let s = self.sh.lock().unwrap();
        (s.seen_total, s.connacks_ok, s.active)
    }

    fn expect(&self) -> Expect {
        let (seen, ca, _) = self.snapshot();
        Expect { base_seen: seen, base_connacks: ca, rets: None, seen_per_ok: false, extra_seen: 0, extra_connacks: 0 }
    }

    fn record(&mut self, ev: &Event, obs: &mut Obs) {
        if matches!(ev, Event::Online) {
            self.onlines += 1;
        }
        obs.ev.push(show_event(ev));
    }

    fn cond(&self, e: &Expect) -> bool {
        let (mut oks, mut done) = (0u64, true);
        if let Some(r) = &e.rets {
            for x in r.lock().unwrap().iter() {
                match x {
                    None => done = false,
                    Some(true) => oks += 1,
                    Some(false) => {}
                }
            }
        }
        let s = self.sh.lock().unwrap();
        done
            && s.active
            && s.seen_total >= e.base_seen + e.extra_seen + if e.seen_per_ok { oks } else { 0 }
            && s.connacks_ok >= e.base_connacks + e.extra_connacks
            && self.onlines == s.connacks_ok
    }

    /// poll until the expectation holds (connected, the broker has seen what the client calls
    /// that returned Ok sent, ...), then run the sentinel barrier
    async fn settle(&mut self, e: &Expect, obs: &mut Obs, deadline: tokio::time::Instant) {
        loop {
            // phase A
            loop {
                self.prog_rx.borrow_and_update();
                if self.cond(e) {
                    break;
                }
                tokio::select! {
                    biased;
                    ev = self.el.poll() => self.record(&ev, obs),
                    _ = self.prog_rx.changed() => {}
                    _ = tokio::time::sleep_until(deadline) => { obs.timeout = true; return; }
                }
            }
            // phase B: sentinel
            self.sentinel += 1;
            let st = sentinel_topic(self.sentinel);
            let _ = self.cmd.send(Cmd::Publish { topic: st.clone(), payload: vec![], qos: 0 });
            let mut lost = false;
            loop {
                let ev = match tokio::time::timeout_at(deadline, self.el.poll()).await {
                    Ok(ev) => ev,
                    Err(_) => {
                        obs.timeout = true;
                        return;
                    }
                };
                if let Event::InvalidPublish { topic, .. } = &ev {
                    if *topic == st {
                        break;
                    }
                }
                if matches!(ev, Event::Offline) {
                    lost = true;
                }
                self.record(&ev, obs);
                if lost && matches!(ev, Event::Online) {
                    // the connection carrying the sentinel died: start over
                    break;
                }
            }
            if !lost {
                return;
            }
        }
    }

    fn drain(&mut self, obs: &mut Obs, base_connacks: u64) {
        let mut s = self.sh.lock().unwrap();
        obs.conns.append(&mut s.conns);
        obs.seen.append(&mut s.seen);
        obs.connacks = s.connacks_ok - base_connacks;
    }
}

#[derive(Clone, Debug, PartialEq)]
enum Kind {
    Node(NodeMessage),
    Device(DeviceMessage),
    State,
}

fn parse_kind(s: &str) -> Option<Kind> {
    Some(match s {
        "nbirth" => Kind::Node(NodeMessage::NBirth),
        "ndata" => Kind::Node(NodeMessage::NData),
        "ncmd" => Kind::Node(NodeMessage::NCmd),
        "ndeath" => Kind::Node(NodeMessage::NDeath),
        "dbirth" => Kind::Device(DeviceMessage::DBirth),
        "ddata" => Kind::Device(DeviceMessage::DData),
        "dcmd" => Kind::Device(DeviceMessage::DCmd),
        "ddeath" => Kind::Device(DeviceMessage::DDeath),
        "state" => Kind::State,
        _ => return None,
    })
}

/// the property's table, written from its text (not from srad): wire (QoS, retain) per kind
fn spec_qos_retain(kind: &str) -> (u8, bool) {
    match kind {
        "nbirth" | "ndata" | "ncmd" => (0, false),
        "ndeath" | "dbirth" | "ddeath" => (1, false),
        "ddata" | "dcmd" => (0, false),
        "state" => (1, true),
        _ => (9, false),
    }
}

/// what a publish op hands to the client
#[derive(Clone)]
enum PubArg {
    Proto { kind: Kind, topic: String, payload: Payload, bytes: Vec<u8> },
    State { topic: String, online: bool, ts: u64, bytes: Vec<u8> },
}

impl PubArg {
    fn topic(&self) -> &str {
        match self {
            PubArg::Proto { topic, .. } => topic,
            PubArg::State { topic, .. } => topic,
        }
    }
    fn bytes(&self) -> &[u8] {
        match self {
            PubArg::Proto { bytes, .. } => bytes,
            PubArg::State { bytes, .. } => bytes,
        }
    }
}

fn parse_pub(w: &[&str]) -> Option<(String, PubArg)> {
    // <kind> <topic> <payload>  |  state <topic> <0|1> <ts>
    let kind = parse_kind(w.first()?)?;
    let topic = String::from_utf8(unhex_checked(w.get(1)?)?).ok()?;
    match kind {
        Kind::State => {
            if w.len() != 4 {
                return None;
            }
            let online = match w[2] {
                "1" => true,
                "0" => false,
                _ => return None,
            };
            let ts: u64 = w[3].parse().ok()?;
            let p = if online { StatePayload::Online { timestamp: ts } } else { StatePayload::Offline { timestamp: ts } };
            // the property's words: "payload = what the payload type converts to"
            let bytes: Vec<u8> = p.into();
            Some((w[0].to_string(), PubArg::State { topic, online, ts, bytes }))
        }
        k => {
            if w.len() != 3 {
                return None;
            }
            let raw = unhex_checked(w[2])?;
            let payload = Payload::decode(&raw[..]).ok()?;
            let bytes = payload.encode_to_vec();
            Some((w[0].to_string(), PubArg::Proto { kind: k, topic, payload, bytes }))
        }
    }
}

fn unhex_checked(s: &str) -> Option<Vec<u8>> {
    if s == "-" {
        return Some(vec![]);
    }
    if s.len() % 2 != 0 || !s.bytes().all(|c| c.is_ascii_digit() || (b'a'..=b'f').contains(&c)) {
        return None;
    }
    Some(unhex(s))
}

async fn call_pub(c: &Client, a: PubArg) -> Result<(), ()> {
    match a {
        PubArg::Proto { kind: Kind::Node(m), topic, payload, .. } => {
            c.publish_node_message(NodeTopic { topic, message_type: m }, payload).await
        }
        PubArg::Proto { kind: Kind::Device(m), topic, payload, .. } => {
            c.publish_device_message(DeviceTopic { topic, message_type: m }, payload).await
        }
        PubArg::State { topic, online, ts, .. } => {
            let p = if online { StatePayload::Online { timestamp: ts } } else { StatePayload::Offline { timestamp: ts } };
            c.publish_state_message(StateTopic { topic }, p).await
        }
        PubArg::Proto { kind: Kind::State, .. } => Err(()),
    }
}

async fn call_try(c: &Client, a: PubArg) -> Result<(), ()> {
    match a {
        PubArg::Proto { kind: Kind::Node(m), topic, payload, .. } => {
            c.try_publish_node_message(NodeTopic { topic, message_type: m }, payload).await
        }
        PubArg::Proto { kind: Kind::Device(m), topic, payload, .. } => {
            c.try_publish_device_message(DeviceTopic { topic, message_type: m }, payload).await
        }
        PubArg::State { topic, online, ts, .. } => {
            let p = if online { StatePayload::Online { timestamp: ts } } else { StatePayload::Offline { timestamp: ts } };
            c.try_publish_state_message(StateTopic { topic }, p).await
        }
        PubArg::Proto { kind: Kind::State, .. } => Err(()),
    }
}

fn parse_filters(s: &str) -> Option<Vec<TopicFilter>> {
    if s == "-" {
        return Some(vec![]);
    }
    let mut v = vec![];
    for f in s.split(',') {
        let (spec, q) = f.rsplit_once(':')?;
        let qos = match q {
            "0" => QoS::AtMostOnce,
            "1" => QoS::AtLeastOnce,
            _ => return None,
        };
        let parts: Vec<&str> = spec.split('.').collect();
        let st = |h: &str| -> Option<String> { String::from_utf8(unhex_checked(h)?).ok() };
        let topic = match parts.as_slice() {
            ["full"] => Topic::FullNamespace,
            ["group", id] => Topic::Group { id: st(id)? },
            ["node", g, n] => Topic::Node { group_id: st(g)?, node_id: st(n)? },
            ["ntopic", t] => Topic::NodeTopic(NodeTopic { topic: st(t)?, message_type: NodeMessage::NCmd }),
            ["dtopic", t] => Topic::DeviceTopic(DeviceTopic { topic: st(t)?, message_type: DeviceMessage::DCmd }),
            ["state", t] => Topic::State(StateTopic { topic: st(t)? }),
            _ => return None,
        };
        v.push(TopicFilter::new_with_qos(topic, qos));
    }
    Some(v)
}

fn parse_pols(s: &str) -> Option<Vec<Pol>> {
    if s == "-" {
        return Some(vec![]);
    }
    s.split(',')
        .map(|p| match p {
            "ok" => Some(Pol::Ok),
            "refuse" => Some(Pol::Refuse),
            "drop" => Some(Pol::Drop),
            "junk" => Some(Pol::Junk),
            _ => None,
        })
        .collect()
}

fn parse_will(s: &str) -> Option<Option<WillT>> {
    if s == "~" {
        return Some(None);
    }
    let p: Vec<&str> = s.split(':').collect();
    if p.len() != 4 {
        return None;
    }
    let t = unhex_checked(p[0])?;
    String::from_utf8(t.clone()).ok()?;
    let q = match p[2] {
        "0" => 0,
        "1" => 1,
        _ => return None,
    };
    let r = match p[3] {
        "0" => false,
        "1" => true,
        _ => return None,
    };
    Some(Some((t, unhex_checked(p[1])?, q, r)))
}

fn srad_qos(q: u8) -> QoS {
    if q == 0 {
        QoS::AtMostOnce
    } else {
        QoS::AtLeastOnce
    }
}

/// direct oracles over one step's observations
struct StepCheck<'a> {
    res: &'a mut CaseResult,
}

impl<'a> StepCheck<'a> {
    fn fail(&mut self, clause: &str, feature: &str, detail: String) {
        self.res.fails.push((format!("M14:{}", clause), feature.to_string(), detail));
    }

    fn common(&mut self, op: &str, obs: &Obs, cur_will: &Option<WillT>) {
        for c in &obs.conns {
            if !c.cs {
                self.fail("clean-start", "connect", format!("{} : CONNECT without clean start", op));
            }
            if c.se != Some(0) {
                self.fail("session-expiry", "connect", format!("{} : session expiry {:?}", op, c.se));
            }
            if c.will != *cur_will {
                let f = if c.will.is_none() { "no-will" } else { "other-will" };
                self.fail("will-on-wire", f, format!("{} : CONNECT carries {} but the last set_last_will was {}", op, show_will(&c.will), show_will(cur_will)));
            }
            if c.will_props {
                self.fail("will-on-wire", "properties", format!("{} : will properties present", op));
            }
        }
        let onlines = obs.ev.iter().filter(|e| *e == "on").count() as u64;
        if onlines != obs.connacks {
            self.fail("online-per-connack", "count", format!("{} : {} Online for {} successful CONNACK", op, onlines, obs.connacks));
        }
        if obs.timeout {
            self.fail("quiet", "timeout", format!("{} : step did not reach its barrier: {}", op, obs.answer(0)));
        }
    }

    /// a connection that was up was lost in this step: Offline must come before the next Online
    fn loss(&mut self, op: &str, obs: &Obs, feature: &str) {
        let first = obs.ev.iter().skip(obs.pre_ev).find(|e| *e == "on" || *e == "off");
        if first.map(|s| s.as_str()) != Some("off") {
            self.fail("offline-after-loss", feature, format!("{} : events {:?}", op, obs.ev));
        }
    }

    /// the property's words on the 1 s sleep: one per failed connection attempt while
    /// Disconnected, none after a manual disconnect, none on the error that ends a connection.
    /// `manual_start`: the step began after a client disconnect not yet followed by Online;
    /// `op_manual`: the op itself is a client disconnect
    fn want_sleeps(obs: &Obs, manual_start: bool, op_manual: bool) -> u64 {
        let pre_failed = obs.pre_conn.saturating_sub(1) as u64;
        let post = obs.conns.len() - obs.pre_conn;
        let post_failed = post.saturating_sub(1) as u64;
        let post_manual = op_manual || (manual_start && obs.pre_conn == 0 && obs.pre_ev == 0);
        (if manual_start { 0 } else { pre_failed }) + (if post_manual { 0 } else { post_failed })
    }

    fn sleeps(&mut self, op: &str, obs: &Obs, sl: u64, manual_start: bool, op_manual: bool) {
        let pre_failed = obs.pre_conn.saturating_sub(1) as u64;
        let post = obs.conns.len() - obs.pre_conn;
        let post_failed = post.saturating_sub(1) as u64;
        let want = Self::want_sleeps(obs, manual_start, op_manual);
        if sl != want {
            let f = if sl > want { "too-long" } else { "too-short" };
            self.fail("sleep", f, format!("{} : the step took {} whole seconds, {} expected ({} + {} failed attempts, manual {} {})", op, sl, want, pre_failed, post_failed, manual_start, op_manual));
        }
    }

    /// a lost connection is reported by exactly one Offline
    fn one_offline(&mut self, op: &str, obs: &Obs, feature: &str) {
        let n = obs.ev.iter().skip(obs.pre_ev).filter(|e| *e == "off").count();
        if n != 1 {
            self.fail("offline-once", feature, format!("{} : {} Offline events {:?}", op, n, obs.ev));
        }
    }

    fn publishes(&mut self, op: &str, kind: &str, arg: &PubArg, n_ok: usize, obs: &Obs) {
        let pubs: Vec<&Seen> = obs.seen.iter().filter(|s| matches!(s, Seen::Pub { .. })).collect();
        if pubs.len() != n_ok {
            self.fail("publish-count", kind, format!("{} : {} calls returned Ok, broker saw {} PUBLISH", op, n_ok, pubs.len()));
        }
        let (q, r) = spec_qos_retain(kind);
        for p in pubs {
            if let Seen::Pub { topic, qos, retain, payload, dup, props } = p {
                if (*qos, *retain) != (q, r) {
                    self.fail("qos-retain", kind, format!("{} : wire qos {} retain {} expected {} {}", op, qos, retain, q, r));
                }
                if topic[..] != *arg.topic().as_bytes() {
                    self.fail("topic", kind, format!("{} : wire topic {}", op, hex(topic)));
                }
                if payload[..] != *arg.bytes() {
                    self.fail("payload-bytes", kind, format!("{} : wire payload {} expected {}", op, hex(payload), hex(arg.bytes())));
                }
                if *dup || *props {
                    self.fail("publish-flags", kind, format!("{} : dup {} properties {}", op, dup, props));
                }
            }
        }
    }
}

async fn run_case_async(ops: &[String], res: &mut CaseResult) {
    let mut sess: Option<Sess> = None;
    run_ops(ops, res, &mut sess).await;
}

async fn run_ops(ops: &[String], res: &mut CaseResult, sess_slot: &mut Option<Sess>) {
    let mut sess: Option<Sess> = sess_slot.take();
    let mut _broker_task: Option<tokio::task::JoinHandle<()>> = None;
    for op in ops {
        res.cur_op = Some(op.clone());
        let w: Vec<&str> = op.split(' ').filter(|x| !x.is_empty()).collect();
        if w.first() != Some(&"rumqtt") || w.len() < 2 {
            res.lines.push((op.clone(), "bad-op".into()));
            continue;
        }
        // ---- ops without a session / without polling
        if w[1] == "new" {
            {
                let ok = (|| {
                    if w.len() != 6 {
                        return None;
                    }
                    let cap: usize = w[2].parse().ok()?;
                    if cap > 64 {
                        return None;
                    }
                    let cs = match w[3] {
                        "0" => false,
                        "1" => true,
                        _ => return None,
                    };
                    let se: Option<u32> = if w[4] == "~" { None } else { Some(w[4].parse().ok()?) };
                    let will = parse_will(w[5])?;
                    Some((cap, cs, se, will))
                })();
                let (cap, cs, se, will) = match ok {
                    Some(x) => x,
                    None => {
                        res.lines.push((op.clone(), "bad-op".into()));
                        continue;
                    }
                };
                let listener = TcpListener::bind("127.0.0.1:0").await.expect("bind 127.0.0.1:0");
                let port = listener.local_addr().unwrap().port();
                let sh: Shared = Arc::new(Mutex::new(BState::default()));
                let (ctx, crx) = mpsc::unbounded_channel();
                let (ptx, prx) = watch::channel(0u64);
                let prog: Progress = Arc::new(ptx);
                _broker_task = Some(tokio::spawn(broker(listener, sh.clone(), crx, prog.clone())));
                let mut o = MqttOptions::new("m14", "127.0.0.1", port);
                o.set_clean_start(cs);
                if let Some(se) = se {
                    let mut cp = ConnectProperties::new();
                    cp.session_expiry_interval = Some(se);
                    o.set_connect_properties(cp);
                }
                if let Some((t, p, q, r)) = &will {
                    o.set_last_will(rumqttc::v5::mqttbytes::v5::LastWill::new(
                        String::from_utf8(t.clone()).unwrap(),
                        p.clone(),
                        if *q == 0 { MQoS::AtMostOnce } else { MQoS::AtLeastOnce },
                        *r,
                        None,
                    ));
                }
                let (el, client) = EventLoop::new(o, cap);
                sess = Some(Sess { el, client, sh, cmd: ctx, prog, prog_rx: prx, onlines: 0, sentinel: 0, cap, cur_will: will, manual: false });
                res.lines.push((op.clone(), "ok".into()));
                continue;
            }
        }
        if w[1] == "end" {
            sess = None;
            if let Some(t) = _broker_task.take() {
                t.abort();
            }
            res.lines.push((op.clone(), "ok".into()));
            continue;
        }
        if sess.is_none() {
            res.lines.push((op.clone(), "bad-op".into()));
            continue;
        }
        let s = sess.as_mut().unwrap();
        match w[1] {
            "will" => {
                let parsed = (|| {
                    if w.len() != 6 {
                        return None;
                    }
                    parse_will(&format!("{}:{}:{}:{}", w[2], w[3], w[4], w[5]))?
                })();
                match parsed {
                    Some((t, p, q, r)) => {
                        s.el.set_last_will(LastWill {
                            topic: String::from_utf8(t.clone()).unwrap(),
                            retain: r,
                            qos: srad_qos(q),
                            payload: p.clone(),
                        });
                        s.cur_will = Some((t, p, q, r));
                        res.counts.push("op_will".into());
                        res.lines.push((op.clone(), "ok".into()));
                    }
                    None => res.lines.push((op.clone(), "bad-op".into())),
                }
                continue;
            }
            "policy" => {
                match if w.len() == 3 { parse_pols(w[2]) } else { None } {
                    Some(p) => {
                        if p.iter().any(|x| *x != Pol::Ok) {
                            res.nontrivial = true;
                        }
                        for x in &p {
                            res.counts.push(format!("policy_{:?}", x).to_lowercase());
                        }
                        s.sh.lock().unwrap().pols = p.into();
                        res.lines.push((op.clone(), "ok".into()));
                    }
                    None => res.lines.push((op.clone(), "bad-op".into())),
                }
                continue;
            }
            _ => {}
        }
        // ---- polling ops
        let t0 = Instant::now();
        let npols = s.sh.lock().unwrap().pols.len() as u64;
        let deadline = tokio::time::Instant::now() + Duration::from_secs(8 + npols);
        let mut obs = Obs::default();
        let step_base_connacks = s.snapshot().1;
        // every op starts from a live connection
        let needs_conn = w[1] != "settle";
        if needs_conn && !s.snapshot().2 {
            let e = s.expect();
            s.settle(&e, &mut obs, deadline).await;
            obs.pre_ev = obs.ev.len();
            obs.pre_conn = s.sh.lock().unwrap().conns.len();
        }
        let mut out_op = op.clone();
        let mut bad = false;
        let mut after: Option<Box<dyn FnOnce(&mut StepCheck, &str, &Obs)>> = None;
        if !obs.timeout {
            match w[1] {
                "settle" if w.len() == 2 => {
                    let e = s.expect();
                    s.settle(&e, &mut obs, deadline).await;
                    res.counts.push("op_settle".into());
                }
                "bpub" if w.len() == 6 => {
                    let parsed = (|| Some((unhex_checked(w[2])?, unhex_checked(w[3])?, w[5].parse::<u8>().ok().filter(|q| *q <= 1)?)))();
                    match parsed {
                        Some((t, p, q)) if !t.starts_with(b"$M14/") => {
                            let _ = s.cmd.send(Cmd::Publish { topic: t.clone(), payload: p.clone(), qos: q });
                            let e = s.expect();
                            s.settle(&e, &mut obs, deadline).await;
                            res.counts.push("op_bpub".into());
                            let want = catch(std::panic::AssertUnwindSafe(|| show_event(&topic_and_payload_to_event(t.clone(), p.clone()))));
                            after = Some(Box::new(move |c, op, obs| {
                                let got: Vec<&String> = obs.ev.iter().filter(|e| e.starts_with("m:")).collect();
                                match &want {
                                    Ok(wv) => {
                                        if got.len() != 1 || got[0] != wv {
                                            c.fail("publish-passthrough", "event", format!("{} : events {:?}, topic_and_payload_to_event gives {}", op, obs.ev, wv));
                                        }
                                    }
                                    Err(_) => c.fail("no-panic", "topic_and_payload_to_event", op.to_string()),
                                }
                            }));
                        }
                        _ => bad = true,
                    }
                }
                "bdisc" | "bdiscb" | "bdrop" if w.len() == 2 => {
                    let _ = s.cmd.send(match w[1] {
                        "bdisc" => Cmd::Disconnect { bare: false },
                        "bdiscb" => Cmd::Disconnect { bare: true },
                        _ => Cmd::Drop,
                    });
                    let mut e = s.expect();
                    e.extra_connacks = 1;
                    s.settle(&e, &mut obs, deadline).await;
                    res.nontrivial = true;
                    res.counts.push(format!("op_{}", w[1]));
                    let f = w[1].to_string();
                    after = Some(Box::new(move |c, op, obs| {
                        c.loss(op, obs, &f);
                        c.one_offline(op, obs, &f)
                    }));
                }
                "bburst" if w.len() == 6 || w.len() == 7 => {
                    let parsed = (|| Some((w[2].parse::<usize>().ok().filter(|n| *n <= 9)?, unhex_checked(w[3])?, unhex_checked(w[4])?)))();
                    match parsed {
                        Some((n, t, p)) if !t.starts_with(b"$M14/") => {
                            let _ = s.cmd.send(Cmd::Burst { n, topic: t.clone(), payload: p.clone() });
                            let mut e = s.expect();
                            e.extra_connacks = 1;
                            s.settle(&e, &mut obs, deadline).await;
                            res.nontrivial = true;
                            res.counts.push("op_bburst".into());
                            // the observed split: messages returned before the first Offline
                            let k = obs.ev.iter().skip(obs.pre_ev).take_while(|e| *e != "off").filter(|e| e.starts_with("m:")).count();
                            res.counts.push(format!("burst_before_offline_{}", if k == 0 { "none" } else if k == n { "all" } else { "some" }));
                            out_op = format!("rumqtt bburst {} {} {} {} k={}", w[2], w[3], w[4], w[5], k);
                            let want = catch(std::panic::AssertUnwindSafe(|| show_event(&topic_and_payload_to_event(t.clone(), p.clone()))));
                            after = Some(Box::new(move |c, op, obs| {
                                c.loss(op, obs, "bburst");
                                c.one_offline(op, obs, "bburst");
                                let got: Vec<&String> = obs.ev.iter().filter(|e| e.starts_with("m:")).collect();
                                if let Ok(wv) = &want {
                                    if got.len() != n || got.iter().any(|g| *g != wv) {
                                        c.fail("publish-passthrough", "burst", format!("{} : events {:?}", op, obs.ev));
                                    }
                                }
                            }));
                        }
                        _ => bad = true,
                    }
                }
                "cpub" => match parse_pub(&w[2..]) {
                    Some((kind, arg)) => {
                        let rets: Rets = Arc::new(Mutex::new(vec![None]));
                        let (c, a, r2, pr) = (s.client.clone(), arg.clone(), rets.clone(), s.prog.clone());
                        let h = tokio::spawn(async move {
                            let r = call_pub(&c, a).await;
                            r2.lock().unwrap()[0] = Some(r.is_ok());
                            bump(&pr);
                        });
                        let mut e = s.expect();
                        e.rets = Some(rets.clone());
                        e.seen_per_ok = true;
                        s.settle(&e, &mut obs, deadline).await;
                        h.abort();
                        let r = rets.lock().unwrap()[0];
                        obs.ret.push(match r {
                            Some(true) => "ok".into(),
                            Some(false) => "err".into(),
                            None => "blocked".into(),
                        });
                        res.counts.push(format!("op_cpub_{}", kind));
                        let n_ok = (r == Some(true)) as usize;
                        after = Some(Box::new(move |c, op, obs| c.publishes(op, &kind, &arg, n_ok, obs)));
                    }
                    None => bad = true,
                },
                "ctry" if w.len() >= 3 => match (w[2].parse::<usize>().ok().filter(|n| *n <= 70), parse_pub(&w[3..])) {
                    (Some(n), Some((kind, arg))) => {
                        // nobody polls between the calls: the harness task does not yield
                        let mut oks = 0usize;
                        for _ in 0..n {
                            let r = call_try(&s.client, arg.clone()).await;
                            obs.ret.push(if r.is_ok() { "ok".into() } else { "err".into() });
                            oks += r.is_ok() as usize;
                        }
                        if oks < n {
                            res.nontrivial = true;
                            res.counts.push("queue_full_try".into());
                        }
                        let mut e = s.expect();
                        e.extra_seen = oks as u64;
                        s.settle(&e, &mut obs, deadline).await;
                        res.counts.push(format!("op_ctry_{}", kind));
                        after = Some(Box::new(move |c, op, obs| c.publishes(op, &kind, &arg, oks, obs)));
                    }
                    _ => bad = true,
                },
                "cfull" => match parse_pub(&w[2..]) {
                    Some((kind, arg)) => {
                        let mut oks = 0usize;
                        for _ in 0..s.cap {
                            let r = call_try(&s.client, arg.clone()).await;
                            obs.ret.push(if r.is_ok() { "ok".into() } else { "err".into() });
                            oks += r.is_ok() as usize;
                        }
                        // the queue is full and nobody polls: the blocking variant must wait
                        let r = tokio::time::timeout(Duration::from_millis(30), call_pub(&s.client, arg.clone())).await;
                        obs.ret.push(match r {
                            Err(_) => "blocked".into(),
                            Ok(Ok(())) => {
                                oks += 1;
                                "ok".into()
                            }
                            Ok(Err(())) => "err".into(),
                        });
                        res.nontrivial = true;
                        res.counts.push("queue_full_blocking".into());
                        let mut e = s.expect();
                        e.extra_seen = oks as u64;
                        s.settle(&e, &mut obs, deadline).await;
                        after = Some(Box::new(move |c, op, obs| c.publishes(op, &kind, &arg, oks, obs)));
                    }
                    None => bad = true,
                },
                "csub" if w.len() == 3 => match parse_filters(w[2]) {
                    Some(fs) => {
                        let empty = fs.is_empty();
                        let want: Vec<(Vec<u8>, u8)> = fs
                            .iter()
                            .map(|f| (String::from(f.topic.clone()).into_bytes(), if f.qos == QoS::AtMostOnce { 0 } else { 1 }))
                            .collect();
                        let rets: Rets = Arc::new(Mutex::new(vec![None]));
                        let (c, r2, pr) = (s.client.clone(), rets.clone(), s.prog.clone());
                        let h = tokio::spawn(async move {
                            let r = c.subscribe_many(fs).await;
                            r2.lock().unwrap()[0] = Some(r.is_ok());
                            bump(&pr);
                        });
                        let mut e = s.expect();
                        e.rets = Some(rets.clone());
                        if empty {
                            // rumqttc refuses an empty SUBSCRIBE inside its event loop: the
                            // connection is torn down and re-established
                            e.extra_connacks = 1;
                            res.nontrivial = true;
                        } else {
                            e.seen_per_ok = true;
                        }
                        s.settle(&e, &mut obs, deadline).await;
                        h.abort();
                        let r = rets.lock().unwrap()[0];
                        obs.ret.push(match r {
                            Some(true) => "ok".into(),
                            Some(false) => "err".into(),
                            None => "blocked".into(),
                        });
                        res.counts.push(if empty { "op_csub_empty".into() } else { "op_csub".into() });
                        after = Some(Box::new(move |c, op, obs| {
                            if empty {
                                return;
                            }
                            let subs: Vec<&Seen> = obs.seen.iter().filter(|s| matches!(s, Seen::Sub(_))).collect();
                            let ok = subs.len() == 1
                                && match subs[0] {
                                    Seen::Sub(fs) => {
                                        fs.len() == want.len()
                                            && fs.iter().zip(want.iter()).all(|(a, b)| a.0 == b.0 && a.1 == b.1 && !a.2 && !a.3)
                                    }
                                    _ => false,
                                };
                            if !ok {
                                c.fail("subscribe-filters", "filters", format!("{} : broker saw {:?}", op, obs.seen));
                            }
                        }));
                    }
                    None => bad = true,
                },
                "cdisc" if w.len() == 3 && ["stop", "cont", "twice"].contains(&w[2]) => {
                    res.nontrivial = true;
                    res.counts.push(format!("op_cdisc_{}", w[2]));
                    if w[2] == "twice" {
                        if s.cap < 2 {
                            obs.ret.push("unsupported".into());
                        } else {
                            // both requests are queued before the event loop runs again
                            for _ in 0..2 {
                                let r = s.client.disconnect().await;
                                obs.ret.push(if r.is_ok() { "ok".into() } else { "err".into() });
                            }
                            let mut e = s.expect();
                            e.extra_seen = 1;
                            e.extra_connacks = 1;
                            s.settle(&e, &mut obs, deadline).await;
                        }
                    } else {
                        let rets: Rets = Arc::new(Mutex::new(vec![None]));
                        let (c, r2, pr) = (s.client.clone(), rets.clone(), s.prog.clone());
                        let h = tokio::spawn(async move {
                            let r = c.disconnect().await;
                            r2.lock().unwrap()[0] = Some(r.is_ok());
                            bump(&pr);
                        });
                        let mut e = s.expect();
                        e.rets = Some(rets.clone());
                        e.seen_per_ok = true;
                        if w[2] == "cont" {
                            e.extra_connacks = 1;
                            s.settle(&e, &mut obs, deadline).await;
                        } else {
                            // poll until the first event, then stop polling (as srad's own loops do
                            // after their disconnect) and only wait for the broker to see the packet
                            let mut have = false;
                            loop {
                                s.prog_rx.borrow_and_update();
                                let done = rets.lock().unwrap()[0].is_some();
                                let seen_ok = {
                                    let oks = (rets.lock().unwrap()[0] == Some(true)) as u64;
                                    s.sh.lock().unwrap().seen_total >= e.base_seen + oks
                                };
                                if have && done && seen_ok {
                                    break;
                                }
                                tokio::select! {
                                    biased;
                                    ev = s.el.poll(), if !have => { s.record(&ev, &mut obs); have = true; }
                                    _ = s.prog_rx.changed() => {}
                                    _ = tokio::time::sleep_until(deadline) => { obs.timeout = true; break; }
                                }
                            }
                        }
                        h.abort();
                        let r = rets.lock().unwrap()[0];
                        obs.ret.push(match r {
                            Some(true) => "ok".into(),
                            Some(false) => "err".into(),
                            None => "blocked".into(),
                        });
                    }
                    after = Some(Box::new(move |c, op, obs| {
                        if !obs.ret.contains(&"unsupported".to_string()) {
                            c.loss(op, obs, "cdisc")
                        }
                    }));
                }
                _ => bad = true,
            }
        }
        if bad {
            res.lines.push((op.clone(), "bad-op".into()));
            continue;
        }
        s.drain(&mut obs, step_base_connacks);
        let sl = t0.elapsed().as_secs();
        let cur_will = s.cur_will.clone();
        let manual_start = s.manual;
        let op_manual = w[1] == "cdisc" && !obs.ret.contains(&"unsupported".to_string());
        // scheduling slack on a loaded machine: real time is only a lower bound on the glue's sleeps
        // plus the harness's own overhead; one extra whole second is not an extra sleep
        let sl = {
            let want = StepCheck::want_sleeps(&obs, manual_start, op_manual);
            if sl == want + 1 { want } else { sl }
        };
        if op_manual {
            s.manual = true;
        }
        if obs.ev.last().map(|e| e == "on").unwrap_or(false) || (!op_manual && obs.ev.iter().any(|e| e == "on")) {
            s.manual = false;
        }
        if w[1] == "cdisc" && w.get(2) == Some(&"stop") {
            s.manual = true;
        }
        let mut chk = StepCheck { res };
        chk.common(&out_op, &obs, &cur_will);
        chk.sleeps(&out_op, &obs, sl, manual_start, op_manual);
        if let Some(f) = after {
            f(&mut chk, &out_op, &obs);
        }
        if obs.conns.len() > 1 || sl > 0 {
            res.counts.push("step_with_failed_reconnect".into());
        }
        res.lines.push((out_op, obs.answer(sl)));
    }
    res.cur_op = None;
    *sess_slot = sess;
}

/// run one case (its own current-thread runtime with real time and I/O)
pub fn run_case(ops: &[String]) -> CaseResult {
    let mut res = CaseResult::default();
    let r = std::panic::catch_unwind(std::panic::AssertUnwindSafe(|| {
        let rt = tokio::runtime::Builder::new_current_thread().enable_all().build().unwrap();
        rt.block_on(run_case_async(ops, &mut res));
    }));
    if let Err(e) = r {
        let msg = e.downcast_ref::<String>().cloned().or(e.downcast_ref::<&str>().map(|s| s.to_string())).unwrap_or_default();
        let op = res.cur_op.take().unwrap_or_else(|| "rumqtt ?".into());
        res.fails.push(("M14:no-panic".into(), "panic".into(), format!("{} : {}", op, msg)));
        res.lines.push((op, "panic".into()));
    }
    res
}

fn emit(out: &mut Out, r: CaseResult, desc: Option<String>) {
    let mut first = true;
    for (op, a) in &r.lines {
        if first || op.starts_with("rumqtt new ") {
            out.begin_case(op, a);
            if let Some(d) = &desc {
                out.set_desc(d.clone());
            }
            first = false;
        } else {
            out.line(op, a);
        }
    }
    if r.nontrivial {
        out.nontrivial();
    }
    for c in &r.counts {
        out.count(c);
    }
    for (c, f, d) in r.fails {
        out.fail(&c, &f, d);
    }
}

/// run the cases on a few threads (each has its own broker and port); emit in order
fn run_cases(cases: Vec<Vec<String>>, out: &mut Out) {
    let n = cases.len();
    let results: Mutex<Vec<Option<CaseResult>>> = Mutex::new((0..n).map(|_| None).collect());
    let next = AtomicUsize::new(0);
    let threads = std::thread::available_parallelism().map(|x| x.get()).unwrap_or(4).clamp(2, 8);
    std::thread::scope(|sc| {
        for _ in 0..threads {
            sc.spawn(|| loop {
                let i = next.fetch_add(1, Ordering::SeqCst);
                if i >= n {
                    break;
                }
                let r = run_case(&cases[i]);
                results.lock().unwrap()[i] = Some(r);
            });
        }
    });
    for r in results.into_inner().unwrap() {
        emit(out, r.unwrap(), None);
    }
}

pub fn replay(_desc: &str, ops: &[String], out: &mut Out) {
    // `k=<n>` of a burst is an observation: drop it, it is observed again
    let ops: Vec<String> = ops
        .iter()
        .map(|o| {
            if o.starts_with("rumqtt bburst ") {
                o.split(' ').filter(|t| !t.starts_with("k=")).collect::<Vec<_>>().join(" ")
            } else {
                o.clone()
            }
        })
        .collect();
    emit(out, run_case(&ops), None);
}

// ---------------------------------------------------------------------------------------------
// generators
// ---------------------------------------------------------------------------------------------

const KINDS: [&str; 9] = ["nbirth", "ndata", "ncmd", "ndeath", "dbirth", "ddata", "dcmd", "ddeath", "state"];

fn rand_id(rng: &mut Rng) -> String {
    const A: [&str; 12] = ["g", "G1", "node", "n-2", "dev", "Line 4", "é", "温度", "a.b", "x_y", "Z", "0"];
    let mut s = rng.pick(&A).to_string();
    if rng.chance(1, 3) {
        s.push_str(&rng.below(100).to_string());
    }
    s
}

fn rand_payload(rng: &mut Rng) -> Payload {
    let mut p = Payload {
        timestamp: if rng.chance(3, 4) { Some(rng.next() >> rng.below(40)) } else { None },
        metrics: vec![],
        seq: if rng.chance(3, 4) { Some(rng.below(256)) } else { None },
        uuid: None,
        body: if rng.chance(1, 8) { Some((0..rng.below(5)).map(|_| rng.next() as u8).collect()) } else { None },
    };
    for _ in 0..rng.below(4) {
        let value = match rng.below(7) {
            0 => Some(metric::Value::IntValue(rng.next() as u32)),
            1 => Some(metric::Value::LongValue(rng.next())),
            2 => Some(metric::Value::FloatValue((rng.next() as i32 as f32) / 7.0)),
            3 => Some(metric::Value::BooleanValue(rng.chance(1, 2))),
            4 => Some(metric::Value::StringValue(rand_id(rng))),
            5 => Some(metric::Value::BytesValue((0..rng.below(9)).map(|_| rng.next() as u8).collect())),
            _ => None,
        };
        p.metrics.push(Metric {
            name: if rng.chance(2, 3) { Some(rand_id(rng)) } else { None },
            alias: if rng.chance(1, 2) { Some(rng.below(1000)) } else { None },
            timestamp: if rng.chance(1, 2) { Some(rng.next() >> 20) } else { None },
            datatype: Some(rng.below(20) as u32),
            is_historical: None,
            is_transient: None,
            is_null: if value.is_none() { Some(true) } else { None },
            metadata: None,
            properties: None,
            value,
        });
    }
    p
}

/// `bdSeq` death payload as srad-eon builds it: one UInt64 metric "bdSeq"
fn bdseq_payload(bd: u64) -> Payload {
    Payload {
        timestamp: None,
        metrics: vec![Metric {
            name: Some("bdSeq".into()),
            alias: None,
            timestamp: None,
            datatype: Some(8),
            is_historical: None,
            is_transient: None,
            is_null: None,
            metadata: None,
            properties: None,
            value: Some(metric::Value::LongValue(bd)),
        }],
        seq: None,
        uuid: None,
        body: None,
    }
}

fn topic_of(kind: &str, g: &str, n: &str, d: &str) -> String {
    match parse_kind(kind).unwrap() {
        Kind::Node(m) => NodeTopic::new(g, m, n).topic,
        Kind::Device(m) => DeviceTopic::new(g, m, n, d).topic,
        Kind::State => StateTopic::new_host(g).topic,
    }
}

fn pub_args(rng: &mut Rng, kind: &str, topic: &str) -> String {
    if kind == "state" {
        format!("state {} {} {}", hex(topic.as_bytes()), rng.below(2), [0u64, 1, 1_700_000_000_000, u64::MAX][rng.below(4) as usize])
    } else {
        format!("{} {} {}", kind, hex(topic.as_bytes()), hex(&rand_payload(rng).encode_to_vec()))
    }
}

fn rand_pub_args(rng: &mut Rng) -> String {
    let kind = *rng.pick(&KINDS);
    let (g, n, d) = (rand_id(rng), rand_id(rng), rand_id(rng));
    let mut topic = topic_of(kind, &g, &n, &d);
    match rng.below(12) {
        0 => topic = format!("spBv1.0/{}/+/x", g), // wildcard: rumqttc refuses
        1 => topic = "a/#".into(),
        2 => topic = String::new(),
        3 => topic = "not/sparkplug/at/all".into(),
        _ => {}
    }
    pub_args(rng, kind, &topic)
}

fn will_op(rng: &mut Rng, g: &str, n: &str, bd: u64, app: bool) -> String {
    let w = if app {
        LastWill::new_app(g, 1_700_000_000_000 + bd)
    } else {
        LastWill::new_node(g, n, bdseq_payload(bd))
    };
    let _ = rng;
    format!(
        "rumqtt will {} {} {} {}",
        hex(w.topic.as_bytes()),
        hex(&w.payload),
        if w.qos == QoS::AtMostOnce { 0 } else { 1 },
        w.retain as u8
    )
}

fn rand_will_raw(rng: &mut Rng) -> String {
    let t = format!("{}/{}", rand_id(rng), rand_id(rng));
    let p: Vec<u8> = (0..rng.below(12)).map(|_| rng.next() as u8).collect();
    format!("rumqtt will {} {} {} {}", hex(t.as_bytes()), hex(&p), rng.below(2), rng.below(2))
}

fn rand_filters(rng: &mut Rng) -> String {
    let n = rng.range(1, 3);
    (0..n)
        .map(|_| {
            let q = rng.below(2);
            let (g, nn) = (rand_id(rng), rand_id(rng));
            match rng.below(6) {
                0 => format!("full:{}", q),
                1 => format!("group.{}:{}", hex(g.as_bytes()), q),
                2 => format!("node.{}.{}:{}", hex(g.as_bytes()), hex(nn.as_bytes()), q),
                3 => format!("ntopic.{}:{}", hex(NodeTopic::new(&g, NodeMessage::NCmd, &nn).topic.as_bytes()), q),
                4 => format!("dtopic.{}:{}", hex(DeviceTopic::new(&g, DeviceMessage::DCmd, &nn, "d").topic.as_bytes()), q),
                _ => format!("state.{}:{}", hex(StateTopic::new().topic.as_bytes()), q),
            }
        })
        .collect::<Vec<_>>()
        .join(",")
}

fn rand_incoming(rng: &mut Rng) -> String {
    let (g, n, d) = (rand_id(rng), rand_id(rng), rand_id(rng));
    let (topic, payload): (Vec<u8>, Vec<u8>) = match rng.below(8) {
        0 => (topic_of("ndata", &g, &n, &d).into_bytes(), rand_payload(rng).encode_to_vec()),
        1 => (topic_of("dbirth", &g, &n, &d).into_bytes(), rand_payload(rng).encode_to_vec()),
        2 => (topic_of("nbirth", &g, &n, &d).into_bytes(), rand_payload(rng).encode_to_vec()),
        3 => (
            StateTopic::new_host(&g).topic.into_bytes(),
            Vec::<u8>::from(if rng.chance(1, 2) { StatePayload::Online { timestamp: rng.next() >> 20 } } else { StatePayload::Offline { timestamp: rng.next() >> 20 } }),
        ),
        4 => (topic_of("ddata", &g, &n, &d).into_bytes(), (0..rng.range(1, 9)).map(|_| rng.next() as u8).collect()), // garbage payload
        5 => ((0..rng.range(1, 12)).map(|_| rng.next() as u8).collect(), vec![]),                                     // garbage topic
        6 => (format!("spBv1.0/{}/NFOO/{}", g, n).into_bytes(), rand_payload(rng).encode_to_vec()),
        _ => (StateTopic::new_host(&g).topic.into_bytes(), b"{\"online\": maybe}".to_vec()),
    };
    let f = Payload::decode(&payload[..]).is_ok() as u8;
    format!("{} {} {}", hex(&topic), hex(&payload), f)
}

fn new_op(rng: &mut Rng, cap: usize) -> String {
    let cs = rng.below(2);
    let se = match rng.below(3) {
        0 => "~".to_string(),
        1 => "0".to_string(),
        _ => rng.range(1, 100000).to_string(),
    };
    let will = if rng.chance(1, 4) { format!("{}:{}:{}:{}", hex(b"user/will"), hex(&[rng.next() as u8, 2, 3]), rng.below(2), rng.below(2)) } else { "~".into() };
    format!("rumqtt new {} {} {} {}", cap, cs, se, will)
}

/// scripted scenarios (always run)
fn scenarios(rng: &mut Rng) -> Vec<Vec<String>> {
    let mut cs: Vec<Vec<String>> = vec![];
    // 1. every publish kind, blocking and try, on one connection
    let mut c = vec![new_op(rng, 10), "rumqtt settle".to_string()];
    for k in KINDS {
        let t = topic_of(k, "G", "N", "D");
        c.push(format!("rumqtt cpub {}", pub_args(rng, k, &t)));
        c.push(format!("rumqtt ctry 1 {}", pub_args(rng, k, &t)));
    }
    c.push("rumqtt end".into());
    cs.push(c);
    // 2. the edge node's life: will bdSeq n -> connect -> loss -> will n+1 -> reconnect (C03)
    for (loss, bd0) in [("bdrop", 0u64), ("bdisc", 254), ("bdrop", 255)] {
        let mut c = vec![new_op(rng, 4), will_op(rng, "G", "N", bd0, false), "rumqtt settle".to_string()];
        for i in 1..=3u64 {
            c.push(format!("rumqtt cpub {}", pub_args(rng, "nbirth", &topic_of("nbirth", "G", "N", ""))));
            c.push(format!("rumqtt {}", loss));
            // the reconnect above still carried the old will (nothing registered in between)
            c.push(will_op(rng, "G", "N", (bd0 + i) % 256, false));
            c.push("rumqtt bdrop".into());
        }
        c.push("rumqtt end".into());
        cs.push(c);
    }
    // 3. the host application's life (C16): app will with a new timestamp per session
    let mut c = vec![new_op(rng, 4), will_op(rng, "host1", "", 0, true), "rumqtt settle".to_string()];
    c.push(format!("rumqtt csub {}", format!("full:0,state.{}:1", hex(StateTopic::new_host("host1").topic.as_bytes()))));
    c.push(format!("rumqtt cpub state {} 1 1700000000000", hex(StateTopic::new_host("host1").topic.as_bytes())));
    c.push("rumqtt bdisc".into());
    c.push(will_op(rng, "host1", "", 1, true));
    c.push("rumqtt policy refuse".into());
    c.push("rumqtt bdrop".into());
    c.push(format!("rumqtt cpub state {} 0 1700000000001", hex(StateTopic::new_host("host1").topic.as_bytes())));
    c.push("rumqtt cdisc stop".into());
    c.push("rumqtt end".into());
    cs.push(c);
    // 4. failed reconnects of every sort: one sleep each while Disconnected
    for pol in ["refuse", "drop", "junk", "refuse,drop"] {
        cs.push(vec![
            new_op(rng, 2),
            "rumqtt settle".into(),
            format!("rumqtt policy {}", pol),
            "rumqtt bdrop".into(),
            format!("rumqtt bpub {} 0", rand_incoming(rng)),
            "rumqtt end".into(),
        ]);
    }
    // 5. the very first connect fails
    cs.push(vec![new_op(rng, 2), "rumqtt policy drop".into(), "rumqtt settle".into(), "rumqtt end".into()]);
    // 6. manual disconnect: the loop reconnects by itself if polled on; failed attempts are silent
    cs.push(vec![new_op(rng, 3), "rumqtt settle".into(), "rumqtt cdisc cont".into(), "rumqtt bdrop".into(), "rumqtt end".into()]);
    cs.push(vec![
        new_op(rng, 3),
        "rumqtt settle".into(),
        "rumqtt policy refuse,junk,drop".into(),
        "rumqtt cdisc cont".into(),
        "rumqtt policy refuse".into(),
        "rumqtt bdrop".into(),
        "rumqtt end".into(),
    ]);
    cs.push(vec![new_op(rng, 3), "rumqtt settle".into(), "rumqtt cdisc stop".into(), "rumqtt policy refuse".into(), "rumqtt settle".into(), "rumqtt end".into()]);
    // 7. two disconnect() calls: two Offline in a row
    cs.push(vec![new_op(rng, 3), "rumqtt settle".into(), "rumqtt cdisc twice".into(), "rumqtt end".into()]);
    // 8. full queue
    for cap in [0usize, 1, 3] {
        let t = topic_of("ddata", "G", "N", "D");
        cs.push(vec![
            new_op(rng, cap),
            "rumqtt settle".into(),
            format!("rumqtt ctry {} {}", cap + 2, pub_args(rng, "ddata", &t)),
            format!("rumqtt cfull {}", pub_args(rng, "ndeath", &topic_of("ndeath", "G", "N", ""))),
            format!("rumqtt cpub {}", pub_args(rng, "dbirth", &topic_of("dbirth", "G", "N", "D"))),
            "rumqtt end".into(),
        ]);
    }
    // 9. incoming messages of every sort, also while a burst ends the connection
    let mut c = vec![new_op(rng, 4), "rumqtt settle".to_string()];
    for _ in 0..10 {
        c.push(format!("rumqtt bpub {} {}", rand_incoming(rng), rng.below(2)));
    }
    c.push(format!("rumqtt bburst 3 {}", rand_incoming(rng)));
    c.push(format!("rumqtt bburst 0 {}", rand_incoming(rng)));
    c.push("rumqtt end".into());
    cs.push(c);
    // 10. empty subscribe kills the connection
    cs.push(vec![new_op(rng, 4), "rumqtt settle".into(), "rumqtt csub -".into(), format!("rumqtt csub {}", rand_filters(rng)), "rumqtt end".into()]);
    cs
}

fn random_case(rng: &mut Rng, len: usize, sleepy: bool) -> Vec<String> {
    let cap = *rng.pick(&[0usize, 1, 2, 2, 3, 5, 10]);
    let mut c = vec![new_op(rng, cap)];
    let (g, n) = (rand_id(rng), rand_id(rng));
    let mut bd = rng.below(256);
    if rng.chance(2, 3) {
        let app = rng.chance(1, 4);
        c.push(will_op(rng, &g, &n, bd, app));
    }
    let mut limbo = false;
    let mut sleeps = 0;
    for _ in 0..len {
        if limbo {
            // after `cdisc stop` only the options and the loop itself are touched
            match rng.below(3) {
                0 => c.push(will_op(rng, &g, &n, bd, false)),
                _ => {
                    c.push("rumqtt settle".into());
                    limbo = false;
                }
            }
            continue;
        }
        match rng.below(20) {
            0 | 1 => {
                bd = (bd + 1) % 256;
                let (raw, app) = (rng.chance(1, 5), rng.chance(1, 5));
                c.push(if raw { rand_will_raw(rng) } else { will_op(rng, &g, &n, bd, app) });
            }
            2 => {
                if sleepy && sleeps < 2 {
                    let k = rng.range(1, 2);
                    let p: Vec<&str> = (0..k).map(|_| *rng.pick(&["refuse", "drop", "junk"])).collect();
                    sleeps += k;
                    c.push(format!("rumqtt policy {}", p.join(",")));
                }
            }
            3 | 4 => c.push("rumqtt bdrop".into()),
            5 => c.push("rumqtt bdisc".into()),
            6 => c.push("rumqtt bdiscb".into()),
            7 => c.push(format!("rumqtt bburst {} {}", rng.below(5), rand_incoming(rng))),
            8 | 9 | 10 => c.push(format!("rumqtt bpub {} {}", rand_incoming(rng), rng.below(2))),
            11 | 12 | 13 => c.push(format!("rumqtt cpub {}", rand_pub_args(rng))),
            14 => c.push(format!("rumqtt ctry {} {}", rng.range(1, cap as u64 + 2), rand_pub_args(rng))),
            15 => c.push(format!("rumqtt cfull {}", rand_pub_args(rng))),
            16 => c.push(format!("rumqtt csub {}", if rng.chance(1, 8) { "-".to_string() } else { rand_filters(rng) })),
            17 => c.push("rumqtt cdisc cont".into()),
            18 => {
                if cap >= 2 {
                    c.push("rumqtt cdisc twice".into())
                } else {
                    c.push("rumqtt settle".into())
                }
            }
            _ => {
                c.push("rumqtt cdisc stop".into());
                limbo = true;
            }
        }
    }
    c.push("rumqtt end".into());
    c
}

/// `srad-verif rumqtt --out DIR probe`: two behaviours outside the model, printed for the record
/// (no cases are produced). 1. after a manual disconnect failed reconnects are not slept on: how
/// many CONNECTs does a refusing broker see in half a second, against 2.5 s after a lost
/// connection? 2. a QoS 1 publish not yet acknowledged when the connection drops is sent again by
/// rumqttc on the next connection (clean start notwithstanding), before anything new.
pub fn probe() {
    let rt = tokio::runtime::Builder::new_current_thread().enable_all().build().unwrap();
    rt.block_on(async {
        for manual in [true, false] {
            let mut res = CaseResult::default();
            // reuse the op interpreter for the set-up
            let ops: Vec<String> = vec!["rumqtt new 3 1 ~ ~".into(), "rumqtt settle".into()];
            let mut sess = None;
            run_ops(&ops, &mut res, &mut sess).await;
            let s = sess.as_mut().unwrap();
            s.sh.lock().unwrap().pols = std::iter::repeat(Pol::Refuse).take(1_000_000).collect();
            if manual {
                let _ = s.client.disconnect().await;
            } else {
                let _ = s.cmd.send(Cmd::Drop);
            }
            let ms = if manual { 500 } else { 2500 };
            let t0 = Instant::now();
            let mut evs = vec![];
            while t0.elapsed() < Duration::from_millis(ms) {
                if let Ok(ev) = tokio::time::timeout(Duration::from_millis(ms) - t0.elapsed().min(Duration::from_millis(ms)), s.el.poll()).await {
                    evs.push(show_event(&ev));
                }
            }
            let n = s.sh.lock().unwrap().conns.len();
            println!(
                "probe spin: after {} the refusing broker saw {} CONNECT packets in {} ms; events {:?}",
                if manual { "Client::disconnect()" } else { "a dropped socket" },
                n,
                ms,
                evs
            );
        }
        let mut res = CaseResult::default();
        let topic = hex(b"spBv1.0/G/DBIRTH/N/D");
        let mut sess = None;
        run_ops(&["rumqtt new 3 1 ~ ~".to_string(), "rumqtt settle".into()], &mut res, &mut sess).await;
        sess.as_mut().unwrap().sh.lock().unwrap().noack = true;
        run_ops(&[format!("rumqtt cpub dbirth {} 1801", topic)], &mut res, &mut sess).await;
        sess.as_mut().unwrap().sh.lock().unwrap().noack = false;
        run_ops(&["rumqtt bdrop".to_string(), format!("rumqtt cpub nbirth {} 1802", hex(b"spBv1.0/G/NBIRTH/N"))], &mut res, &mut sess).await;
        for (op, a) in &res.lines {
            println!("probe republish: {} => {}", op, a);
        }
    });
}

pub fn run(args: &Args, out: &mut Out) -> &'static str {
    if args.rest.iter().any(|a| a == "probe") {
        probe();
        return RULE;
    }
    let mut rng = Rng::new(args.seed);
    let mut cases = scenarios(&mut rng);
    let (n_rand, n_sleepy) = if args.thorough() { (300, 60) } else { (30, 8) };
    for i in 0..n_rand {
        let len = rng.range(3, if args.thorough() { 14 } else { 9 }) as usize;
        cases.push(random_case(&mut rng, len, i < n_sleepy));
    }
    out.exhaustive.push("publish kinds: all 9 (NBIRTH NDATA NCMD NDEATH DBIRTH DDATA DCMD DDEATH STATE) x {publish, try_publish}".into());
    run_cases(cases, out);
    RULE
}
