//! C09 (and the resequencer half of C05): `srad_app::resequencer::Resequencer<u32>` through its
//! public API. Ops: `reseq new | P <seq> <tag> | D | R | S <n> | N`.
use crate::common::*;
use srad_app::resequencer::{DrainResult, ProcessResult, Resequencer};
use std::collections::BTreeMap;

pub struct Session {
    r: Resequencer<u32>,
    /// tag -> seq it arrived with
    arrived: BTreeMap<u32, u8>,
    /// tags inserted (buffered) and not yet released or cleared
    outstanding: BTreeMap<u32, u8>,
    released: Vec<u32>,
    dups: u64,
    inputs: u64,
    cleared: u64,
}

impl Session {
    pub fn new() -> Self {
        Session {
            r: Resequencer::new(),
            arrived: BTreeMap::new(),
            outstanding: BTreeMap::new(),
            released: vec![],
            dups: 0,
            inputs: 0,
            cleared: 0,
        }
    }
    pub fn next(&self) -> u8 {
        self.r.next_sequence()
    }

    fn on_release(&mut self, tag: u32, before: u8, how: &str, out: &mut Out) {
        // clause: released payload arrived with the number that was expected
        match self.arrived.get(&tag) {
            Some(&s) if s == before => {}
            Some(&s) => out.fail(
                "release-carries-expected-number",
                how,
                format!("tag {} arrived with seq {} but released when next={}", tag, s, before),
            ),
            None => out.fail(
                "release-carries-expected-number",
                how,
                format!("tag {} released but never arrived", tag),
            ),
        }
        if self.r.next_sequence() != before.wrapping_add(1) {
            out.fail(
                "release-advances-by-one",
                how,
                format!("next {} -> {}", before, self.r.next_sequence()),
            );
        }
        if self.released.contains(&tag) {
            out.fail("released-once", how, format!("tag {} released twice", tag));
        }
        if how == "drain" && self.outstanding.remove(&tag).is_none() {
            out.fail(
                "conservation",
                how,
                format!("tag {} drained but was not buffered", tag),
            );
        }
        self.released.push(tag);
    }

    /// Execute one op on the implementation, return its canonical answer.
    pub fn exec(&mut self, op: &str, out: &mut Out) -> String {
    let _crumb = crate::common::crumb::guard(op);
        let w: Vec<&str> = op.split_whitespace().collect();
        match w.as_slice() {
            ["reseq", "new"] => {
                *self = Session::new();
                "ok".into()
            }
            ["reseq", "P", s, t] => {
                let seq: u8 = s.parse().unwrap();
                let tag: u32 = t.parse().unwrap();
                let before = self.r.next_sequence();
                self.inputs += 1;
                self.arrived.insert(tag, seq);
                // another payload that arrived with this number and is still waiting (inserted, neither drained nor cleared)
                let waiting: Option<u32> = self.outstanding.iter().find(|(_, &s)| s == seq).map(|(&t, _)| t);
                let res = match catch(std::panic::AssertUnwindSafe(|| self.r.process(seq, tag))) {
                    Ok(r) => r,
                    Err(_) => {
                        out.fail("no-panic", "process", format!("process({}, {}) panicked with {} message(s) waiting", seq, tag, self.outstanding.len()));
                        return "panic".into();
                    }
                };
                match res {
                    ProcessResult::MessageNextInSequence(m) => {
                        if m != tag {
                            out.fail("conservation", "process", format!("got {} for {}", m, tag));
                        }
                        if seq != before {
                            out.fail(
                                "release-carries-expected-number",
                                "process",
                                format!("seq {} released while next={}", seq, before),
                            );
                        }
                        // C09 "never releases a message ... twice ... accounts for every input as released, still
                        // buffered, or reported duplicate": a copy of a number whose first arrival is still waiting
                        // is a duplicate; released, the number goes out twice (now and when the waiting one is drained)
                        if let Some(w) = waiting {
                            out.fail(
                                "C09:never-twice",
                                "copy-of-waiting-number-released",
                                format!(
                                    "process({}, tag {}) released as next-in-sequence while tag {} that arrived with the same number {} is still waiting undrained: number {} is released twice, the waiting copy is stranded behind next={}",
                                    seq, tag, w, seq, seq, self.r.next_sequence()
                                ),
                            );
                        }
                        self.on_release(m, before, "process", out);
                        format!("next {}", m)
                    }
                    ProcessResult::OutOfSequenceMessageInserted => {
                        if let Some(w) = waiting {
                            out.fail(
                                "C09:never-twice",
                                "copy-of-waiting-number-buffered",
                                format!("process({}, tag {}) buffered beside tag {} that is still waiting with the same number", seq, tag, w),
                            );
                        }
                        self.outstanding.insert(tag, seq);
                        "ins".into()
                    }
                    ProcessResult::DuplicateMessageSequence => {
                        self.dups += 1;
                        "dup".into()
                    }
                }
            }
            ["reseq", "D"] => {
                let before = self.r.next_sequence();
                match catch(std::panic::AssertUnwindSafe(|| self.r.drain())) {
                    Ok(DrainResult::Message(m)) => {
                        self.on_release(m, before, "drain", out);
                        format!("msg {}", m)
                    }
                    Ok(DrainResult::Empty) => "empty".into(),
                    Ok(DrainResult::SequenceMissing) => "missing".into(),
                    Err(_) => {
                        out.fail("no-panic", "drain", "drain panicked".into());
                        "panic".into()
                    }
                }
            }
            ["reseq", "R"] => {
                if catch(std::panic::AssertUnwindSafe(|| self.r.reset())).is_err() {
                    out.fail("no-panic", "reset", "reset panicked".into());
                    return "panic".into();
                }
                self.cleared += self.outstanding.len() as u64;
                self.outstanding.clear();
                "ok".into()
            }
            ["reseq", "S", n] => {
                let n: u8 = n.parse().unwrap();
                if catch(std::panic::AssertUnwindSafe(|| self.r.set_next_sequence(n))).is_err() {
                    out.fail("no-panic", "set_next_sequence", "set_next_sequence panicked".into());
                    return "panic".into();
                }
                "ok".into()
            }
            ["reseq", "N"] => format!("next={}", self.r.next_sequence()),
            _ => panic!("bad op {}", op),
        }
    }

    /// Drain until not `Message` (how the host uses it). Returns the final answer.
    pub fn drain_all(&mut self, out: &mut Out) -> String {
        loop {
            let a = self.exec("reseq D", out);
            out.line("reseq D", &a);
            if !a.starts_with("msg") {
                return a;
            }
        }
    }

    /// End-of-case oracle for conservation: everything inserted and neither released nor cleared
    /// must still be retrievable. The buffer is not observable, so walk `next` over all 256
    /// values, draining at each, until `Empty`.
    pub fn flush_check(&mut self, out: &mut Out) {
        let mut rounds = 0;
        while !self.outstanding.is_empty() && rounds < 300 {
            rounds += 1;
            let seqs: Vec<u8> = self.outstanding.values().cloned().collect();
            for s in seqs {
                let a = self.exec(&format!("reseq S {}", s), out);
                out.line(&format!("reseq S {}", s), &a);
                self.drain_all(out);
            }
        }
        if !self.outstanding.is_empty() {
            let v: Vec<_> = self.outstanding.iter().take(5).collect();
            out.fail(
                "conservation",
                "flush",
                format!("{} buffered message(s) lost, e.g. {:?}", self.outstanding.len(), v),
            );
        }
        let accounted = self.released.len() as u64 + self.dups + self.cleared;
        if accounted != self.inputs {
            out.fail(
                "conservation",
                "count",
                format!(
                    "inputs {} != released {} + dup {} + cleared {}",
                    self.inputs,
                    self.released.len(),
                    self.dups,
                    self.cleared
                ),
            );
        }
    }
}

fn op(sess: &mut Session, out: &mut Out, o: &str) -> String {
    let a = sess.exec(o, out);
    out.line(o, &a);
    a
}

fn begin(sess: &mut Session, out: &mut Out) {
    let a = sess.exec("reseq new", out);
    out.begin_case("reseq new", &a);
}

/// A contiguous run of `n` values from `e`, fed in the order `perm`, drained after each arrival.
/// Oracle: C09 clause 1.
pub fn contiguous_case(out: &mut Out, e: u8, perm: &[usize], kind: &str) {
    let mut sess = Session::new();
    begin(&mut sess, out);
    out.set_desc(format!(
        "contig {} {}",
        e,
        perm.iter().map(|x| x.to_string()).collect::<Vec<_>>().join(",")
    ));
    op(&mut sess, out, &format!("reseq S {}", e));
    let n = perm.len();
    for &i in perm {
        let seq = e.wrapping_add(i as u8);
        op(&mut sess, out, &format!("reseq P {} {}", seq, 1000 + i));
        sess.drain_all(out);
    }
    let last = op(&mut sess, out, "reseq D");
    let nx = op(&mut sess, out, "reseq N");
    let want: Vec<u32> = (0..n as u32).map(|i| 1000 + i).collect();
    if sess.released != want {
        out.fail(
            "contiguous-run-released-in-order",
            kind,
            format!("e={} perm={:?} released={:?}", e, perm, sess.released),
        );
    }
    if last != "empty" || nx != format!("next={}", e.wrapping_add(n as u8)) {
        out.fail(
            "contiguous-run-ends-empty",
            kind,
            format!("e={} n={} last={} {}", e, n, last, nx),
        );
    }
    if perm.windows(2).any(|w| w[0] > w[1]) {
        out.nontrivial();
    }
    out.count(&format!("contiguous:{}", kind));
    out.count_n("ops", perm.len() as u64);
}

/// A long stream (indices 0..n, sequence numbers wrapping) delivered in the order `order`, whose
/// outstanding window stays below 256. Oracle (C05 promptness at component level): after each
/// arrival and drain, everything whose predecessors have all arrived has been released.
pub fn window_case(out: &mut Out, e: u8, order: &[usize], kind: &str) {
    let mut sess = Session::new();
    begin(&mut sess, out);
    out.set_desc(format!(
        "window {} {}",
        e,
        order.iter().map(|x| x.to_string()).collect::<Vec<_>>().join(",")
    ));
    op(&mut sess, out, &format!("reseq S {}", e));
    let mut arrived = vec![false; order.len() + 1];
    let mut mex = 0usize;
    let mut reported = false;
    for &i in order {
        let seq = e.wrapping_add((i % 256) as u8);
        op(&mut sess, out, &format!("reseq P {} {}", seq, 1000 + i));
        sess.drain_all(out);
        arrived[i] = true;
        while arrived[mex] {
            mex += 1;
        }
        if sess.released.len() != mex && !reported {
            reported = true;
            out.fail(
                "C05:prompt-release",
                if mex >= 255 { "window-past-wrap" } else { "window" },
                format!(
                    "after arrival of index {} all of 0..{} have arrived but only {} released (e={})",
                    i,
                    mex,
                    sess.released.len(),
                    e
                ),
            );
        }
    }
    let want: Vec<u32> = (0..order.len() as u32).map(|i| 1000 + i).collect();
    if sess.released != want && !reported {
        out.fail("C05:prompt-release", "final", format!("e={} released {} of {}", e, sess.released.len(), order.len()));
    }
    out.nontrivial();
    out.count(&format!("window:{}", kind));
}

/// the pattern 2,4,1,6,3,8,5,…: displacement <= 3 and the buffer never empties
fn zigzag(n: usize) -> Vec<usize> {
    let mut v = vec![];
    let mut k = 1;
    v.push(1);
    while v.len() < n {
        k += 2;
        if k < n {
            v.push(k);
        }
        v.push(k - 3);
        if k >= n + 3 {
            break;
        }
    }
    // repair into a permutation of 0..n preserving relative order
    let mut seen = vec![false; n];
    let mut r: Vec<usize> = v.into_iter().filter(|&x| x < n && !std::mem::replace(&mut seen[x], true)).collect();
    for i in 0..n {
        if !seen[i] {
            r.push(i);
        }
    }
    r
}

fn permutations(n: usize, f: &mut dyn FnMut(&[usize])) {
    fn rec(k: usize, a: &mut Vec<usize>, f: &mut dyn FnMut(&[usize])) {
        if k == a.len() {
            f(a);
            return;
        }
        for i in k..a.len() {
            a.swap(k, i);
            rec(k + 1, a, f);
            a.swap(k, i);
        }
    }
    let mut a: Vec<usize> = (0..n).collect();
    rec(0, &mut a, f);
}

const ALPHABET: [&str; 10] = ["p-2", "p-1", "p0", "p+1", "p+2", "D", "R", "S0", "S254", "S255"];

fn soup_op(sess: &mut Session, out: &mut Out, sym: &str, tag: &mut u32) {
    match sym {
        "D" => {
            op(sess, out, "reseq D");
        }
        "R" => {
            op(sess, out, "reseq R");
        }
        s if s.starts_with('S') => {
            op(sess, out, &format!("reseq {} {}", "S", &s[1..]));
        }
        s => {
            let d: i32 = s[1..].parse().unwrap();
            let seq = (sess.next() as i32 + d).rem_euclid(256) as u8;
            *tag += 1;
            let a = op(sess, out, &format!("reseq P {} {}", seq, *tag));
            out.count(&format!("process:{}", a.split(' ').next().unwrap()));
        }
    }
}

/// All op sequences of length `len` over ALPHABET from start value `start`.
fn exhaustive_soups(out: &mut Out, start: u8, len: usize) {
    let mut idx = vec![0usize; len];
    loop {
        let mut sess = Session::new();
        begin(&mut sess, out);
        op(&mut sess, out, &format!("reseq S {}", start));
        let mut tag = 0;
        for &i in &idx {
            soup_op(&mut sess, out, ALPHABET[i], &mut tag);
        }
        sess.flush_check(out);
        if idx.iter().filter(|&&i| i < 5).count() >= 2 {
            out.nontrivial();
        }
        out.count("soup:exhaustive");
        // next index vector
        let mut k = 0;
        loop {
            if k == len {
                return;
            }
            idx[k] += 1;
            if idx[k] < ALPHABET.len() {
                break;
            }
            idx[k] = 0;
            k += 1;
        }
    }
}

fn random_soup(out: &mut Out, rng: &mut Rng, len: usize) {
    let mut sess = Session::new();
    begin(&mut sess, out);
    op(&mut sess, out, &format!("reseq S {}", rng.below(256)));
    let mut tag = 0u32;
    let window = *rng.pick(&[2u64, 4, 16, 64, 300]);
    for _ in 0..len {
        let r = rng.below(100);
        if r < 70 {
            // a process with a number around the expected one, occasionally anywhere
            let seq = if rng.chance(1, 20) {
                rng.below(256) as u8
            } else if !sess.outstanding.is_empty() && rng.chance(1, 6) {
                // a redelivered copy of a number that is still waiting (preferably the expected one, undrained)
                let nx = sess.next();
                let v: Vec<u8> = sess.outstanding.values().cloned().collect();
                out.count("soup:copy-of-waiting");
                if v.contains(&nx) && rng.chance(1, 2) { nx } else { *rng.pick(&v) }
            } else {
                let d = rng.below(2 * window + 1) as i64 - window as i64 / 2;
                (sess.next() as i64 + d).rem_euclid(256) as u8
            };
            tag += 1;
            let a = op(&mut sess, out, &format!("reseq P {} {}", seq, tag));
            out.count(&format!("process:{}", a.split(' ').next().unwrap()));
        } else if r < 95 {
            if rng.chance(1, 2) {
                op(&mut sess, out, "reseq D");
            } else {
                sess.drain_all(out);
            }
        } else if r < 97 {
            op(&mut sess, out, "reseq R");
        } else {
            op(&mut sess, out, &format!("reseq S {}", rng.below(256)));
        }
    }
    sess.flush_check(out);
    out.nontrivial();
    out.count("soup:random");
}

/// (f) saturation: ALL 256 sequence values waiting at once (255 arrivals ahead of the expected one without a
/// drain, then the expected one and a late copy of it, or the expected value moved onto a buffered one
/// and the one missing value supplied), then drained to the end: nothing lost, nothing twice, in order
fn saturation_case(out: &mut Out, rng: &mut Rng, e: u8, variant: u64) {
    let mut sess = Session::new();
    begin(&mut sess, out);
    op(&mut sess, out, &format!("reseq S {}", e));
    let mut order: Vec<u8> = (1..=255u8).collect();
    match variant % 3 {
        0 => rng.shuffle(&mut order),
        1 => order.reverse(),
        _ => {}
    }
    let mut tag = 0u32;
    for d in &order {
        tag += 1;
        op(&mut sess, out, &format!("reseq P {} {}", e.wrapping_add(*d), tag));
    }
    match variant % 4 {
        0 | 1 => {
            // the expected one arrives (released at once), then a late copy of it: every slot is taken
            tag += 1;
            op(&mut sess, out, &format!("reseq P {} {}", e, tag));
            tag += 1;
            op(&mut sess, out, &format!("reseq P {} {}", e, tag));
            if variant % 4 == 1 {
                tag += 1;
                op(&mut sess, out, &format!("reseq P {} {}", e, tag)); // and a duplicate of the copy
            }
        }
        2 => {
            // expected value moved onto a buffered number, the missing one supplied
            let k = rng.range(1, 255) as u8;
            op(&mut sess, out, &format!("reseq S {}", e.wrapping_add(k)));
            tag += 1;
            op(&mut sess, out, &format!("reseq P {} {}", e, tag));
        }
        _ => {
            // a reset with everything waiting, then the same again
            op(&mut sess, out, "reseq R");
            op(&mut sess, out, &format!("reseq S {}", e));
            for d in order.iter().take(40) {
                tag += 1;
                op(&mut sess, out, &format!("reseq P {} {}", e.wrapping_add(*d), tag));
            }
            tag += 1;
            op(&mut sess, out, &format!("reseq P {} {}", e, tag));
        }
    }
    sess.drain_all(out);
    sess.flush_check(out);
    out.nontrivial();
    out.count("saturation");
}

/// (g) redelivery without intermediate drain: a contiguous run of `perm.len()` <= 256 numbers from `e` fed in the
/// order `perm`; `drain` is called after an arrival only according to `policy` (0 never before the end, 1 all
/// after one arrival in four, 2 a single drain after every second arrival, 3 after every arrival), so in-sequence
/// arrivals pile up behind a waiting successor; after an arrival, with chance 1/`copy_every`, a copy (fresh
/// payload) of a number that is still WAITING is delivered - preferably the one that is expected next and
/// not yet drained. Oracle: every copy is reported duplicate (session clause C09:never-twice), the first
/// arrivals are released exactly once, in order, and the resequencer ends empty.
pub fn nodrain_case(out: &mut Out, rng: &mut Rng, e: u8, perm: &[usize], policy: u64, copy_every: u64, kind: &str) {
    let mut sess = Session::new();
    begin(&mut sess, out);
    op(&mut sess, out, &format!("reseq S {}", e));
    let n = perm.len();
    let mut copies = 0u64;
    let mut copy_tag = 5000u32;
    for (k, &i) in perm.iter().enumerate() {
        let seq = e.wrapping_add(i as u8);
        op(&mut sess, out, &format!("reseq P {} {}", seq, 1000 + i));
        match policy {
            0 => {}
            1 => {
                if rng.chance(1, 4) {
                    sess.drain_all(out);
                }
            }
            2 => {
                if k % 2 == 1 {
                    op(&mut sess, out, "reseq D");
                }
            }
            _ => {
                sess.drain_all(out);
            }
        }
        while !sess.outstanding.is_empty() && rng.chance(1, copy_every) {
            let nx = sess.next();
            let v: Vec<u8> = sess.outstanding.values().cloned().collect();
            let s = if v.contains(&nx) && rng.chance(2, 3) { nx } else { *rng.pick(&v) };
            copy_tag += 1;
            copies += 1;
            let a = op(&mut sess, out, &format!("reseq P {} {}", s, copy_tag));
            out.count(&format!("redelivery:{}{}", if s == nx { "expected-waiting:" } else { "waiting:" }, a.split(' ').next().unwrap()));
        }
    }
    let fin = sess.drain_all(out);
    let nx = op(&mut sess, out, "reseq N");
    let want: Vec<u32> = (0..n as u32).map(|i| 1000 + i).collect();
    if sess.released != want {
        let firstbad = sess.released.iter().zip(want.iter()).position(|(a, b)| a != b).unwrap_or(sess.released.len().min(want.len()));
        out.fail(
            "contiguous-run-released-in-order",
            "redelivery-without-drain",
            format!(
                "e={} n={} drain-policy={} copies={}: released {} payloads, first deviation at position {} (released {:?}, wanted {:?})",
                e, n, policy, copies, sess.released.len(), firstbad, sess.released.get(firstbad), want.get(firstbad)
            ),
        );
    }
    if sess.dups != copies {
        out.fail(
            "C09:never-twice",
            "copy-of-waiting-number-not-reported-duplicate",
            format!("e={} n={} drain-policy={}: {} copies of waiting numbers delivered, {} reported duplicate", e, n, policy, copies, sess.dups),
        );
    }
    if fin != "empty" || nx != format!("next={}", e.wrapping_add(n as u8)) {
        out.fail("contiguous-run-ends-empty", "redelivery-without-drain", format!("e={} n={} last={} {}", e, n, fin, nx));
    }
    sess.flush_check(out);
    out.nontrivial();
    out.count(&format!("redelivery:{}:policy{}", kind, policy));
}

/// scripted: out-of-order buffering begins at expected value `o` (number o+k+1 arrives early), the k+1 numbers
/// o..=o+k arrive in order and are released by `process` WITHOUT a drain in between, so o+k+1 is now expected
/// and still waiting; a redelivered copy of it arrives: it must be reported duplicate, and the drain then
/// releases the first arrival. (`o=255 k=1` is `set_next_sequence(255); process(1); process(255); process(0);
/// process(1)`.)
fn redelivery_scripted(out: &mut Out, o: u8, k: usize) {
    let mut sess = Session::new();
    begin(&mut sess, out);
    op(&mut sess, out, &format!("reseq S {}", o));
    let early = o.wrapping_add(k as u8).wrapping_add(1);
    op(&mut sess, out, &format!("reseq P {} {}", early, 1000 + k + 1));
    for i in 0..=k {
        op(&mut sess, out, &format!("reseq P {} {}", o.wrapping_add(i as u8), 1000 + i));
    }
    let a = op(&mut sess, out, &format!("reseq P {} {}", early, 5001));
    let fin = sess.drain_all(out);
    let nx = op(&mut sess, out, "reseq N");
    let want: Vec<u32> = (0..=(k as u32 + 1)).map(|i| 1000 + i).collect();
    if a != "dup" || sess.released != want {
        out.fail(
            "contiguous-run-released-in-order",
            "redelivered-copy-of-expected-waiting-number",
            format!("origin={} k={}: the copy of {} was answered `{}`; released tail {:?}, wanted to end with {:?}", o, k, early, a, sess.released.iter().rev().take(3).collect::<Vec<_>>(), want.iter().rev().take(3).collect::<Vec<_>>()),
        );
    }
    if fin != "empty" || nx != format!("next={}", early.wrapping_add(1)) {
        out.fail("contiguous-run-ends-empty", "redelivered-copy-of-expected-waiting-number", format!("origin={} k={} last={} {}", o, k, fin, nx));
    }
    sess.flush_check(out);
    out.nontrivial();
    out.count("redelivery:scripted");
}

pub const RULE: &str = "cases = (a) every permutation of a contiguous run of length n<=Lp from every start 0..=255, drained after each arrival; (b) every op sequence of length <=Ls over {process(next-2..next+2), drain, reset, set_next(0|254|255)} from starts {0,1,254,255}; (c) random permutations of runs up to 256 long from random starts; (d) random op soups with duplicates, stale and far-ahead numbers; (e) long duplicate-free streams (260..2000 messages, sequence numbers wrapping) delivered with bounded displacement so that fewer than 256 numbers are outstanding, incl. the zig-zag order 2,4,1,6,3,8,5,… that never lets the buffer empty (promptness oracle); (f) saturation: all 256 sequence values waiting at once (255 ahead + the expected one and late copies of it / the expected value moved onto a buffered number / reset with everything waiting), drained to the end; (g) redelivery WITHOUT intermediate drain: scripted - for every origin 0..=255 the number origin+k+1 arrives early, origin..origin+k arrive in order and are released by process() with no drain call, then a copy of the now expected, still waiting number arrives (k in 0..=3 from all 256 origins, k in {57,128,200,254} from 16 origins; must be answered duplicate, the first arrival drained afterwards) - and random: permuted runs up to 256 long from starts that make the expected value wrap, drain policy never / sometimes all / single drains / after every arrival, copies (fresh payload) of numbers that are still waiting delivered in between, preferably of the expected undrained one; the random soups of (d) deliver such copies too (session clause C09:never-twice: a process() call carrying the number of a message that is still waiting is neither released nor buffered beside it). A case is non-trivial if it is a permuted (not sorted) run, or a soup with at least two process calls; distinct = distinct op-line sequences (hashed).";

pub fn run(args: &Args, out: &mut Out) -> &'static str {
    let mut rng = Rng::new(args.seed);
    let (lp, ls, nrand, nsoup, souplen) = if args.thorough() {
        (7usize, 5usize, 4000u64, 4000u64, 2000usize)
    } else {
        (5, 4, 300, 300, 400)
    };
    // (a)
    for n in 0..=lp {
        for e in 0..=255u8 {
            permutations(n, &mut |p| contiguous_case(out, e, p, "exhaustive"));
        }
    }
    out.exhaustive
        .push(format!("all permutations of runs of length 0..={} from all 256 starts", lp));
    // (b)
    for len in 0..=ls {
        for start in [0u8, 1, 254, 255] {
            exhaustive_soups(out, start, len);
        }
    }
    out.exhaustive.push(format!(
        "all op sequences of length 0..={} over a 10-symbol alphabet from 4 starts",
        ls
    ));
    // (c)
    for k in 0..nrand {
        let n = if k % 4 == 0 { 256 } else { rng.range(2, 256) as usize };
        let e = rng.below(256) as u8;
        let mut p: Vec<usize> = (0..n).collect();
        match k % 3 {
            0 => rng.shuffle(&mut p),
            1 => p.reverse(),
            _ => {
                // bounded displacement shuffle
                let d = rng.range(1, 8) as usize;
                for i in 0..n {
                    let j = (i + rng.below(d as u64 + 1) as usize).min(n - 1);
                    p.swap(i, j);
                }
            }
        }
        contiguous_case(out, e, &p, "random");
    }
    // (e) long streams with a sliding window (sequence numbers wrap several times)
    for (k, e) in [0u8, 1, 200, 255].into_iter().enumerate() {
        window_case(out, e, &zigzag(300 + 50 * k), "zigzag");
    }
    for _ in 0..(if args.thorough() { 400 } else { 40 }) {
        let n = rng.range(260, if args.thorough() { 2000 } else { 700 }) as usize;
        let d = rng.range(1, 40) as usize;
        // sort by (index + random delay <= d): every message is displaced by at most d places
        let mut keyed: Vec<(usize, usize)> = (0..n).map(|i| (i + rng.below(d as u64 + 1) as usize, i)).collect();
        keyed.sort();
        let p: Vec<usize> = keyed.into_iter().map(|x| x.1).collect();
        window_case(out, rng.below(256) as u8, &p, "bounded-displacement");
    }
    // the `Default` impl is the same resequencer as `new()`: same answers on a run that buffers, wraps and drains
    {
        let mut a: Resequencer<u32> = Resequencer::new();
        let mut b: Resequencer<u32> = Default::default();
        let mut trace = |r: &mut Resequencer<u32>| -> String {
            let mut t = format!("next={};", r.next_sequence());
            r.set_next_sequence(250);
            for (k, s) in [252u8, 251, 250, 255, 253, 254, 1, 0, 250, 2].iter().enumerate() {
                t.push_str(&match r.process(*s, k as u32) {
                    ProcessResult::MessageNextInSequence(m) => format!("n{};", m),
                    ProcessResult::OutOfSequenceMessageInserted => "i;".to_string(),
                    ProcessResult::DuplicateMessageSequence => "d;".to_string(),
                });
                loop {
                    match r.drain() {
                        DrainResult::Message(m) => t.push_str(&format!("m{};", m)),
                        DrainResult::Empty => {
                            t.push_str("e;");
                            break;
                        }
                        DrainResult::SequenceMissing => {
                            t.push_str("x;");
                            break;
                        }
                    }
                }
            }
            t
        };
        let (ta, tb) = (trace(&mut a), trace(&mut b));
        if ta != tb {
            out.fail("release-carries-expected-number", "default-differs-from-new", format!("Resequencer::default() behaves differently from new(): {} vs {}", tb, ta));
        }
        out.count("default-vs-new");
    }
    // (f)
    for (k, e) in [0u8, 1, 127, 128, 254, 255, 77, 200].into_iter().enumerate() {
        for v in 0..4u64 {
            saturation_case(out, &mut rng, e, v + 4 * (k as u64 % 3));
        }
    }
    for _ in 0..(if args.thorough() { 200 } else { 16 }) {
        let e = rng.below(256) as u8;
        let v = rng.below(12);
        saturation_case(out, &mut rng, e, v);
    }
    // (g)
    for o in 0..=255u8 {
        for k in 0..=3usize {
            redelivery_scripted(out, o, k);
        }
    }
    for o in [0u8, 1, 2, 55, 56, 57, 58, 127, 128, 129, 199, 200, 253, 254, 255, 100] {
        for k in [57usize, 128, 200, 254] {
            redelivery_scripted(out, o, k);
        }
    }
    out.exhaustive.push("redelivered copy of the expected, still waiting number after k+1 undrained in-order arrivals: k in 0..=3 from all 256 origins".to_string());
    for j in 0..(if args.thorough() { 3000u64 } else { 240 }) {
        let n = match j % 4 {
            0 => 256,
            1 => rng.range(2, 12) as usize,
            _ => rng.range(2, 256) as usize,
        };
        // starts that make the expected value wrap past 255 inside the run
        let e = if j % 3 == 0 { rng.below(256) as u8 } else { (256 - rng.range(1, n as u64) as usize) as u8 };
        let mut p: Vec<usize> = (0..n).collect();
        match j % 5 {
            0 => rng.shuffle(&mut p),
            1 => {
                // one early arrival, the rest in order
                let a = rng.range(1, n as u64 - 1) as usize;
                let x = p.remove(a);
                p.insert(0, x);
            }
            _ => {
                let d = rng.range(1, 12) as usize;
                for i in 0..n {
                    let t = (i + rng.below(d as u64 + 1) as usize).min(n - 1);
                    p.swap(i, t);
                }
            }
        }
        let policy = rng.below(4);
        let ce = *rng.pick(&[2u64, 3, 8]);
        nodrain_case(out, &mut rng, e, &p, policy, ce, "random");
    }
    // (d)
    for _ in 0..nsoup {
        let len = rng.range(1, souplen as u64) as usize;
        random_soup(out, &mut rng, len);
    }
    RULE
}

/// Re-run a case: either a descriptor (`contig <e> <perm>`) or the op lines themselves.
pub fn replay(desc: &str, lines: &[String], out: &mut Out) {
    if let Some(rest) = desc.strip_prefix("contig ") {
        let mut it = rest.split(' ');
        let e: u8 = it.next().unwrap().parse().unwrap();
        let perm: Vec<usize> = it
            .next()
            .unwrap_or("")
            .split(',')
            .filter(|x| !x.is_empty())
            .map(|x| x.parse().unwrap())
            .collect();
        contiguous_case(out, e, &perm, "replay");
        return;
    }
    if let Some(rest) = desc.strip_prefix("window ") {
        let mut it = rest.split(' ');
        let e: u8 = it.next().unwrap().parse().unwrap();
        let order: Vec<usize> = it
            .next()
            .unwrap_or("")
            .split(',')
            .filter(|x| !x.is_empty())
            .map(|x| x.parse().unwrap())
            .collect();
        window_case(out, e, &order, "replay");
        return;
    }
    let mut sess = Session::new();
    let mut first = true;
    for l in lines {
        let a = sess.exec(l, out);
        if first {
            out.begin_case(l, &a);
            first = false;
        } else {
            out.line(l, &a);
        }
    }
    sess.flush_check(out);
}
