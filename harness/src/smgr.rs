//! Component `smgr` (M16): `srad_eon::SimpleMetricManager<H>` as a state machine.
//!
//! One real `SimpleMetricManager<NodeHandle>` or `SimpleMetricManager<DeviceHandle>` per case,
//! attached to a real edge node (`EoNBuilder`, mock client / event loop, paused tokio time). The
//! case drives it through its public API only: `SimpleMetricBuilder` / `register_metric`, the
//! metric handles' `update`, `publish_metric(s)`, births and rebirths of the node / devices it is
//! attached to (-> `initialise_birth`), NCMD / DCMD messages (-> `on_ncmd` / `on_dcmd`), and
//! `init` (through `EoNBuilder::build` / `NodeHandle::register_device`).
//! Ops (names and strings are hex of their UTF-8 bytes):
//!   smgr new <n|d> <flags>                  manager for the node / for devices; flags as in `birth new`
//!   smgr hash <hexname> <u64>               (emitted by the harness: `DefaultHasher` of a name)
//!   smgr reg <hexname> <ty> <val> <a|n> <-|r|e>
//!        `register_metric(SimpleMetricBuilder::new(name, val).use_alias(..)[.with_cmd_handler(..)])`
//!        ty: one of the 13 scalar Rust types; val: `0|1`, decimal bit pattern, hex string;
//!        handler: none / recording / echo (the doc example: update to the received value, publish)
//!        -> some | none | panic
//!   smgr attach n                           n-kind: `EoNBuilder::with_metric_manager(mgr).build()` (-> init)
//!   smgr attach <hexdev> <now> <births>     d-kind: `register_device(dev, mgr.clone())` (-> init) + enable
//!        -> ok [births] | err invalid | err dup
//!   smgr online|rebirth <now> <births>      Event::Online / `NodeHandle::rebirth()`
//!   smgr drebirth <hexdev> <now> <births>   `DeviceHandle::rebirth()`
//!        `now` and `births` (observed order of the births and, per birth, of the manager's metrics
//!        = the HashMap's iteration order) are filled in by the harness
//!        -> `N[m|..]` / `D<hexdev>[m|..]` per birth, `N{panic}`, or `-`
//!           m = <hexname>,<alias|->,<datatype>,<timestamp>,<variant>:<field>
//!   smgr offline
//!   smgr upd <hexname> <val> <ts>           `metric.update(|x| *x = val)` at clock reading ts; the
//!        returned SimpleManagerPublishMetric is kept   -> old=<value seen by the closure> | panic
//!   smgr pub <one|many>                     `publish_metric` / `publish_metrics` of everything kept
//!        -> err unbirthed|nometrics|offline | ok <n|hexdev> [<id>=<variant>:<field>@<ts>,..] | panic
//!   smgr cmd <n|hexdev> <now> <cm>*         NCMD / DCMD with the command metrics
//!        cm = <id>;<variant>;<field> | <id>;~;~ (is_null); id = a<alias> | n<hexname>
//!        generator-only id forms, resolved before the line is written: @k = the id the latest birth
//!        declared for the k-th registered metric, ^k = the latest id it had that is not the current
//!        one, %k = the other id form (name for an aliased metric, an alias for a named one)
//!        -> `cb <hexname> <converted value|~>[ -> <publish answer>]` joined by ` | `, or `-`
use crate::birth::{real_hash, PAIRS};
use crate::c10::{build_metric, show_metric};
use crate::cmd::PANICS;
use crate::common::*;
use crate::mock::{self, EventFeeder, Hub, Kind, Obs};
use srad_client::{DeviceMessage, Event, Message, MessageKind, NodeMessage};
use srad_eon::{
    DeviceHandle, EoNBuilder, MetricPublisher, NoMetricManager, NodeHandle, PublishError,
    SimpleMetricBuilder, SimpleMetricManager, StateError,
};
use srad_types::payload::{metric, Metric, Payload};
use srad_types::utils::verif_hooks;
use srad_types::{DateTime, MetricId};
use std::cell::RefCell;
use std::collections::HashSet;
use std::future::Future;
use std::panic::AssertUnwindSafe;
use std::pin::Pin;
use std::rc::Rc;
use std::sync::atomic::Ordering;

pub const RULE: &str = "smgr: real SimpleMetricManager<NodeHandle> / <DeviceHandle> on a real edge node. Exhaustive: 13 Rust types x 16 command value forms (every protobuf variant, null, out-of-range ints) x {aliased, by name}; scripted: operations before init (register, update, publish without handle), attached-but-offline, births / rebirths with metrics registered in between, duplicate registrations, colliding hashes (alias depends on the iteration order; ids move between births), one manager shared by two devices, a manager whose birth panics (reserved name) and what is left of it. Random: 6-40 operations over register / update / publish (one, many, empty) / online / offline / rebirth / device rebirth / attach / NCMD-DCMD with current, stale, other-form, unknown ids and right / wrong / null values, echo handlers. Non-trivial = the case contains a birth of the manager and a command or a publish; distinct = distinct op sequences (hashed).";

// ---------- values of the thirteen scalar types ----------
trait Val: srad_types::traits::MetricValue + Clone + Send + Sync + 'static {
    fn parse(s: &str) -> Option<Self>;
    fn show(&self) -> String;
}
fn bits(s: &str, width: u32) -> Option<u64> {
    let v: u64 = s.parse().ok()?;
    if width < 64 && v >> width != 0 {
        return None;
    }
    Some(v)
}
macro_rules! val_uint {
    ($t:ty, $w:expr) => {
        impl Val for $t {
            fn parse(s: &str) -> Option<Self> {
                bits(s, $w).map(|v| v as $t)
            }
            fn show(&self) -> String {
                format!("n:{}", *self as u64)
            }
        }
    };
}
macro_rules! val_sint {
    ($t:ty, $u:ty, $w:expr) => {
        impl Val for $t {
            fn parse(s: &str) -> Option<Self> {
                bits(s, $w).map(|v| v as $u as $t)
            }
            fn show(&self) -> String {
                format!("n:{}", *self as $u as u64)
            }
        }
    };
}
val_uint!(u8, 8);
val_uint!(u16, 16);
val_uint!(u32, 32);
val_uint!(u64, 64);
val_sint!(i8, u8, 8);
val_sint!(i16, u16, 16);
val_sint!(i32, u32, 32);
val_sint!(i64, u64, 64);
impl Val for bool {
    fn parse(s: &str) -> Option<Self> {
        match s {
            "1" => Some(true),
            "0" => Some(false),
            _ => None,
        }
    }
    fn show(&self) -> String {
        format!("b:{}", *self as u8)
    }
}
impl Val for f32 {
    fn parse(s: &str) -> Option<Self> {
        bits(s, 32).map(|v| f32::from_bits(v as u32))
    }
    fn show(&self) -> String {
        format!("n:{}", self.to_bits())
    }
}
impl Val for f64 {
    fn parse(s: &str) -> Option<Self> {
        bits(s, 64).map(f64::from_bits)
    }
    fn show(&self) -> String {
        format!("n:{}", self.to_bits())
    }
}
impl Val for String {
    fn parse(s: &str) -> Option<Self> {
        unhex_str(s)
    }
    fn show(&self) -> String {
        format!("s:{}", hex(self.as_bytes()))
    }
}
impl Val for DateTime {
    fn parse(s: &str) -> Option<Self> {
        bits(s, 64).map(DateTime::new)
    }
    fn show(&self) -> String {
        format!("n:{}", self.date_time)
    }
}

pub const TYPES: [&str; 13] = ["bool", "u8", "u16", "u32", "u64", "i8", "i16", "i32", "i64", "f32", "f64", "string", "datetime"];

fn unhex_str(s: &str) -> Option<String> {
    if s != "-" && (s.is_empty() || s.len() % 2 != 0 || !s.bytes().all(|c| c.is_ascii_digit() || (b'a'..=b'f').contains(&c))) {
        return None;
    }
    String::from_utf8(unhex(s)).ok()
}
fn hx(s: &str) -> String {
    hex(s.as_bytes())
}

// ---------- oracle-side arithmetic, written independently of srad and of the model ----------
/// the protobuf value `T::into(MetricValue)` must produce for the value shown as `show`
fn proto_tok(ty: &str, show: &str) -> String {
    let (k, r) = show.split_at(2);
    match (ty, k) {
        ("bool", "b:") => format!("bool:{}", r),
        ("string", "s:") => format!("str:{}", r),
        ("u8" | "u16" | "u32" | "i8" | "i16" | "i32", "n:") => format!("int:{}", r),
        ("u64" | "i64" | "datetime", "n:") => format!("long:{}", r),
        ("f32", "n:") => format!("float:{}", r),
        ("f64", "n:") => format!("double:{}", r),
        _ => "?".into(),
    }
}
/// what a handler of a metric of Rust type `ty` must receive for the command value `v`
/// (None = the value does not convert: no call)
fn expect_convert(ty: &str, v: &metric::Value) -> Option<String> {
    Some(match (ty, v) {
        ("bool", metric::Value::BooleanValue(b)) => format!("b:{}", *b as u8),
        ("u8" | "i8", metric::Value::IntValue(x)) => format!("n:{}", x % 256),
        ("u16" | "i16", metric::Value::IntValue(x)) => format!("n:{}", x % 65536),
        ("u32" | "i32", metric::Value::IntValue(x)) => format!("n:{}", x),
        ("u64" | "i64" | "datetime", metric::Value::LongValue(x)) => format!("n:{}", x),
        ("f32", metric::Value::FloatValue(x)) => format!("n:{}", x.to_bits()),
        ("f64", metric::Value::DoubleValue(x)) => format!("n:{}", x.to_bits()),
        ("string", metric::Value::StringValue(s)) => format!("s:{}", hex(s.as_bytes())),
        _ => return None,
    })
}
fn datatype_code(ty: &str) -> u32 {
    match ty {
        "i8" => 1,
        "i16" => 2,
        "i32" => 3,
        "i64" => 4,
        "u8" => 5,
        "u16" => 6,
        "u32" => 7,
        "u64" => 8,
        "f32" => 9,
        "f64" => 10,
        "bool" => 11,
        "string" => 12,
        "datetime" => 13,
        _ => 0,
    }
}

fn id_tok(id: &MetricId) -> String {
    match id {
        MetricId::Alias(a) => format!("a{}", a),
        MetricId::Name(n) => format!("n{}", hx(n)),
    }
}
fn parse_id(s: &str) -> Option<MetricId> {
    if s.is_empty() {
        return None;
    }
    let (k, r) = s.split_at(1);
    match k {
        "a" => r.parse().ok().map(MetricId::Alias),
        "n" => unhex_str(r).map(MetricId::Name),
        _ => None,
    }
}
fn metric_id(m: &Metric) -> Option<MetricId> {
    match (m.alias, &m.name) {
        (Some(a), _) => Some(MetricId::Alias(a)),
        (None, Some(n)) => Some(MetricId::Name(n.clone())),
        _ => None,
    }
}
fn value_tok(v: &Option<metric::Value>) -> String {
    match v {
        Some(v) => show_metric(v).replace(' ', ":"),
        None => "~".into(),
    }
}

// ---------- the manager under test, behind closures ----------
// `SimpleManagerMetric` and `SimpleManagerPublishMetric` are public types of a private module and
// are not re-exported: they cannot be named outside srad-eon. Everything that touches them lives
// in closures created inside one function body (`make_env`), where their types are inferred.
type PubFut = Pin<Box<dyn Future<Output = Result<(), PublishError>>>>;

struct MetricOps {
    /// update to the value; Ok(value the closure saw before) | Err = panic
    upd: Box<dyn Fn(&str, u64) -> Result<String, ()>>,
    /// the current value as seen by an `update` closure that changes nothing; None = panic
    peek: Box<dyn Fn() -> Option<String>>,
}

enum RegOut {
    Bad,
    Panic,
    NoneRet,
    SomeRet(MetricOps),
}

#[derive(Clone)]
struct RegSpec {
    name: String,
    ty: String,
    val: String,
    alias: bool,
    cb: char,
}

struct Env {
    reg: Box<dyn Fn(&RegSpec) -> RegOut>,
    /// publish everything held: `publish_metric` (one) or `publish_metrics`; None = panic while building the call
    publish: Box<dyn Fn(bool) -> PubFut>,
    held_len: Box<dyn Fn() -> usize>,
}

fn pub_class(r: &Result<(), PublishError>) -> &'static str {
    match r {
        Ok(()) => "ok",
        Err(PublishError::NoMetrics) => "nometrics",
        Err(PublishError::State(StateError::Offline)) => "offline",
        Err(PublishError::State(StateError::UnBirthed)) => "unbirthed",
    }
}

fn make_env<H>(mgr: SimpleMetricManager<H>, hub: Hub) -> Env
where
    H: MetricPublisher + Clone + Send + Sync + 'static,
{
    let held = Rc::new(RefCell::new(Vec::new()));
    let held_r = held.clone();
    let mgr_r = mgr.clone();
    let reg = move |spec: &RegSpec| -> RegOut {
        macro_rules! reg_ty {
            ($t:ty) => {{
                let init: $t = match <$t as Val>::parse(&spec.val) {
                    Some(v) => v,
                    None => return RegOut::Bad,
                };
                let mut b = SimpleMetricBuilder::new(spec.name.clone(), init).use_alias(spec.alias);
                let tag = format!("cb {}", hx(&spec.name));
                match spec.cb {
                    'r' => {
                        let hub = hub.clone();
                        b = b.with_cmd_handler(move |_mgr, _metric, v: Option<$t>| {
                            hub.note(format!("{} {}", tag, v.as_ref().map(|x| x.show()).unwrap_or("~".into())));
                            async {}
                        });
                    }
                    'e' => {
                        let hub = hub.clone();
                        b = b.with_cmd_handler(move |mgr, metric, v: Option<$t>| {
                            hub.note(format!("{} {}", tag, v.as_ref().map(|x| x.show()).unwrap_or("~".into())));
                            let hub = hub.clone();
                            async move {
                                if let Some(value) = v {
                                    let r = mgr.publish_metric(metric.update(|x| *x = value.clone())).await;
                                    hub.note(format!("pubres {}", pub_class(&r)));
                                }
                            }
                        });
                    }
                    '-' => {}
                    _ => return RegOut::Bad,
                }
                match catch(AssertUnwindSafe(|| mgr_r.register_metric(b))) {
                    Err(_) => RegOut::Panic,
                    Ok(None) => RegOut::NoneRet,
                    Ok(Some(metric)) => {
                        let m1 = metric.clone();
                        let h1 = held_r.clone();
                        let upd = move |val: &str, ts: u64| -> Result<String, ()> {
                            let newv = <$t as Val>::parse(val).ok_or(())?;
                            let old = RefCell::new(String::new());
                            verif_hooks::set_mock_timestamp(Some(ts));
                            let r = catch(AssertUnwindSafe(|| {
                                m1.update(|x| {
                                    *old.borrow_mut() = x.show();
                                    *x = newv.clone();
                                })
                            }));
                            verif_hooks::set_mock_timestamp(Some(mock::now_ms()));
                            match r {
                                Ok(pm) => {
                                    h1.borrow_mut().push(pm);
                                    Ok(old.into_inner())
                                }
                                Err(_) => Err(()),
                            }
                        };
                        let m2 = metric.clone();
                        let peek = move || -> Option<String> {
                            let cur = RefCell::new(String::new());
                            catch(AssertUnwindSafe(|| {
                                let _ = m2.update(|x| *cur.borrow_mut() = x.show());
                            }))
                            .ok()?;
                            Some(cur.into_inner())
                        };
                        RegOut::SomeRet(MetricOps { upd: Box::new(upd), peek: Box::new(peek) })
                    }
                }
            }};
        }
        match spec.ty.as_str() {
            "bool" => reg_ty!(bool),
            "u8" => reg_ty!(u8),
            "u16" => reg_ty!(u16),
            "u32" => reg_ty!(u32),
            "u64" => reg_ty!(u64),
            "i8" => reg_ty!(i8),
            "i16" => reg_ty!(i16),
            "i32" => reg_ty!(i32),
            "i64" => reg_ty!(i64),
            "f32" => reg_ty!(f32),
            "f64" => reg_ty!(f64),
            "string" => reg_ty!(String),
            "datetime" => reg_ty!(DateTime),
            _ => RegOut::Bad,
        }
    };
    let held_p = held.clone();
    let mgr_p = mgr.clone();
    let publish = move |one: bool| -> PubFut {
        let mut v: Vec<_> = held_p.borrow_mut().drain(..).collect();
        let mgr = mgr_p.clone();
        if one {
            let m = v.pop().expect("one held metric");
            Box::pin(async move { mgr.publish_metric(m).await })
        } else {
            Box::pin(async move { mgr.publish_metrics(v).await })
        }
    };
    let held_l = held.clone();
    Env { reg: Box::new(reg), publish: Box::new(publish), held_len: Box::new(move || held_l.borrow().len()) }
}

enum Mgr {
    N(SimpleMetricManager<NodeHandle>),
    D(SimpleMetricManager<DeviceHandle>),
}

// ---------- shadow: what the oracle knows, kept independently of srad and of the model ----------
struct ShMetric {
    spec: RegSpec,
    /// current value (as shown by `Val::show`)
    value: String,
    /// the id the latest birth of the manager declared for it
    cur: Option<MetricId>,
    /// every id a birth ever declared for it, oldest first
    history: Vec<MetricId>,
    ops: MetricOps,
}

struct ShHeld {
    name: String,
    ty: String,
    value: String,
    ts: u64,
    id: Option<MetricId>,
}

struct Sess {
    rt: tokio::runtime::Runtime,
    hub: Hub,
    feeder: Option<EventFeeder>,
    node: Option<NodeHandle>,
    dev_kind: bool,
    flags: String,
    mgr: Mgr,
    env: Env,
    metrics: Vec<ShMetric>,
    held: Vec<ShHeld>,
    devs: Vec<(String, DeviceHandle)>,
    online: bool,
    dead: bool,
    hashed: HashSet<String>,
    seen_calls: usize,
    /// a handle was given to the manager (oracle side)
    has_handle: Option<String>,
    saw_birth: bool,
    saw_use: bool,
    /// staging: the pieces of a node that is built at `attach n`
    staged: Option<(mock::MockClient, mock::MockEventLoop)>,
}

thread_local! {
    static FLAGS: RefCell<Option<String>> = const { RefCell::new(None) };
    static SESS: RefCell<Option<Sess>> = const { RefCell::new(None) };
}

fn flags() -> String {
    FLAGS.with(|f| {
        if f.borrow().is_none() {
            let v = crate::birth::build_flags();
            *f.borrow_mut() = Some(v);
        }
        f.borrow().clone().unwrap()
    })
}

fn reserved(name: &str) -> bool {
    name == "bdSeq" || name == "Node Control/Rebirth"
}

impl Sess {
    fn new(dev_kind: bool) -> Sess {
        let fl = flags();
        let rt = mock::runtime();
        mock::set_clocks(1_000_000);
        let (hub, client, el, feeder) = mock::mock_pair();
        let (mgr, env) = if dev_kind {
            let m = SimpleMetricManager::<DeviceHandle>::new();
            (Mgr::D(m.clone()), make_env(m, hub.clone()))
        } else {
            let m = SimpleMetricManager::<NodeHandle>::new();
            (Mgr::N(m.clone()), make_env(m, hub.clone()))
        };
        let mut s = Sess {
            rt,
            hub,
            feeder: Some(feeder),
            node: None,
            dev_kind,
            flags: fl,
            mgr,
            env,
            metrics: vec![],
            held: vec![],
            devs: vec![],
            online: false,
            dead: false,
            hashed: HashSet::new(),
            seen_calls: 0,
            has_handle: None,
            saw_birth: false,
            saw_use: false,
            staged: Some((client, el)),
        };
        if dev_kind {
            s.build_node();
        }
        s
    }

    /// `EoNBuilder::build` (calls `init` on the node's manager) and start the node task
    fn build_node(&mut self) -> bool {
        let (client, el) = match self.staged.take() {
            Some(x) => x,
            None => return false,
        };
        let _g = self.rt.enter();
        let b = EoNBuilder::new(el, client).with_group_id("g").with_node_id("n");
        let b = match &self.mgr {
            Mgr::N(m) => b.with_metric_manager(m.clone()),
            Mgr::D(_) => b.with_metric_manager(NoMetricManager::new()),
        };
        match b.build() {
            Ok((eon, handle)) => {
                tokio::spawn(eon.run());
                self.node = Some(handle);
                drop(_g);
                self.settle();
                true
            }
            Err(_) => false,
        }
    }

    fn settle(&self) {
        self.rt.block_on(async { mock::settle().await });
    }

    fn hash_line(&mut self, name: &str, out: &mut Out) {
        if self.hashed.insert(name.to_string()) {
            out.line(&format!("smgr hash {} {}", hx(name), real_hash(name)), "ok");
        }
    }

    fn panics() -> usize {
        PANICS.load(Ordering::SeqCst)
    }

    /// the births of the manager handed to the client since the last look, in hand-over order:
    /// (object: None = node, payload metrics of the manager)
    fn new_births(&mut self) -> Vec<(Option<String>, Vec<Metric>, Payload)> {
        let calls = self.hub.calls();
        let mut v = vec![];
        for c in &calls[self.seen_calls..] {
            match c.kind {
                Kind::NBirth if !self.dev_kind => {
                    if let Some(p) = &c.payload {
                        let skip = p.metrics.len().min(2);
                        v.push((None, p.metrics[skip..].to_vec(), p.clone()));
                    }
                }
                Kind::DBirth if self.dev_kind => {
                    if let Some(p) = &c.payload {
                        let d = c.topic.rsplit('/').next().unwrap_or("").to_string();
                        v.push((Some(d), p.metrics.clone(), p.clone()));
                    }
                }
                _ => {}
            }
        }
        self.seen_calls = calls.len();
        v
    }

    /// DATA payloads handed to the client since the last look: (target token, metrics)
    fn new_data(&mut self) -> Vec<(String, Vec<Metric>)> {
        let calls = self.hub.calls();
        let mut v = vec![];
        for c in &calls[self.seen_calls..] {
            match c.kind {
                Kind::NData => v.push(("n".to_string(), c.payload.as_ref().map(|p| p.metrics.clone()).unwrap_or_default())),
                Kind::DData => {
                    let d = c.topic.rsplit('/').next().unwrap_or("").to_string();
                    v.push((hx(&d), c.payload.as_ref().map(|p| p.metrics.clone()).unwrap_or_default()))
                }
                _ => {}
            }
        }
        self.seen_calls = calls.len();
        v
    }
}

fn show_birth_metric(m: &Metric) -> String {
    format!(
        "{},{},{},{},{}",
        m.name.as_ref().map(|n| hx(n)).unwrap_or("~".into()),
        m.alias.map(|a| a.to_string()).unwrap_or("-".into()),
        m.datatype.map(|a| a.to_string()).unwrap_or("-".into()),
        m.timestamp.map(|a| a.to_string()).unwrap_or("-".into()),
        value_tok(&m.value)
    )
}

fn show_data_metric(m: &Metric) -> String {
    format!(
        "{}={}@{}",
        metric_id(m).map(|i| id_tok(&i)).unwrap_or("none".into()),
        value_tok(&m.value),
        m.timestamp.map(|t| t.to_string()).unwrap_or("-".into())
    )
}

fn fail(out: &mut Out, clause: &str, feature: &str, detail: String) {
    out.fail(&format!("M16:{}", clause), feature, detail);
}

impl Sess {
    /// births caused by the last stimulus: completes the request line, answers, runs the birth oracles
    fn births_answer(&mut self, expect_node_birth: bool, p0: usize, what: &str, out: &mut Out) -> (String, String) {
        let births = self.new_births();
        let mut spec = vec![];
        let mut ans = vec![];
        for (obj, ms, _) in &births {
            let tag = match obj {
                None => "n".to_string(),
                Some(d) => hx(d),
            };
            let names: Vec<String> = ms.iter().map(|m| m.name.as_ref().map(|n| hx(n)).unwrap_or("~".into())).collect();
            spec.push(format!("{}={}", tag, if names.is_empty() { "_".to_string() } else { names.join(",") }));
            ans.push(format!(
                "{}[{}]",
                match obj {
                    None => "N".to_string(),
                    Some(d) => format!("D{}", hx(d)),
                },
                ms.iter().map(show_birth_metric).collect::<Vec<_>>().join("|")
            ));
        }
        let panicked = Self::panics() > p0;
        let has_reserved = self.metrics.iter().any(|m| reserved(&m.spec.name));
        if expect_node_birth && births.is_empty() {
            if panicked {
                // the node task died inside `initialise_birth`
                spec.push("n=_".into());
                ans.push("N{panic}".into());
                self.dead = true;
                out.count("observed:node-birth-panic");
                if !has_reserved {
                    fail(out, "birth-panics-only-for-reserved-name", "panic-without-reason", what.to_string());
                }
            } else {
                ans.push("N{missing}".into());
            }
        } else if panicked {
            fail(out, "no-panic", "birth", what.to_string());
        }
        if expect_node_birth && !births.is_empty() && has_reserved {
            fail(out, "birth-panics-only-for-reserved-name", "reserved-name-birthed", what.to_string());
        }
        // oracle: every birth is complete and current
        for (obj, ms, _) in &births {
            self.saw_birth = true;
            out.count(if obj.is_none() { "births:nbirth" } else { "births:dbirth" });
            let w = format!("{} [{}]", what, ms.iter().map(show_birth_metric).collect::<Vec<_>>().join("|"));
            if ms.len() > self.metrics.len() {
                fail(out, "birth-no-extra-metric", "extra", w.clone());
            }
            let mut ids: Vec<MetricId> = vec![];
            for sh in self.metrics.iter_mut() {
                let found: Vec<&Metric> = ms.iter().filter(|m| m.name.as_deref() == Some(sh.spec.name.as_str())).collect();
                if found.len() != 1 {
                    fail(out, "birth-contains-every-metric-once", if found.is_empty() { "missing" } else { "twice" }, format!("{}: metric {:?}", w, sh.spec.name));
                    sh.cur = None;
                    continue;
                }
                let b = found[0];
                if value_tok(&b.value) != proto_tok(&sh.spec.ty, &sh.value) {
                    fail(out, "birth-carries-current-value", &sh.spec.ty, format!("{}: metric {:?} current value {}", w, sh.spec.name, sh.value));
                }
                if b.alias.is_some() != sh.spec.alias {
                    fail(out, "birth-alias-flag", if sh.spec.alias { "aliased" } else { "by-name" }, format!("{}: metric {:?}", w, sh.spec.name));
                }
                if b.datatype != Some(datatype_code(&sh.spec.ty)) {
                    fail(out, "birth-datatype", &sh.spec.ty, format!("{}: metric {:?}", w, sh.spec.name));
                }
                let id = metric_id(b).unwrap();
                if ids.contains(&id) {
                    fail(out, "birth-ids-distinct", "duplicate-id", w.clone());
                }
                ids.push(id.clone());
                if sh.history.last() != Some(&id) {
                    sh.history.push(id.clone());
                }
                sh.cur = Some(id);
            }
        }
        (if spec.is_empty() { "_".into() } else { spec.join(";") }, if ans.is_empty() { "-".into() } else { ans.join(" ") })
    }

    fn metric_index(&self, name: &str) -> Option<usize> {
        self.metrics.iter().position(|m| m.spec.name == name)
    }

    fn exec(&mut self, line: &str, out: &mut Out) {
        let w: Vec<&str> = line.split_whitespace().collect();
        match w[1] {
            "hash" => {}
            "reg" if w.len() == 7 => self.op_reg(line, &w, out),
            "attach" if w.len() >= 3 => self.op_attach(line, &w, out),
            "online" | "rebirth" => self.op_birth(w[1], None, out),
            "drebirth" if w.len() >= 3 => self.op_birth("drebirth", Some(w[2]), out),
            "offline" => self.op_offline(line, out),
            "upd" if w.len() == 5 => self.op_upd(line, &w, out),
            "pub" if w.len() == 3 => self.op_pub(line, w[2], out),
            "cmd" if w.len() >= 4 => self.op_cmd(&w, out),
            _ => out.line(line, "bad-op"),
        }
    }

    fn op_reg(&mut self, line: &str, w: &[&str], out: &mut Out) {
        let name = match unhex_str(w[2]) {
            Some(n) => n,
            None => return out.line(line, "bad-op"),
        };
        let alias = match w[5] {
            "a" => true,
            "n" => false,
            _ => return out.line(line, "bad-op"),
        };
        let cb = match w[6] {
            "-" => '-',
            "r" => 'r',
            "e" => 'e',
            _ => return out.line(line, "bad-op"),
        };
        let spec = RegSpec { name: name.clone(), ty: w[3].to_string(), val: w[4].to_string(), alias, cb };
        let p0 = Self::panics();
        let r = (self.env.reg)(&spec);
        if matches!(r, RegOut::Bad) {
            return out.line(line, "bad-op");
        }
        self.hash_line(&name, out);
        let existing = self.metric_index(&name);
        out.count(if existing.is_some() { "reg:duplicate-name" } else { "reg:fresh-name" });
        match r {
            RegOut::Bad => unreachable!(),
            RegOut::Panic => {
                out.line(line, "panic");
                if !self.dead {
                    fail(out, "no-panic", "register", line.to_string());
                }
            }
            RegOut::NoneRet => {
                out.line(line, "none");
                match existing {
                    None => fail(out, "register-fresh-name-accepted", "refused", line.to_string()),
                    Some(k) => {
                        // nothing changed: the metric still has its value
                        let cur = (self.metrics[k].ops.peek)();
                        if cur.as_deref() != Some(self.metrics[k].value.as_str()) {
                            fail(out, "duplicate-registration-changes-nothing", "value", format!("{} -> value {:?}, was {}", line, cur, self.metrics[k].value));
                        }
                    }
                }
            }
            RegOut::SomeRet(ops) => {
                out.line(line, "some");
                if existing.is_some() {
                    fail(out, "duplicate-registration-changes-nothing", "accepted", line.to_string());
                }
                // the value the builder was given, as the type shows it
                let value = ops.peek.as_ref()().unwrap_or_default();
                self.metrics.push(ShMetric { spec, value, cur: None, history: vec![], ops });
            }
        }
        if Self::panics() > p0 && !self.dead {
            fail(out, "no-panic", "register", line.to_string());
        }
    }

    fn op_attach(&mut self, line: &str, w: &[&str], out: &mut Out) {
        if w[2] == "n" {
            if self.dev_kind || self.node.is_some() {
                return out.line(line, "bad-op");
            }
            let ok = self.build_node();
            if ok {
                self.has_handle = Some("n".into());
            }
            return out.line("smgr attach n", if ok { "ok" } else { "bad-op" });
        }
        let dev = match unhex_str(w[2]) {
            Some(d) if self.dev_kind && !self.dead => d,
            _ => return out.line(line, "bad-op"),
        };
        let node = self.node.clone().unwrap();
        let m = match &self.mgr {
            Mgr::D(m) => m.clone(),
            _ => unreachable!(),
        };
        self.hash_line(&dev, out);
        let now = mock::now_ms();
        let p0 = Self::panics();
        let _g = self.rt.enter();
        let res = catch(AssertUnwindSafe(|| node.register_device(dev.clone(), m)));
        drop(_g);
        match res {
            Err(_) => out.line(&format!("smgr attach {} {} _", hx(&dev), now), "panic"),
            Ok(Err(e)) => {
                let e = format!("{:?}", e);
                out.line(&format!("smgr attach {} {} _", hx(&dev), now), if e.starts_with("Duplicate") { "err dup" } else { "err invalid" })
            }
            Ok(Ok(dh)) => {
                dh.enable();
                self.settle();
                self.devs.push((dev.clone(), dh));
                self.has_handle = Some(hx(&dev));
                let (spec, ans) = self.births_answer(false, p0, line, out);
                out.line(&format!("smgr attach {} {} {}", hx(&dev), now, spec), &if ans == "-" { "ok".to_string() } else { format!("ok {}", ans) });
                out.count("op:attach-device");
            }
        }
    }

    fn op_birth(&mut self, kind: &str, dev: Option<&str>, out: &mut Out) {
        let now = mock::now_ms();
        let p0 = Self::panics();
        let mk = |spec: &str| match (kind, dev) {
            ("drebirth", Some(d)) => format!("smgr drebirth {} {} {}", d, now, spec),
            _ => format!("smgr {} {} {}", kind, now, spec),
        };
        let node = match &self.node {
            Some(n) => n.clone(),
            None => return out.line(&mk("_"), "bad-op"),
        };
        if self.dead {
            let bad = (kind == "online") == self.online || kind == "drebirth";
            return out.line(&mk("_"), if bad { "bad-op" } else { "dead" });
        }
        match kind {
            "online" => {
                if self.online {
                    return out.line(&mk("_"), "bad-op");
                }
                self.feeder.as_ref().unwrap().push(Event::Online);
                self.online = true;
            }
            "rebirth" => {
                if !self.online {
                    return out.line(&mk("_"), "bad-op");
                }
                node.rebirth();
            }
            _ => {
                let d = dev.and_then(unhex_str);
                match d.and_then(|d| self.devs.iter().find(|x| x.0 == d)) {
                    Some((_, dh)) if self.online && self.dev_kind => dh.rebirth(),
                    _ => return out.line(&mk("_"), "bad-op"),
                }
            }
        }
        self.settle();
        let what = mk("..");
        let (spec, ans) = self.births_answer(!self.dev_kind, p0, &what, out);
        out.line(&mk(&spec), &ans);
        out.count(&format!("op:{}", kind));
    }

    fn op_offline(&mut self, line: &str, out: &mut Out) {
        if !self.online || self.node.is_none() {
            return out.line(line, "bad-op");
        }
        if self.dead {
            return out.line(line, "dead");
        }
        self.feeder.as_ref().unwrap().push(Event::Offline);
        self.settle();
        self.online = false;
        self.new_births();
        out.line(line, "ok");
        out.count("op:offline");
    }

    fn op_upd(&mut self, line: &str, w: &[&str], out: &mut Out) {
        let (name, ts) = match (unhex_str(w[2]), w[4].parse::<u64>()) {
            (Some(n), Ok(t)) => (n, t),
            _ => return out.line(line, "bad-op"),
        };
        let k = match self.metric_index(&name) {
            Some(k) => k,
            None => return out.line(line, "bad-op"),
        };
        // is the token well-formed for the type? (the closure parses it again)
        let ty = self.metrics[k].spec.ty.clone();
        if !token_fits(&ty, w[3]) {
            return out.line(line, "bad-op");
        }
        let poisoned = self.dead && reserved(&name);
        match (self.metrics[k].ops.upd)(w[3], ts) {
            Err(()) => {
                out.line(line, "panic");
                if !poisoned {
                    fail(out, "no-panic", "update", line.to_string());
                }
            }
            Ok(old) => {
                out.line(line, &format!("old={}", old));
                let sh = &mut self.metrics[k];
                if old != sh.value {
                    fail(out, "update-sees-current-value", &ty, format!("{}: closure saw {}, current value is {}", line, old, sh.value));
                }
                // what the new value looks like to the type: read it back
                let newv = (sh.ops.peek)().unwrap_or_default();
                sh.value = newv.clone();
                self.held.push(ShHeld { name, ty, value: newv, ts, id: sh.cur.clone() });
                out.count(if sh.cur.is_some() { "upd:birthed-metric" } else { "upd:unbirthed-metric" });
            }
        }
    }

    fn op_pub(&mut self, line: &str, mode: &str, out: &mut Out) {
        let one = match mode {
            "one" => true,
            "many" => false,
            _ => return out.line(line, "bad-op"),
        };
        if one && (self.env.held_len)() != 1 {
            return out.line(line, "bad-op");
        }
        self.new_data();
        let calls0 = self.hub.calls().len();
        let p0 = Self::panics();
        let fut = (self.env.publish)(one);
        let rt = &self.rt;
        let res = catch(AssertUnwindSafe(move || rt.block_on(fut)));
        self.settle();
        let calls1 = self.hub.calls().len();
        let data = self.new_data();
        let held = std::mem::take(&mut self.held);
        self.saw_use = true;
        let ans = match &res {
            Err(_) => "panic".to_string(),
            Ok(r) => match r {
                Ok(()) => match data.first() {
                    Some((t, ms)) => format!("ok {} [{}]", t, ms.iter().map(show_data_metric).collect::<Vec<_>>().join(",")),
                    None => "ok none []".to_string(),
                },
                e => format!("err {}", pub_class(e)),
            },
        };
        out.line(line, &ans);
        out.count(&format!("pub:{}", if ans.starts_with("ok") { "ok".to_string() } else { ans.replace(' ', "-") }));
        // ---- oracles ----
        if res.is_err() || Self::panics() > p0 {
            if !self.dead {
                fail(out, "no-panic", "publish", line.to_string());
            }
            return;
        }
        let r = res.unwrap();
        let describe = format!("{} held=[{}] -> {}", line, held.iter().map(|h| format!("{}:{}@{}:{}", h.name, h.value, h.ts, h.id.as_ref().map(id_tok).unwrap_or("no-token".into()))).collect::<Vec<_>>().join(","), ans);
        match &self.has_handle {
            None => {
                // publish before init: an error, and nothing reaches any client
                if !matches!(r, Err(PublishError::State(StateError::UnBirthed))) {
                    fail(out, "publish-before-init-errs", "result", describe.clone());
                }
                if calls1 != calls0 {
                    fail(out, "publish-before-init-errs", "handed-over", describe);
                }
            }
            Some(target) => {
                let mut want: Vec<&ShHeld> = held.iter().filter(|h| h.id.is_some()).collect();
                want.sort_by_key(|h| h.ts); // stable
                if want.is_empty() {
                    if !matches!(r, Err(PublishError::NoMetrics)) || calls1 != calls0 {
                        fail(out, "publish-filters-tokenless", "only-tokenless", describe);
                    }
                } else if !self.online {
                    if r.is_ok() || calls1 != calls0 {
                        fail(out, "publish-needs-birth", "published-while-offline", describe);
                    }
                } else {
                    let got: Vec<String> = data.first().map(|d| d.1.iter().map(show_data_metric).collect()).unwrap_or_default();
                    let exp: Vec<String> = want.iter().map(|h| format!("{}={}@{}", id_tok(h.id.as_ref().unwrap()), proto_tok(&h.ty, &h.value), h.ts)).collect();
                    if r.is_err() || data.len() != 1 {
                        fail(out, "publish-hands-over-once", "result", describe);
                    } else if data[0].0 != *target {
                        fail(out, "publish-uses-latest-handle", "target", describe);
                    } else if got.len() != exp.len() {
                        fail(out, "publish-filters-tokenless", if got.len() > exp.len() { "tokenless-published" } else { "dropped" }, format!("{} expected {:?}", describe, exp));
                    } else if got != exp {
                        fail(out, "publish-carries-token-id-and-value", "metric", format!("{} expected {:?}", describe, exp));
                    }
                }
            }
        }
    }

    /// resolve the generator's id forms
    fn resolve_id(&self, tok: &str) -> Option<String> {
        let (k, r) = tok.split_at(1);
        let idx = |r: &str| r.parse::<usize>().ok().and_then(|k| self.metrics.get(k));
        match k {
            "@" => Some(idx(r).and_then(|m| m.cur.as_ref()).map(id_tok).unwrap_or("a1".into())),
            "^" => Some(
                idx(r)
                    .and_then(|m| m.history.iter().rev().find(|i| Some(*i) != m.cur.as_ref()))
                    .map(id_tok)
                    .unwrap_or("a2".into()),
            ),
            "%" => Some(match idx(r) {
                Some(m) if m.spec.alias => format!("n{}", hx(&m.spec.name)),
                Some(m) => format!("a{}", real_hash(&m.spec.name) as u32),
                None => "a3".into(),
            }),
            _ => parse_id(tok).map(|i| id_tok(&i)),
        }
    }

    fn op_cmd(&mut self, w: &[&str], out: &mut Out) {
        let now = mock::now_ms();
        // resolve and validate the command metrics
        let mut cms: Vec<(MetricId, Option<metric::Value>, String)> = vec![];
        let mut bad = false;
        for t in &w[4..] {
            let f: Vec<&str> = t.split(';').collect();
            if f.len() != 3 || f[0].is_empty() {
                bad = true;
                break;
            }
            let id = match self.resolve_id(f[0]) {
                Some(i) => i,
                None => {
                    bad = true;
                    break;
                }
            };
            let value = if f[1] == "~" {
                if f[2] != "~" {
                    bad = true;
                    break;
                }
                None
            } else {
                match checked_value(f[1], f[2]) {
                    Some(v) => Some(v),
                    None => {
                        bad = true;
                        break;
                    }
                }
            };
            cms.push((parse_id(&id).unwrap(), value, format!("{};{};{}", id, f[1], f[2])));
        }
        let line = format!("smgr cmd {} {} {}", w[2], now, cms.iter().map(|c| c.2.clone()).collect::<Vec<_>>().join(" ")).trim_end().to_string();
        if bad {
            return out.line(&w.join(" "), "bad-op");
        }
        let target_dev = if w[2] == "n" { None } else { unhex_str(w[2]) };
        let ok_target = match &target_dev {
            None => w[2] == "n" && !self.dev_kind && self.node.is_some(),
            Some(d) => self.dev_kind && self.devs.iter().any(|x| &x.0 == d),
        };
        if !ok_target || !self.online {
            return out.line(&line, "bad-op");
        }
        if self.dead {
            return out.line(&line, "dead");
        }
        let metrics: Vec<Metric> = cms
            .iter()
            .map(|(id, v, _)| {
                let mut m = Metric::new();
                match id {
                    MetricId::Alias(a) => m.alias = Some(*a),
                    MetricId::Name(n) => m.name = Some(n.clone()),
                }
                match v {
                    Some(v) => m.value = Some(v.clone()),
                    None => m.is_null = Some(true),
                }
                m
            })
            .collect();
        let payload = Payload { timestamp: Some(now), metrics, seq: None, uuid: None, body: None };
        let message = Message { payload, kind: MessageKind::Cmd };
        self.new_data();
        let t0 = self.hub.trace_len();
        let p0 = Self::panics();
        let feeder = self.feeder.as_ref().unwrap();
        match &target_dev {
            None => feeder.push(Event::Node(NodeMessage { group_id: "g".into(), node_id: "n".into(), message })),
            Some(d) => feeder.push(Event::Device(DeviceMessage { group_id: "g".into(), node_id: "n".into(), device_id: d.clone(), message })),
        };
        self.settle();
        // what happened, in order: handler calls, the DATA an echo handler handed over, its result
        let mut items: Vec<String> = vec![];
        let mut last_data: Option<String> = None;
        for o in self.hub.trace_from(t0) {
            match o {
                Obs::Note(s) if s.starts_with("cb ") => {
                    items.push(s);
                    last_data = None;
                }
                Obs::Call(id) => {
                    let c = self.hub.call(id);
                    let t = match c.kind {
                        Kind::NData => Some("n".to_string()),
                        Kind::DData => Some(hx(c.topic.rsplit('/').next().unwrap_or(""))),
                        _ => None,
                    };
                    if let Some(t) = t {
                        let ms = c.payload.as_ref().map(|p| p.metrics.clone()).unwrap_or_default();
                        last_data = Some(format!("{} [{}]", t, ms.iter().map(show_data_metric).collect::<Vec<_>>().join(",")));
                    }
                }
                Obs::Note(s) if s.starts_with("pubres ") => {
                    let class = &s[7..];
                    let tail = if class == "ok" { format!("ok {}", last_data.take().unwrap_or("none []".into())) } else { format!("err {}", class) };
                    match items.last_mut() {
                        Some(l) => l.push_str(&format!(" -> {}", tail)),
                        None => items.push(format!("orphan -> {}", tail)),
                    }
                }
                _ => {}
            }
        }
        self.new_data();
        let ans = if items.is_empty() { "-".to_string() } else { items.join(" | ") };
        out.line(&line, &ans);
        out.count("op:cmd");
        self.saw_use = true;
        if Self::panics() > p0 {
            fail(out, "no-panic", "command", line.clone());
        }
        // ---- oracle: exactly the handlers of the metrics whose CURRENT id is commanded ----
        let mut expected: Vec<String> = vec![];
        let target_tok = self.has_handle.clone().unwrap_or_default();
        for (id, v, tok) in &cms {
            let owners: Vec<usize> = (0..self.metrics.len()).filter(|k| self.metrics[*k].cur.as_ref() == Some(id)).collect();
            let stale = self.metrics.iter().any(|m| m.cur.as_ref() != Some(id) && m.history.contains(id));
            let class = if owners.len() > 1 {
                "ambiguous"
            } else if owners.is_empty() {
                if stale { "stale-id" } else { "unknown-id" }
            } else if self.metrics[owners[0]].spec.cb == '-' {
                "no-handler"
            } else if v.is_none() {
                "null"
            } else if expect_convert(&self.metrics[owners[0]].spec.ty, v.as_ref().unwrap()).is_none() {
                "unconvertible"
            } else {
                "routed"
            };
            out.count(&format!("cmd-metric:{}", class));
            if class == "ambiguous" {
                return;
            }
            if class == "null" || class == "routed" {
                let k = owners[0];
                let sh = &mut self.metrics[k];
                let val = match v {
                    None => "~".to_string(),
                    Some(v) => expect_convert(&sh.spec.ty, v).unwrap(),
                };
                let mut e = format!("cb {} {}", hx(&sh.spec.name), val);
                if sh.spec.cb == 'e' && v.is_some() {
                    // the echo handler: the metric now holds the value, one DATA with it went out
                    sh.value = val.clone();
                    e.push_str(&format!(" -> ok {} [{}={}@{}]", target_tok, id_tok(id), proto_tok(&sh.spec.ty, &val), now));
                }
                expected.push(e);
            }
            let _ = tok;
        }
        if items != expected {
            // name the first command metric class that explains the difference
            let feature = if items.len() > expected.len() {
                "extra-invocation"
            } else if items.len() < expected.len() {
                "missing-invocation"
            } else {
                "wrong-handler-or-value"
            };
            let classes: Vec<String> = cms
                .iter()
                .map(|(id, v, _)| {
                    let owners: Vec<&ShMetric> = self.metrics.iter().filter(|m| m.cur.as_ref() == Some(id)).collect();
                    if owners.is_empty() {
                        if self.metrics.iter().any(|m| m.history.contains(id)) { "stale-id" } else { "unknown-id" }.to_string()
                    } else if owners[0].spec.cb == '-' {
                        "no-handler".into()
                    } else if v.is_none() {
                        "null".into()
                    } else if expect_convert(&owners[0].spec.ty, v.as_ref().unwrap()).is_none() {
                        "unconvertible".into()
                    } else {
                        "routed".into()
                    }
                })
                .collect();
            fail(out, "command-invokes-exactly-the-current-handlers", feature, format!("{} -> {} ; expected {} ; classes {:?}", line, ans, if expected.is_empty() { "-".into() } else { expected.join(" | ") }, classes));
        }
        // the echo handlers' effect on the values
        for sh in &self.metrics {
            if sh.spec.cb == 'e' {
                let cur = (sh.ops.peek)();
                if cur.as_deref() != Some(sh.value.as_str()) {
                    fail(out, "echo-handler-sets-value", &sh.spec.ty, format!("{}: metric {:?} holds {:?}, expected {}", line, sh.spec.name, cur, sh.value));
                }
            }
        }
    }
}

fn token_fits(ty: &str, tok: &str) -> bool {
    match ty {
        "bool" => tok == "0" || tok == "1",
        "string" => unhex_str(tok).is_some(),
        "u8" | "i8" => bits(tok, 8).is_some(),
        "u16" | "i16" => bits(tok, 16).is_some(),
        "u32" | "i32" | "f32" => bits(tok, 32).is_some(),
        "u64" | "i64" | "f64" | "datetime" => bits(tok, 64).is_some(),
        _ => false,
    }
}

/// a protobuf value from its token, refusing what `build_metric` would panic on or silently default
fn checked_value(variant: &str, field: &str) -> Option<metric::Value> {
    match variant {
        "int" | "float" => {
            bits(field, 32)?;
        }
        "long" | "double" => {
            bits(field, 64)?;
        }
        "bool" => {
            if field != "0" && field != "1" {
                return None;
            }
        }
        "str" => {
            unhex_str(field)?;
        }
        "bytes" => {
            if field != "-" && (field.len() % 2 != 0 || !field.bytes().all(|c| c.is_ascii_digit() || (b'a'..=b'f').contains(&c))) {
                return None;
            }
        }
        "template" => {
            let b = field.as_bytes();
            if b.len() != 2 || !matches!(b[0], b'n' | b't' | b'f') || !matches!(b[1], b'r' | b'-') {
                return None;
            }
        }
        "dataset" | "ext" => {
            if field != "-" {
                return None;
            }
        }
        _ => return None,
    }
    build_metric(variant, field)
}

/// execute one request line; the (completed) line and the answer are written to `out`
pub fn exec(line: &str, out: &mut Out) {
    let w: Vec<&str> = line.split_whitespace().collect();
    if w.len() < 2 || w[0] != "smgr" {
        return out.line(line, "bad-op");
    }
    if w[1] == "new" {
        if w.len() < 3 || (w[2] != "n" && w[2] != "d") {
            out.begin_case(line, "bad-op");
            return;
        }
        end_session(out);
        let s = Sess::new(w[2] == "d");
        let l = format!("smgr new {} {}", w[2], s.flags);
        SESS.with(|c| *c.borrow_mut() = Some(s));
        out.begin_case(&l, "ok");
        return;
    }
    SESS.with(|c| {
        let mut g = c.borrow_mut();
        match g.as_mut() {
            Some(s) => s.exec(line, out),
            None => out.line(line, "bad-op"),
        }
    })
}

fn end_session(out: &mut Out) {
    SESS.with(|c| {
        if let Some(s) = c.borrow_mut().take() {
            if s.saw_birth && s.saw_use {
                out.nontrivial();
            }
        }
    });
}

fn run_case(out: &mut Out, ops: &[String], stat: &str) {
    for o in ops {
        exec(o, out);
    }
    end_session(out);
    out.count(stat);
}

pub fn replay(_desc: &str, ops: &[String], out: &mut Out) {
    crate::cmd::install_hook();
    run_case(out, ops, "replayed");
}

// ---------- generators ----------
pub const CMD_VALUES: [&str; 16] = [
    "~;~", "bool;1", "bool;0", "int;1", "int;0", "int;300", "int;4294967295", "long;1", "long;18446744073709551615",
    "float;1065353216", "double;4607182418800017408", "str;74727565", "str;-", "bytes;01", "dataset;-", "template;n-",
];

fn sample_val(ty: &str, k: u64) -> String {
    match ty {
        "bool" => (k % 2).to_string(),
        "string" => ["-", "61", "c3a9", "74727565"][(k % 4) as usize].to_string(),
        "u8" | "i8" => [0u64, 7, 128, 255][(k % 4) as usize].to_string(),
        "u16" | "i16" => [0u64, 300, 32768, 65535][(k % 4) as usize].to_string(),
        "u32" | "i32" => [0u64, 70000, 2147483648, 4294967295][(k % 4) as usize].to_string(),
        "f32" => [0u64, 1065353216, 3212836864, 2139095040][(k % 4) as usize].to_string(),
        "f64" => [0u64, 4607182418800017408, 13830554455654793216, 9218868437227405312][(k % 4) as usize].to_string(),
        _ => [0u64, 1, 1727600000000, u64::MAX][(k % 4) as usize].to_string(),
    }
}

/// a command value of the variant that converts to `ty`
fn right_value(ty: &str, k: u64) -> String {
    match ty {
        "bool" => format!("bool;{}", k % 2),
        "string" => format!("str;{}", ["-", "6869", "c3a9"][(k % 3) as usize]),
        "u8" | "i8" | "u16" | "i16" | "u32" | "i32" => format!("int;{}", [1u64, 255, 300, 65536, 4294967295][(k % 5) as usize]),
        "f32" => format!("float;{}", [0u64, 1065353216][(k % 2) as usize]),
        "f64" => format!("double;{}", [0u64, 4607182418800017408][(k % 2) as usize]),
        _ => format!("long;{}", [0u64, 5, u64::MAX][(k % 3) as usize]),
    }
}

fn reg(name: &str, ty: &str, val: &str, alias: bool, cb: char) -> String {
    format!("smgr reg {} {} {} {} {}", hx(name), ty, val, if alias { "a" } else { "n" }, cb)
}

fn scripted(out: &mut Out) {
    // (A) conversion table: every type x every command value form x aliased / by name
    for dev in [false, true] {
        for alias in [false, true] {
            let tgt = if dev { hx("dv") } else { "n".to_string() };
            let mut ops = vec![format!("smgr new {}", if dev { "d" } else { "n" })];
            for (k, ty) in TYPES.iter().enumerate() {
                ops.push(reg(&format!("m{}", ty), ty, &sample_val(ty, 1), alias, if k % 2 == 0 { 'r' } else { 'e' }));
            }
            ops.push(if dev { format!("smgr attach {}", hx("dv")) } else { "smgr attach n".into() });
            ops.push("smgr online".into());
            for k in 0..TYPES.len() {
                ops.push(format!("smgr cmd {} 0 {}", tgt, CMD_VALUES.iter().map(|v| format!("@{};{}", k, v)).collect::<Vec<_>>().join(" ")));
            }
            // all metrics in one message, then the values they hold now in a rebirth
            ops.push(format!("smgr cmd {} 0 {}", tgt, (0..TYPES.len()).map(|k| format!("@{};{}", k, right_value(TYPES[k], k as u64))).collect::<Vec<_>>().join(" ")));
            ops.push("smgr rebirth".into());
            run_case(out, &ops, "A:conversion-table");
        }
    }
    out.exhaustive.push("13 Rust scalar types x 16 command value forms (null, every protobuf variant, out-of-range ints) x {aliased, by name} x {node, device} x {recording, echo} handler".into());

    // (B) the life cycle around init and births
    for dev in [false, true] {
        let tgt = if dev { hx("dv") } else { "n".to_string() };
        let attach = if dev { format!("smgr attach {}", hx("dv")) } else { "smgr attach n".to_string() };
        let ops: Vec<String> = vec![
            format!("smgr new {}", if dev { "d" } else { "n" }),
            reg("a", "i32", "5", true, 'r'),
            reg("b", "string", "6162", false, 'e'),
            reg("c", "bool", "0", true, '-'),
            reg("a", "i32", "9", false, '-'),  // duplicate: refused, nothing changes
            reg("a", "string", "-", true, 'e'), // duplicate with another type
            "smgr upd 61 6 100".into(),
            "smgr pub one".into(),              // no handle: unbirthed, nothing handed over
            "smgr upd 62 7a 100".into(),
            "smgr upd 63 1 90".into(),
            "smgr pub many".into(),
            "smgr pub many".into(),             // nothing held, no handle
            attach.clone(),
            "smgr upd 61 7 100".into(),
            "smgr pub one".into(),              // handle, but never birthed: every metric tokenless
            "smgr pub many".into(),             // empty
            "smgr online".into(),
            "smgr upd 61 8 300".into(),
            "smgr upd 62 78 200".into(),
            "smgr upd 63 0 200".into(),
            "smgr upd 61 9 100".into(),
            "smgr pub many".into(),             // sorted by timestamp, stable
            "smgr upd 61 10 5".into(),
            "smgr pub one".into(),
            format!("smgr cmd {} 0 @0;int;77 @1;str;6f6b @2;bool;1 %0;int;1 %1;str;78 a99;int;1 n7a7a;int;1", tgt),
            reg("d", "u8", "1", true, 'e'),     // registered between two births
            reg("b", "u8", "1", true, 'r'),     // duplicate
            "smgr upd 64 2 400".into(),
            "smgr pub one".into(),              // tokenless: filtered, nothing left
            "smgr upd 64 3 400".into(),
            "smgr upd 61 11 401".into(),
            "smgr pub many".into(),             // only `a` goes out
            format!("smgr cmd {} 0 %3;int;4 @0;~;~ @1;~;~", tgt), // `d` has no id yet
            "smgr rebirth".into(),              // current values; `d` gets its token
            format!("smgr cmd {} 0 @3;int;300 @3;long;1 @3;~;~ @0;int;4294967295", tgt),
            "smgr upd 64 9 1".into(),
            "smgr pub one".into(),
            "smgr offline".into(),
            "smgr upd 61 12 1".into(),
            "smgr pub one".into(),              // offline / unbirthed
            "smgr pub many".into(),
            "smgr online".into(),
            format!("smgr cmd {} 0 @0;int;1 @1;str;- @3;int;0", tgt),
            "smgr upd 62 - 1".into(),
            "smgr pub one".into(),
        ];
        run_case(out, &ops, "B:life-cycle");
    }

    // (C) colliding hashes: the alias of a name depends on the iteration order and on what else is
    // registered; ids move between births, an old id may route to ANOTHER metric afterwards
    for (i, (a, b)) in PAIRS.iter().take(10).enumerate() {
        for dev in [false, true] {
            let tgt = if dev { hx("dv") } else { "n".to_string() };
            let (x, y) = if i % 2 == 0 { (*a, *b) } else { (*b, *a) };
            let ops: Vec<String> = vec![
                format!("smgr new {}", if dev { "d" } else { "n" }),
                reg(x, "u32", "1", true, 'r'),
                if dev { format!("smgr attach {}", hx("dv")) } else { "smgr attach n".to_string() },
                "smgr online".into(),
                format!("smgr cmd {} 0 @0;int;5", tgt),
                "smgr upd ".to_string() + &hx(x) + " 2 10",
                reg(y, "u32", "7", true, 'e'),
                reg("plain", "i64", "3", true, 'r'),
                "smgr rebirth".into(),
                // the ids of both births for x, the new ones for y
                format!("smgr cmd {} 0 @0;int;6 ^0;int;7 @1;int;8 @2;long;9", tgt),
                "smgr pub one".into(),          // made before the rebirth: carries the id it had then
                format!("smgr upd {} 4 11", hx(x)),
                format!("smgr upd {} 5 11", hx(y)),
                "smgr pub many".into(),
                "smgr rebirth".into(),
                format!("smgr cmd {} 0 @0;int;1 @1;int;2 ^0;int;3 ^1;int;4", tgt),
            ];
            run_case(out, &ops, "C:colliding-hashes");
        }
    }

    // (D) one manager, two devices: `init` is called twice (the later handle wins), each DBIRTH runs
    // `initialise_birth` on the same metrics (the later birth's tokens and cmd_lookup win)
    for (d1, d2) in [("d1", "d2"), ("pump", "valve"), (PAIRS[0].0, PAIRS[0].1)] {
        let ops: Vec<String> = vec![
            "smgr new d".into(),
            reg("x", "i32", "1", true, 'r'),
            reg("y", "u64", "2", false, 'e'),
            reg("z", "f64", "0", true, 'e'),
            format!("smgr attach {}", hx(d1)),
            "smgr online".into(),
            format!("smgr cmd {} 0 @0;int;5 @1;long;6", hx(d1)),
            format!("smgr attach {}", hx(d2)),          // online: DBIRTH of d2 at once
            format!("smgr cmd {} 0 @0;int;7 ^0;int;8 @1;long;9", hx(d1)),
            format!("smgr cmd {} 0 @0;int;7 ^0;int;8 @1;long;9 @2;double;1", hx(d2)),
            "smgr upd 78 3 1".into(),
            "smgr pub one".into(),
            "smgr rebirth".into(),                      // both devices, in the order observed
            format!("smgr cmd {} 0 @0;int;1 ^0;int;2", hx(d1)),
            format!("smgr cmd {} 0 @0;int;1 ^0;int;2", hx(d2)),
            format!("smgr drebirth {}", hx(d1)),
            format!("smgr cmd {} 0 @0;int;1 ^0;int;2 @2;double;0", hx(d2)),
            "smgr upd 7a 4607182418800017408 1".into(),
            "smgr upd 78 4 0".into(),
            "smgr pub many".into(),
            "smgr offline".into(),
            "smgr pub many".into(),
            "smgr online".into(),
            format!("smgr cmd {} 0 @0;int;3 @1;long;4", hx(d1)),
        ];
        run_case(out, &ops, "D:shared-by-two-devices");
    }

    // (E) a node manager with a reserved name: `birth_metric`'s unwrap panics inside the node task
    // while the manager's mutex is held
    for (bad, first) in [("bdSeq", true), ("Node Control/Rebirth", false)] {
        let mut ops: Vec<String> = vec!["smgr new n".into()];
        if first {
            ops.push(reg(bad, "i64", "1", true, 'r'));
            ops.push(reg("fine", "i32", "1", true, 'e'));
        } else {
            ops.push(reg("fine", "i32", "1", true, 'e'));
            ops.push(reg(bad, "bool", "1", false, '-'));
        }
        ops.extend([
            "smgr attach n".to_string(),
            "smgr upd 66696e65 2 1".into(),
            "smgr pub one".into(),
            "smgr online".into(),                       // N{panic}
            reg("late", "u8", "1", true, '-'),          // panic: poisoned
            "smgr upd 66696e65 3 1".into(),             // the metric's own mutex is fine
            format!("smgr upd {} 0 1", hx(bad)),        // this one is poisoned too
            "smgr pub many".into(),                     // panic
            "smgr pub many".into(),
        ]);
        run_case(out, &ops, "E:birth-panics");
    }

    // (F) malformed requests: both sides answer bad-op
    let ops: Vec<String> = vec![
        "smgr new n".into(),
        "smgr frobnicate".into(),
        "smgr reg 61 u8 256 a -".into(),
        "smgr reg 61 u8 1 x -".into(),
        "smgr reg 61 u8 1 a q".into(),
        "smgr reg 61 nosuch 1 a -".into(),
        "smgr reg zz u8 1 a -".into(),
        "smgr reg 61 bool 2 a -".into(),
        "smgr reg 61 u8 1 a r".into(),
        "smgr upd 61 256 1".into(),
        "smgr upd 62 1 1".into(),
        "smgr upd 61 1 x".into(),
        "smgr pub one".into(),
        "smgr pub some".into(),
        "smgr online".into(),
        "smgr attach 6478".into(),
        "smgr cmd n 0 a1;int;1".into(),
        "smgr attach n".into(),
        "smgr attach n".into(),
        "smgr rebirth".into(),
        "smgr offline".into(),
        "smgr online".into(),
        "smgr online".into(),
        "smgr cmd n 0 a1;int".into(),
        "smgr cmd n 0 q1;int;1".into(),
        "smgr cmd n 0 a1;int;4294967296".into(),
        "smgr cmd n 0 a1;~;1".into(),
        "smgr cmd n 0 a1;pset;-".into(),
        "smgr cmd 6478 0 a1;int;1".into(),
        "smgr drebirth 6478".into(),
        "smgr cmd n 0".into(),
    ];
    run_case(out, &ops, "F:malformed");
}

const POOL: [&str; 8] = ["a", "b", "temp", "é€", "x y", "Node Control/Next Server", "m1", "q"];

fn random_case(out: &mut Out, rng: &mut Rng, long: bool) {
    let dev = rng.chance(1, 2);
    let mut ops = vec![format!("smgr new {}", if dev { "d" } else { "n" })];
    let pair = PAIRS[rng.below(12) as usize];
    let mut names: Vec<(String, String)> = vec![]; // (name, ty) of accepted registrations, by index
    let mut devs: Vec<String> = vec![];
    let mut attached = false;
    let mut online = false;
    let mut held = 0usize;
    let mut ts = 1000u64;
    // how many of `names` the latest birth has seen (they hold a token)
    let mut born = 0usize;
    let pick_name = |rng: &mut Rng| -> String {
        match rng.below(8) {
            0 => pair.0.to_string(),
            1 => pair.1.to_string(),
            _ => (*rng.pick(&POOL)).to_string(),
        }
    };
    // most histories start with a few registrations
    for _ in 0..rng.below(5) {
        let name = pick_name(rng);
        let ty = *rng.pick(&TYPES);
        let cb = *rng.pick(&['-', 'r', 'r', 'e']);
        ops.push(reg(&name, ty, &sample_val(ty, rng.below(4)), rng.chance(2, 3), cb));
        if !names.iter().any(|n| n.0 == name) {
            names.push((name, ty.to_string()));
        }
    }
    let steps = rng.range(6, if long { 40 } else { 22 });
    for _ in 0..steps {
        let target = if dev { devs.first().map(|d| hx(d)) } else { Some("n".to_string()) };
        match rng.below(20) {
            0..=3 => {
                let name = pick_name(rng);
                let ty = *rng.pick(&TYPES);
                let cb = *rng.pick(&['-', 'r', 'r', 'e']);
                ops.push(reg(&name, ty, &sample_val(ty, rng.below(4)), rng.chance(2, 3), cb));
                if !names.iter().any(|n| n.0 == name) {
                    names.push((name, ty.to_string()));
                }
                if online && rng.chance(1, 3) {
                    ops.push("smgr rebirth".into());
                    born = names.len();
                }
            }
            4..=6 if !names.is_empty() => {
                let (n, ty) = if born > 0 && rng.chance(2, 3) { names[rng.below(born as u64) as usize].clone() } else { rng.pick(&names).clone() };
                ts = match rng.below(4) {
                    0 => ts,
                    1 => ts.saturating_sub(rng.below(50)),
                    _ => ts + rng.below(50),
                };
                ops.push(format!("smgr upd {} {} {}", hx(&n), sample_val(&ty, rng.below(4)), ts));
                held += 1;
            }
            7 | 8 => {
                if held == 0 && !names.is_empty() && rng.chance(3, 4) {
                    let (n, ty) = if born > 0 { names[rng.below(born as u64) as usize].clone() } else { rng.pick(&names).clone() };
                    ops.push(format!("smgr upd {} {} {}", hx(&n), sample_val(&ty, rng.below(4)), ts));
                    held = 1;
                }
                if held == 1 && rng.chance(1, 2) {
                    ops.push("smgr pub one".into());
                } else {
                    ops.push("smgr pub many".into());
                }
                held = 0;
            }
            9 => {
                if !attached {
                    if dev {
                        devs.push("dv".into());
                        ops.push(format!("smgr attach {}", hx("dv")));
                    } else {
                        ops.push("smgr attach n".into());
                    }
                    attached = true;
                } else if dev && devs.len() < 2 && rng.chance(1, 3) {
                    let d = if rng.chance(1, 2) { "dw".to_string() } else { pair.0.to_string() };
                    ops.push(format!("smgr attach {}", hx(&d)));
                    devs.push(d);
                    if online {
                        born = names.len();
                    }
                }
            }
            10 | 11 if attached => {
                if online {
                    ops.push("smgr rebirth".into());
                } else {
                    ops.push("smgr online".into());
                    online = true;
                }
                born = names.len();
            }
            12 if attached && online && rng.chance(1, 2) => {
                ops.push("smgr offline".into());
                online = false;
            }
            13 if dev && online && !devs.is_empty() => {
                ops.push(format!("smgr drebirth {}", hx(rng.pick(&devs[..]).as_str())));
                born = names.len();
            }
            _ if attached && online && target.is_some() => {
                let tgt = if dev { hx(rng.pick(&devs[..]).as_str()) } else { "n".to_string() };
                let n = rng.range(1, 5);
                let cms: Vec<String> = (0..n)
                    .map(|_| {
                        let k = if names.is_empty() {
                            0
                        } else if born > 0 && rng.chance(5, 6) {
                            rng.below(born as u64) as usize
                        } else {
                            rng.below(names.len() as u64) as usize
                        };
                        let ty = names.get(k).map(|x| x.1.clone()).unwrap_or("u8".into());
                        let id = match rng.below(10) {
                            0 => format!("^{}", k),
                            1 => format!("%{}", k),
                            2 => (*rng.pick(&["a1", "a4294967296", "n6e6f6e65", "n-"])).to_string(),
                            _ => format!("@{}", k),
                        };
                        let v = match rng.below(6) {
                            0 => "~;~".to_string(),
                            1 | 2 => (*rng.pick(&CMD_VALUES)).to_string(),
                            _ => right_value(&ty, rng.below(6)),
                        };
                        format!("{};{}", id, v)
                    })
                    .collect();
                ops.push(format!("smgr cmd {} 0 {}", tgt, cms.join(" ")));
            }
            _ => {
                if !attached {
                    if dev {
                        devs.push("dv".into());
                        ops.push(format!("smgr attach {}", hx("dv")));
                    } else {
                        ops.push("smgr attach n".into());
                    }
                    attached = true;
                } else if !online {
                    ops.push("smgr online".into());
                    online = true;
                    born = names.len();
                }
            }
        }
    }
    if attached && online {
        ops.push("smgr rebirth".into());
    }
    run_case(out, &ops, if dev { "R:random-device-manager" } else { "R:random-node-manager" });
}

pub fn run(args: &Args, out: &mut Out) -> &'static str {
    crate::cmd::install_hook();
    let mut rng = Rng::new(args.seed);
    scripted(out);
    let n = if args.thorough() { 60000 } else { 3000 };
    for _ in 0..n {
        let mut r = rng.fork();
        random_case(out, &mut r, args.thorough());
    }
    RULE
}
