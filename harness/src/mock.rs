//! Controllable doubles for the `Client` and `EventLoop` traits, a shared observation trace and
//! the quiescence barrier. Every call on the client trait object is a *hand-over*: it is
//! appended to the trace at the moment srad calls the method; its *resolution* (ok / err) is
//! decided by the harness: immediately (accept / reject) or later (park = back-pressure).
use async_trait::async_trait;
use srad_client::{Client, Event, EventLoop, LastWill, StatePayload};
use srad_types::payload::Payload;
use srad_types::topic::{DeviceMessage, DeviceTopic, NodeMessage, NodeTopic, StateTopic, TopicFilter};
use std::collections::{HashMap, VecDeque};
use std::sync::{Arc, Mutex};
use std::time::Duration;
use tokio::sync::{mpsc, oneshot};

/// What kind of hand-over a client call is.
#[derive(Clone, Debug, PartialEq, Eq, Hash)]
pub enum Kind {
    NBirth,
    NDeath,
    NData,
    NCmd,
    DBirth,
    DDeath,
    DData,
    DCmd,
    State,
    Subscribe,
    Disconnect,
}

impl Kind {
    pub fn name(&self) -> &'static str {
        match self {
            Kind::NBirth => "NBIRTH",
            Kind::NDeath => "NDEATH",
            Kind::NData => "NDATA",
            Kind::NCmd => "NCMD",
            Kind::DBirth => "DBIRTH",
            Kind::DDeath => "DDEATH",
            Kind::DData => "DDATA",
            Kind::DCmd => "DCMD",
            Kind::State => "STATE",
            Kind::Subscribe => "SUB",
            Kind::Disconnect => "DISCONNECT",
        }
    }
    pub fn from_name(s: &str) -> Option<Kind> {
        Some(match s {
            "NBIRTH" => Kind::NBirth,
            "NDEATH" => Kind::NDeath,
            "NDATA" => Kind::NData,
            "NCMD" => Kind::NCmd,
            "DBIRTH" => Kind::DBirth,
            "DDEATH" => Kind::DDeath,
            "DDATA" => Kind::DData,
            "DCMD" => Kind::DCmd,
            "STATE" => Kind::State,
            "SUB" => Kind::Subscribe,
            "DISCONNECT" => Kind::Disconnect,
            _ => return None,
        })
    }
}

/// One client call as observed at the trait object.
#[derive(Clone, Debug)]
pub struct Call {
    pub id: usize,
    pub kind: Kind,
    /// true for the `try_` methods
    pub is_try: bool,
    pub topic: String,
    pub payload: Option<Payload>,
    pub state: Option<StatePayload>,
    pub filters: Vec<String>,
}

/// One entry of the observation trace.
#[derive(Clone, Debug)]
pub enum Obs {
    /// a client call handed over (index into `calls`)
    Call(usize),
    /// a parked / immediate call resolved with ok?
    Resolved(usize, bool),
    /// `EventLoop::set_last_will`
    SetWill(LastWill),
    /// `EventLoop::poll` called
    Poll,
    /// `EventLoop::poll` returned this event (its debug name)
    Polled(String),
    /// free-form note by the harness or a recording callback (manager/store)
    Note(String),
}

#[derive(Clone, Copy, Debug, PartialEq)]
pub enum Decision {
    Accept,
    Reject,
    Park,
}

struct Rule {
    kind: Option<Kind>,
    decision: Decision,
    remaining: usize,
}

#[derive(Default)]
pub struct Shared {
    pub trace: Vec<Obs>,
    pub calls: Vec<Call>,
    rules: Vec<Rule>,
    default_blocking: Option<Decision>,
    default_try: Option<Decision>,
    parked: HashMap<usize, oneshot::Sender<bool>>,
}

#[derive(Clone, Default)]
pub struct Hub(pub Arc<Mutex<Shared>>);

impl Hub {
    pub fn new() -> Self {
        Hub(Arc::new(Mutex::new(Shared::default())))
    }
    pub fn note(&self, s: impl Into<String>) {
        self.0.lock().unwrap().trace.push(Obs::Note(s.into()));
    }
    /// the next `count` calls of `kind` (any kind if None) get `decision`
    pub fn rule(&self, kind: Option<Kind>, decision: Decision, count: usize) {
        self.0.lock().unwrap().rules.push(Rule { kind, decision, remaining: count });
    }
    pub fn clear_rules(&self) {
        self.0.lock().unwrap().rules.clear();
    }
    /// decision for blocking calls not matched by a rule (default accept)
    pub fn default_blocking(&self, d: Option<Decision>) {
        self.0.lock().unwrap().default_blocking = d;
    }
    /// decision for try_ calls not matched by a rule (default accept; `Reject` = the client's
    /// request queue is full: blocking calls would wait for room, try_ calls fail at once)
    pub fn default_try(&self, d: Option<Decision>) {
        self.0.lock().unwrap().default_try = d;
    }
    pub fn parked_ids(&self) -> Vec<usize> {
        let mut v: Vec<usize> = self.0.lock().unwrap().parked.keys().cloned().collect();
        v.sort();
        v
    }
    /// resolve a parked call; false if it is not parked (any more)
    pub fn resolve(&self, id: usize, ok: bool) -> bool {
        let mut g = self.0.lock().unwrap();
        if let Some(tx) = g.parked.remove(&id) {
            g.trace.push(Obs::Resolved(id, ok));
            let _ = tx.send(ok);
            true
        } else {
            false
        }
    }
    pub fn trace_len(&self) -> usize {
        self.0.lock().unwrap().trace.len()
    }
    pub fn trace_from(&self, from: usize) -> Vec<Obs> {
        self.0.lock().unwrap().trace[from..].to_vec()
    }
    pub fn call(&self, id: usize) -> Call {
        self.0.lock().unwrap().calls[id].clone()
    }
    pub fn calls(&self) -> Vec<Call> {
        self.0.lock().unwrap().calls.clone()
    }

    fn decide(&self, mut call: Call) -> (usize, Decision, Option<oneshot::Receiver<bool>>) {
        let mut g = self.0.lock().unwrap();
        let id = g.calls.len();
        call.id = id;
        let mut decision = None;
        for r in g.rules.iter_mut() {
            if r.remaining > 0 && (r.kind.is_none() || r.kind.as_ref() == Some(&call.kind)) {
                r.remaining -= 1;
                decision = Some(r.decision);
                break;
            }
        }
        let mut d = decision.unwrap_or_else(|| {
            if call.is_try {
                g.default_try.unwrap_or(Decision::Accept)
            } else {
                g.default_blocking.unwrap_or(Decision::Accept)
            }
        });
        if call.is_try && d == Decision::Park {
            // a try_ call cannot wait: a full queue is a rejection
            d = Decision::Reject;
        }
        g.calls.push(call);
        g.trace.push(Obs::Call(id));
        match d {
            Decision::Park => {
                let (tx, rx) = oneshot::channel();
                g.parked.insert(id, tx);
                (id, d, Some(rx))
            }
            Decision::Accept => {
                g.trace.push(Obs::Resolved(id, true));
                (id, d, None)
            }
            Decision::Reject => {
                g.trace.push(Obs::Resolved(id, false));
                (id, d, None)
            }
        }
    }
}

pub struct MockClient {
    pub hub: Hub,
}

impl MockClient {
    async fn handle(&self, call: Call) -> Result<(), ()> {
        let (_id, d, rx) = self.hub.decide(call);
        match d {
            Decision::Accept => Ok(()),
            Decision::Reject => Err(()),
            Decision::Park => match rx.unwrap().await {
                Ok(true) => Ok(()),
                _ => Err(()),
            },
        }
    }
}

fn node_kind(t: &NodeTopic) -> Kind {
    match t.message_type {
        NodeMessage::NBirth => Kind::NBirth,
        NodeMessage::NDeath => Kind::NDeath,
        NodeMessage::NData => Kind::NData,
        NodeMessage::NCmd => Kind::NCmd,
    }
}
fn device_kind(t: &DeviceTopic) -> Kind {
    match t.message_type {
        DeviceMessage::DBirth => Kind::DBirth,
        DeviceMessage::DDeath => Kind::DDeath,
        DeviceMessage::DData => Kind::DData,
        DeviceMessage::DCmd => Kind::DCmd,
    }
}

fn mk(kind: Kind, is_try: bool, topic: String) -> Call {
    Call { id: 0, kind, is_try, topic, payload: None, state: None, filters: vec![] }
}

#[async_trait]
impl Client for MockClient {
    async fn disconnect(&self) -> Result<(), ()> {
        // modelled as non-blocking (it is what `cancel` uses)
        self.handle(mk(Kind::Disconnect, true, String::new())).await
    }
    async fn publish_state_message(&self, topic: StateTopic, payload: StatePayload) -> Result<(), ()> {
        let mut c = mk(Kind::State, false, topic.topic);
        c.state = Some(payload);
        self.handle(c).await
    }
    async fn try_publish_state_message(&self, topic: StateTopic, payload: StatePayload) -> Result<(), ()> {
        let mut c = mk(Kind::State, true, topic.topic);
        c.state = Some(payload);
        self.handle(c).await
    }
    async fn publish_node_message(&self, topic: NodeTopic, payload: Payload) -> Result<(), ()> {
        let mut c = mk(node_kind(&topic), false, topic.topic);
        c.payload = Some(payload);
        self.handle(c).await
    }
    async fn try_publish_node_message(&self, topic: NodeTopic, payload: Payload) -> Result<(), ()> {
        let mut c = mk(node_kind(&topic), true, topic.topic);
        c.payload = Some(payload);
        self.handle(c).await
    }
    async fn publish_device_message(&self, topic: DeviceTopic, payload: Payload) -> Result<(), ()> {
        let mut c = mk(device_kind(&topic), false, topic.topic);
        c.payload = Some(payload);
        self.handle(c).await
    }
    async fn try_publish_device_message(&self, topic: DeviceTopic, payload: Payload) -> Result<(), ()> {
        let mut c = mk(device_kind(&topic), true, topic.topic);
        c.payload = Some(payload);
        self.handle(c).await
    }
    async fn subscribe_many(&self, topics: Vec<TopicFilter>) -> Result<(), ()> {
        let mut c = mk(Kind::Subscribe, false, String::new());
        c.filters = topics.into_iter().map(|t| String::from(t.topic)).collect();
        self.handle(c).await
    }
}

/// Scripted event loop: `poll` returns what the harness pushed, in order, and otherwise waits.
pub struct MockEventLoop {
    pub hub: Hub,
    rx: mpsc::UnboundedReceiver<Event>,
    backlog: VecDeque<Event>,
}

#[derive(Clone)]
pub struct EventFeeder(mpsc::UnboundedSender<Event>);

impl EventFeeder {
    pub fn push(&self, e: Event) -> bool {
        self.0.send(e).is_ok()
    }
}

pub fn event_name(e: &Event) -> String {
    match e {
        Event::Offline => "Offline".into(),
        Event::Online => "Online".into(),
        Event::Node(n) => format!("Node:{:?}", n.message.kind),
        Event::Device(d) => format!("Device:{}:{:?}", d.device_id, d.message.kind),
        Event::State { host_id, .. } => format!("State:{}", host_id),
        Event::InvalidPublish { .. } => "InvalidPublish".into(),
    }
}

#[async_trait]
impl EventLoop for MockEventLoop {
    async fn poll(&mut self) -> Event {
        self.hub.0.lock().unwrap().trace.push(Obs::Poll);
        let e = if let Some(e) = self.backlog.pop_front() {
            e
        } else {
            match self.rx.recv().await {
                Some(e) => e,
                None => std::future::pending().await,
            }
        };
        self.hub.0.lock().unwrap().trace.push(Obs::Polled(event_name(&e)));
        e
    }
    fn set_last_will(&mut self, will: LastWill) {
        self.hub.0.lock().unwrap().trace.push(Obs::SetWill(will));
    }
}

/// client, event loop and the feeder for the loop's events, all sharing one trace
pub fn mock_pair() -> (Hub, MockClient, MockEventLoop, EventFeeder) {
    let hub = Hub::new();
    let (tx, rx) = mpsc::unbounded_channel();
    (
        hub.clone(),
        MockClient { hub: hub.clone() },
        MockEventLoop { hub: hub.clone(), rx, backlog: VecDeque::new() },
        EventFeeder(tx),
    )
}

/// Quiescence barrier (paused current-thread runtime): returns only once every other task is
/// idle. Costs 1 ms of virtual time; the mock clocks are advanced with it.
pub async fn settle() {
    tokio::time::sleep(Duration::from_nanos(1)).await;
    advance_clocks(1);
}

thread_local! {
    static CLOCK_MS: std::cell::Cell<u64> = const { std::cell::Cell::new(1_000_000) };
}

/// current mock time (ms); both `timestamp()` and the cooldown wall clock read it
pub fn now_ms() -> u64 {
    CLOCK_MS.with(|c| c.get())
}

pub fn set_clocks(ms: u64) {
    CLOCK_MS.with(|c| c.set(ms));
    srad_types::utils::verif_hooks::set_mock_timestamp(Some(ms));
    srad_types::utils::verif_hooks::set_mock_wall(Some(ms));
}

pub fn advance_clocks(ms: u64) {
    set_clocks(now_ms() + ms);
}

/// advance virtual (tokio) time and the mock clocks together
pub async fn advance(ms: u64) {
    tokio::time::sleep(Duration::from_millis(ms)).await;
    advance_clocks(ms);
}

pub fn runtime() -> tokio::runtime::Runtime {
    tokio::runtime::Builder::new_current_thread()
        .enable_time()
        .start_paused(true)
        .build()
        .unwrap()
}
