//! Component `loop` (C08 "edge node and host converge to the same view after faults stop"): the
//! REAL edge node (`srad_eon::EoN`, session type of `eon.rs`, mock pair A) and the REAL host
//! (`srad_app::generic_app::Application`, session type of `host.rs`, mock pair B) on ONE paused
//! current-thread runtime with ONE mock clock, joined by a SIMULATED BROKER that carries the real
//! wire form (topic string + prost bytes) and injects faults.
//!
//! The case is a schedule of steps (the case descriptor, replayable):
//!   `to=<reorder timeout ms> [st=<0|1>] | <step> <step> …`     st=1: the host's recording stores reject
//!                       data for metric names their last birth did not define (UnknownMetric)
//!   mset<k>             from the next birth on the node and its devices register the extra metric `x<k>`
//!                       (0 = none, the previous extra one is dropped); node publishes with >= 2 metrics
//!                       carry the extra metric of the node's latest birth. Rendered `eon stim rule mset <k>`.
//!   props<k>            from now on metrics carry a property set: k = where + 4 * profile, where 1 = the birth
//!                       metric `m` of every NBIRTH / DBIRTH, 2 = every metric of every data publish, 3 = both;
//!                       profile 0 = a value and a null of every property datatype, 1 = nested sets and set lists,
//!                       2 = twelve levels of nested sets, 3 = all of it; props0 = none. Rendered `eon stim rule props <k>`.
//!   non / noff          node connection reported Online / broken (registered will -> NDEATH to the host)
//!   hon / hoff          host connection reported Online / broken (everything addressed to it is lost)
//!   reg<d> unreg<d> en<d> dis<d> drb<d> nrb                     node-side user activity
//!   pn:<mode>:<n>  pd<d>:<mode>:<n>                             publish on the node / a device
//!   dl<k> / dn<k>       deliver in-flight message k (mod queue length; 0 = oldest) to the host / the node
//!   drop<k> / dropn<k>  lose it (refused for QoS 1: NDEATH, DBIRTH, DDEATH)
//!   dup<k> / dupn<k>    deliver a copy now, keep the original in flight
//!   hold                nothing is delivered for 1 ms          adv<ms>   virtual time passes
//!   da                  deliver everything in flight, FIFO, both directions (scripted scenarios)
//! followed by the fault-free settling phase (see `World::settle`).
//!
//! BOTH line protocols are emitted into the one ops/impl stream:
//!   eon new cd=0 => …            eon stim <stimulus> => <observations>        (answer `ok`)
//!   host new <cfg> now=          host ev n1 <kind> … now=     host offline|online|adv <ms> now=
//! Clock: one mock clock, 1 ms per line of either kind. Milliseconds consumed by host lines are
//! reported to the node model as `eon stim adv <k-1>` before the next node line; milliseconds
//! consumed by node lines are reported to the host model as `host adv <k> now=<t>` before the next
//! host line (the effects of reorder timers that fired meanwhile are that line's answer).
use crate::common::*;
use crate::mock::*;
use crate::{eon, host};
use prost::Message as _;
use srad_client::{topic_and_payload_to_event, Event, LastWill, MessageKind};
use srad_types::payload::{metric, Payload};
use srad_types::topic::{DeviceMessage as DevVerb, DeviceTopic, NodeMessage as NodeVerb, NodeTopic, QoS};
use std::collections::{BTreeMap, BTreeSet};
use std::panic::AssertUnwindSafe;
use std::path::PathBuf;

const ROUNDS: usize = 6;
const NDEV: u32 = 3;

// ------------------------------------------------------------------------------------------
// schedule steps
// ------------------------------------------------------------------------------------------

#[derive(Clone, Debug, PartialEq)]
enum Step {
    NodeOn,
    NodeOff,
    HostOn,
    HostOff,
    Reg(u32),
    Unreg(u32),
    En(u32),
    Dis(u32),
    DRebirth(u32),
    NRebirth,
    PubNode(String, usize),
    PubDev(u32, String, usize),
    Deliver(usize),
    DeliverNode(usize),
    Drop(usize),
    DropNode(usize),
    Dup(usize),
    DupNode(usize),
    Hold,
    Adv(u64),
    DeliverAll,
    MSet(u32),
    /// metrics carry property sets from now on (`eon` rule `props`)
    Props(u32),
    /// client back-pressure at the node: the next call of this kind is parked by the client
    Park(String),
    /// back-pressure ends: every parked call of the node's client is accepted
    Res,
}

impl Step {
    fn show(&self) -> String {
        match self {
            Step::NodeOn => "non".into(),
            Step::NodeOff => "noff".into(),
            Step::HostOn => "hon".into(),
            Step::HostOff => "hoff".into(),
            Step::Reg(d) => format!("reg{}", d),
            Step::Unreg(d) => format!("unreg{}", d),
            Step::En(d) => format!("en{}", d),
            Step::Dis(d) => format!("dis{}", d),
            Step::DRebirth(d) => format!("drb{}", d),
            Step::NRebirth => "nrb".into(),
            Step::PubNode(m, n) => format!("pn:{}:{}", m, n),
            Step::PubDev(d, m, n) => format!("pd{}:{}:{}", d, m, n),
            Step::Deliver(k) => format!("dl{}", k),
            Step::DeliverNode(k) => format!("dn{}", k),
            Step::Drop(k) => format!("drop{}", k),
            Step::DropNode(k) => format!("dropn{}", k),
            Step::Dup(k) => format!("dup{}", k),
            Step::DupNode(k) => format!("dupn{}", k),
            Step::Hold => "hold".into(),
            Step::Adv(ms) => format!("adv{}", ms),
            Step::DeliverAll => "da".into(),
            Step::MSet(k) => format!("mset{}", k),
            Step::Props(k) => format!("props{}", k),
            Step::Park(k) => format!("pk:{}", k),
            Step::Res => "res".into(),
        }
    }

    fn parse(s: &str) -> Option<Step> {
        let num = |p: &str| s.strip_prefix(p).and_then(|r| r.parse::<u64>().ok());
        Some(match s {
            "non" => Step::NodeOn,
            "noff" => Step::NodeOff,
            "hon" => Step::HostOn,
            "hoff" => Step::HostOff,
            "nrb" => Step::NRebirth,
            "hold" => Step::Hold,
            "da" => Step::DeliverAll,
            "res" => Step::Res,
            _ => {
                if let Some(k) = s.strip_prefix("pk:") {
                    if !["NBIRTH", "DBIRTH", "NDATA", "DDATA", "DDEATH"].contains(&k) {
                        return None;
                    }
                    Step::Park(k.to_string())
                } else if let Some(r) = s.strip_prefix("pn:") {
                    let (m, n) = r.split_once(':')?;
                    Step::PubNode(m.to_string(), n.parse().ok()?)
                } else if let Some(r) = s.strip_prefix("pd") {
                    let mut it = r.splitn(3, ':');
                    let d = it.next()?.parse().ok()?;
                    let m = it.next()?.to_string();
                    Step::PubDev(d, m, it.next()?.parse().ok()?)
                } else if let Some(k) = num("dropn") {
                    Step::DropNode(k as usize)
                } else if let Some(k) = num("drop") {
                    Step::Drop(k as usize)
                } else if let Some(k) = num("dupn") {
                    Step::DupNode(k as usize)
                } else if let Some(k) = num("dup") {
                    Step::Dup(k as usize)
                } else if let Some(k) = num("drb") {
                    Step::DRebirth(k as u32)
                } else if let Some(k) = num("dl") {
                    Step::Deliver(k as usize)
                } else if let Some(k) = num("dn") {
                    Step::DeliverNode(k as usize)
                } else if let Some(k) = num("dis") {
                    Step::Dis(k as u32)
                } else if let Some(k) = num("unreg") {
                    Step::Unreg(k as u32)
                } else if let Some(k) = num("reg") {
                    Step::Reg(k as u32)
                } else if let Some(k) = num("en") {
                    Step::En(k as u32)
                } else if let Some(k) = num("adv") {
                    Step::Adv(k)
                } else if let Some(k) = num("props") {
                    if k > eon::PROPS_MAX as u64 {
                        return None;
                    }
                    Step::Props(k as u32)
                } else if let Some(k) = num("mset") {
                    if k > eon::MSET_MAX as u64 {
                        return None;
                    }
                    Step::MSet(k as u32)
                } else {
                    return None;
                }
            }
        })
    }

    /// statistics key: the kind of fault / activity
    fn class(&self) -> &'static str {
        match self {
            Step::NodeOn => "node-online",
            Step::NodeOff => "node-disconnect",
            Step::HostOn => "host-online",
            Step::HostOff => "host-disconnect",
            Step::Reg(_) => "reg",
            Step::Unreg(_) => "unreg",
            Step::En(_) => "enable",
            Step::Dis(_) => "disable",
            Step::DRebirth(_) => "device-rebirth",
            Step::NRebirth => "node-rebirth",
            Step::PubNode(..) => "pub-node",
            Step::PubDev(..) => "pub-dev",
            Step::Deliver(0) => "deliver-oldest",
            Step::Deliver(_) => "deliver-reordered",
            Step::DeliverNode(0) => "deliver-oldest-to-node",
            Step::DeliverNode(_) => "deliver-reordered-to-node",
            Step::Drop(_) => "drop",
            Step::DropNode(_) => "drop-to-node",
            Step::Dup(_) => "duplicate",
            Step::DupNode(_) => "duplicate-to-node",
            Step::Hold => "hold",
            Step::Adv(_) => "time-passes",
            Step::DeliverAll => "deliver-all",
            Step::MSet(_) => "metric-set-change",
            Step::Props(_) => "metric-properties-change",
            Step::Park(_) => "client-parks-a-call",
            Step::Res => "parked-calls-released",
        }
    }
}

/// case configuration: reorder timeout, strict recording stores
#[derive(Clone, Copy, Debug, PartialEq)]
struct Cfg {
    to: u64,
    strict: bool,
}

fn show_desc(cfg: Cfg, steps: &[Step]) -> String {
    format!("to={}{} | {}", cfg.to, if cfg.strict { " st=1" } else { "" }, steps.iter().map(|s| s.show()).collect::<Vec<_>>().join(" "))
}

fn parse_desc(desc: &str) -> Option<(Cfg, Vec<Step>)> {
    let (head, tail) = desc.split_once('|')?;
    let mut cfg = Cfg { to: 0, strict: false };
    let mut seen_to = false;
    for t in head.split_whitespace() {
        if let Some(x) = t.strip_prefix("to=") {
            cfg.to = x.parse().ok()?;
            seen_to = true;
        } else if let Some(x) = t.strip_prefix("st=") {
            cfg.strict = x == "1";
        } else {
            return None;
        }
    }
    if !seen_to {
        return None;
    }
    let mut v = vec![];
    for t in tail.split_whitespace() {
        v.push(Step::parse(t)?);
    }
    Some((cfg, v))
}

// ------------------------------------------------------------------------------------------
// the broker
// ------------------------------------------------------------------------------------------

/// one message in flight: the real wire form plus the broker's own bookkeeping
#[derive(Clone, Debug)]
struct Wire {
    kind: Kind,
    topic: Vec<u8>,
    bytes: Vec<u8>,
    qos1: bool,
    /// number of NBIRTHs the broker had seen from the node when this message was handed over
    /// (the NBIRTH itself included): the node session the message belongs to
    session: u64,
}

fn id_of(p: &Payload) -> Option<i64> {
    p.metrics.iter().find(|m| m.name.as_deref() == Some("id")).and_then(|m| match m.value {
        Some(metric::Value::LongValue(v)) => Some(v as i64),
        Some(metric::Value::IntValue(v)) => Some(v as i64),
        _ => None,
    })
}

fn bd_of(p: &Payload) -> Option<u64> {
    p.metrics.iter().find(|m| m.name.as_deref() == Some("bdSeq")).and_then(|m| match m.value {
        Some(metric::Value::LongValue(v)) => Some(v),
        Some(metric::Value::IntValue(v)) => Some(v as u64),
        _ => None,
    })
}

/// device number of a device topic `spBv1.0/g/<VERB>/n1/d<k>`
fn dev_of_topic(topic: &str) -> Option<u32> {
    topic.rsplit('/').next().and_then(|s| s.strip_prefix('d')).and_then(|s| s.parse().ok())
}

/// QoS 1? — from the real topic type's `get_publish_quality_retain()`; the topic string the call
/// carried must be the one srad-types builds for that verb
fn qos1_of(kind: &Kind, topic: &str) -> Option<bool> {
    let parts: Vec<&str> = topic.split('/').collect();
    let (q, built) = match kind {
        Kind::NBirth | Kind::NDeath | Kind::NData | Kind::NCmd => {
            if parts.len() != 4 {
                return None;
            }
            let verb = match kind {
                Kind::NBirth => NodeVerb::NBirth,
                Kind::NDeath => NodeVerb::NDeath,
                Kind::NData => NodeVerb::NData,
                _ => NodeVerb::NCmd,
            };
            let t = NodeTopic::new(parts[1], verb, parts[3]);
            (t.get_publish_quality_retain().0, t.topic)
        }
        Kind::DBirth | Kind::DDeath | Kind::DData | Kind::DCmd => {
            if parts.len() != 5 {
                return None;
            }
            let verb = match kind {
                Kind::DBirth => DevVerb::DBirth,
                Kind::DDeath => DevVerb::DDeath,
                Kind::DData => DevVerb::DData,
                _ => DevVerb::DCmd,
            };
            let t = DeviceTopic::new(parts[1], verb, parts[3], parts[4]);
            (t.get_publish_quality_retain().0, t.topic)
        }
        _ => return None,
    };
    if built != topic {
        return None;
    }
    Some(q == QoS::AtLeastOnce)
}

/// the `host ev …` request body (without ` now=`) for an event decoded from the wire
fn render_host_ev(ev: &Event, ans: &str) -> Option<String> {
    match ev {
        Event::Node(nm) => {
            let p = &nm.message.payload;
            let n = &nm.node_id;
            let id = id_of(p).unwrap_or(0);
            match nm.message.kind {
                MessageKind::Birth => Some(format!("ev {} nbirth ts={} bd={} id={} ans=ok", n, p.timestamp?, bd_of(p)?, id)),
                MessageKind::Death => Some(format!("ev {} ndeath bd={}", n, bd_of(p)?)),
                MessageKind::Data => Some(format!("ev {} ndata seq={} ts={} id={} ans={}", n, p.seq?, p.timestamp?, id, ans)),
                _ => None,
            }
        }
        Event::Device(dm) => {
            let p = &dm.message.payload;
            let n = &dm.node_id;
            let d = dm.device_id.strip_prefix('d')?.parse::<u32>().ok()?;
            let id = id_of(p).unwrap_or(0);
            match dm.message.kind {
                MessageKind::Birth => Some(format!("ev {} dbirth dev={} seq={} ts={} id={} ans=ok", n, d, p.seq?, p.timestamp?, id)),
                MessageKind::Death => Some(format!("ev {} ddeath dev={} seq={} ts={} id={}", n, d, p.seq?, p.timestamp?, id)),
                MessageKind::Data => Some(format!("ev {} ddata dev={} seq={} ts={} id={} ans={}", n, d, p.seq?, p.timestamp?, id, ans)),
                _ => None,
            }
        }
        _ => None,
    }
}

/// the `eon stim …` text of a command decoded from the wire
fn render_node_cmd(ev: &Event) -> Option<String> {
    match ev {
        Event::Node(nm) if nm.message.kind == MessageKind::Cmd => {
            let p = &nm.message.payload;
            // the node looks at un-aliased metrics named `Node Control/Rebirth`; the last one decides
            let mut rb = "x";
            let mut alias = false;
            for m in &p.metrics {
                if m.name.as_deref() == Some("Node Control/Rebirth") {
                    if m.alias.is_some() {
                        alias = true;
                        continue;
                    }
                    rb = if m.value == Some(metric::Value::BooleanValue(true)) { "1" } else { "0" };
                }
            }
            let ts = if p.timestamp.is_some() { 1 } else { 0 };
            Some(if alias && rb == "x" { format!("ncmd rb=1 ts={} alias=1", ts) } else { format!("ncmd rb={} ts={}", rb, ts) })
        }
        Event::Device(dm) if dm.message.kind == MessageKind::Cmd => {
            let d = dm.device_id.strip_prefix('d')?.parse::<u32>().ok()?;
            Some(format!("dcmd {} ts={}", d, if dm.message.payload.timestamp.is_some() { 1 } else { 0 }))
        }
        _ => None,
    }
}

// ------------------------------------------------------------------------------------------
// one case
// ------------------------------------------------------------------------------------------

struct World {
    node: eon::Sess,
    host: host::Sess,
    hub_a: Hub,
    hub_b: Hub,
    to: u64,
    strict: bool,
    dead: bool,
    // ---- broker
    to_host: Vec<Wire>,
    to_node: Vec<Wire>,
    mark_a: usize,
    mark_b: usize,
    /// the broker routes by SUBSCRIPTION, per connection, clean sessions: the filters each side has
    /// subscribed on its current connection (cleared when that connection breaks)
    subs_node: Vec<String>,
    subs_host: Vec<String>,
    sub_cur_a: usize,
    sub_cur_b: usize,
    node_conn: bool,
    host_conn: bool,
    /// the will most recently registered on the node's event loop / the one latched at connect
    will: Option<LastWill>,
    will_conn: Option<LastWill>,
    session: u64,
    // ---- clock coverage: first clock reading not yet covered by a line of that protocol
    eon_cov: u64,
    host_cov: u64,
    // ---- node side, user level
    reg: BTreeSet<u32>,
    en: BTreeSet<u32>,
    // ---- what the node handed to its client (object 0 = node, k = device k)
    pub_birth: BTreeMap<u32, BTreeSet<i64>>,
    pub_data: BTreeMap<u32, BTreeSet<i64>>,
    session_of_id: BTreeMap<i64, u64>,
    /// payload timestamp of every message the node handed over, by id
    ts_of_id: BTreeMap<i64, u64>,
    /// payload timestamp of the NBIRTH the host holds
    held_ts: Option<u64>,
    settling: bool,
    settle_pub: BTreeMap<u32, i64>,
    /// metric names of the latest birth payload of each object the node's client accepted
    birth_names: BTreeMap<u32, BTreeSet<String>>,
    /// a `mset` step was executed: the settling publishes carry two metrics (the second is the extra one)
    mset_used: bool,
    /// the `ans=` printed on the delivery lines of each data message id (strict stores)
    printed_ans: BTreeMap<i64, bool>,
    // ---- the host's view, from the effects at its stores only
    h_node: Option<bool>,
    h_dev: BTreeMap<u32, bool>,
    h_last: BTreeMap<u32, i64>,
    held_session: Option<u64>,
    newest_nbirth_delivered: u64,
    // ---- documentation of the case: request lines and the implementation's answers
    log: Vec<(String, String)>,
    deliveries: u64,
}

impl World {
    fn begin(out: &mut Out, case: Cfg) -> World {
        let to = case.to;
        eon::id_mode(Some(1));
        let mut node = eon::Sess::begin(out, 0);
        node.yields = 24;
        let cfg = host::cfg_default(&to.to_string(), 0, 1);
        let op = format!("host new {} now={}", cfg, now_ms());
        let eon_cov = now_ms();
        let host = node.rt().expect("runtime").block_on(host::Sess::new_here(&op, case.strict));
        out.line(&op, "ok");
        let hub_a = node.hub();
        let hub_b = host.hub();
        let first = node.first_line.clone();
        let mut w = World {
            node,
            host,
            hub_a,
            hub_b,
            to,
            strict: case.strict,
            dead: false,
            to_host: vec![],
            to_node: vec![],
            mark_a: 0,
            mark_b: 0,
            subs_node: vec![],
            subs_host: vec![],
            sub_cur_a: 0,
            sub_cur_b: 0,
            node_conn: false,
            host_conn: true,
            will: None,
            will_conn: None,
            session: 0,
            eon_cov,
            host_cov: now_ms(),
            reg: BTreeSet::new(),
            en: BTreeSet::new(),
            pub_birth: BTreeMap::new(),
            pub_data: BTreeMap::new(),
            session_of_id: BTreeMap::new(),
            ts_of_id: BTreeMap::new(),
            held_ts: None,
            settling: false,
            settle_pub: BTreeMap::new(),
            birth_names: BTreeMap::new(),
            mset_used: false,
            printed_ans: BTreeMap::new(),
            h_node: None,
            h_dev: BTreeMap::new(),
            h_last: BTreeMap::new(),
            held_session: None,
            newest_nbirth_delivered: 0,
            log: vec![],
            deliveries: 0,
        };
        w.log.push((first, "ok".into()));
        w.log.push((op, "ok".into()));
        w.pump(out);
        w
    }

    // ---- the two line protocols ----------------------------------------------------------

    fn emit(&mut self, out: &mut Out, op: String, answer: &str) {
        out.line(&op, answer);
        if self.log.len() < 400 {
            self.log.push((op, answer.to_string()));
        }
    }

    /// tell the node model about the milliseconds host lines consumed
    fn sync_eon(&mut self, out: &mut Out) {
        let t = now_ms();
        if self.eon_cov < t {
            let (stim, obs) = self.node.elapsed(t - self.eon_cov, out);
            self.emit(out, format!("eon stim {} => {}", stim, obs), "ok");
            self.eon_cov = t;
        }
    }

    /// tell the host model about the milliseconds node lines consumed; whatever the host did
    /// meanwhile (reorder timeout -> stale + NCMD) is the answer
    fn sync_host(&mut self, out: &mut Out) {
        let t = now_ms();
        if self.host_cov < t {
            let op = format!("host adv {} now={}", t - self.host_cov, self.host_cov);
            let (effs, canon) = self.host.observe(&op, out);
            self.emit(out, op.clone(), &canon);
            self.host_cov = t;
            self.host_effects(out, &op, &effs, None);
        }
    }

    /// one node stimulus = one `eon stim` line (1 ms)
    fn eon_line(&mut self, out: &mut Out, stim: &str, ev: Option<Event>) -> String {
        if self.dead {
            return "-".into();
        }
        self.sync_eon(out);
        let obs = match ev {
            Some(e) => self.node.exec_event(stim, e, out),
            None => self.node.exec(stim, out),
        };
        self.emit(out, format!("eon stim {} => {}", stim, obs), "ok");
        self.eon_cov = now_ms();
        if self.node.rt().is_none() {
            self.dead = true;
            out.fail("LOOP:panic", "node-line", format!("a task panicked during `{}` => {}", stim, obs));
            return obs;
        }
        self.pump(out);
        obs
    }

    /// one delivery to the host / connection event / passage of time = one `host` line
    fn host_line(&mut self, out: &mut Out, body: &str, ev: Option<Event>, adv: u64, wire: Option<&Wire>) {
        if self.dead {
            return;
        }
        self.sync_host(out);
        let t = now_ms();
        let op = format!("host {} now={}", body, t);
        let host = &self.host;
        let rt = self.node.rt().expect("runtime");
        let r = catch(AssertUnwindSafe(|| {
            rt.block_on(async {
                match ev {
                    Some(e) => {
                        host.push(e);
                        host::ev_tick().await;
                        set_clocks(t + 1);
                    }
                    None => {
                        host::adv_ticks(t, adv).await;
                        set_clocks(t + adv);
                    }
                }
            })
        }));
        let (effs, canon) = self.host.observe(&op, out);
        self.emit(out, op.clone(), &canon);
        self.host_cov = now_ms();
        if r.is_err() {
            self.dead = true;
            out.fail("LOOP:panic", "host-line", format!("a task panicked during `{}`", op));
            return;
        }
        self.host_effects(out, &op, &effs, wire);
        self.pump(out);
    }

    // ---- broker ---------------------------------------------------------------------------

    /// take over what the two clients accepted since the last line
    fn pump(&mut self, out: &mut Out) {
        let obs = self.hub_a.trace_from(self.mark_a);
        self.mark_a += obs.len();
        for o in obs {
            match o {
                Obs::SetWill(w) => self.will = Some(w),
                Obs::Resolved(id, true) => {
                    let c = self.hub_a.call(id);
                    self.route_from_node(out, c);
                }
                _ => {}
            }
        }
        let obs = self.hub_b.trace_from(self.mark_b);
        self.mark_b += obs.len();
        for o in obs {
            if let Obs::Resolved(id, true) = o {
                let c = self.hub_b.call(id);
                match c.kind {
                    Kind::NCmd | Kind::DCmd => {
                        let p = c.payload.clone().unwrap_or_default();
                        let q = qos1_of(&c.kind, &c.topic);
                        if q.is_none() {
                            out.fail("LOOP:wire", "host-topic", format!("unexpected topic `{}` of a {} call", c.topic, c.kind.name()));
                        }
                        let w = Wire { kind: c.kind.clone(), topic: c.topic.clone().into_bytes(), bytes: p.encode_to_vec(), qos1: q.unwrap_or(false), session: self.session };
                        out.count(&format!("broker:from-host:{}", c.kind.name()));
                        if !self.node_conn {
                            out.count("broker:lost:node-disconnected");
                        } else if !self.node_subscribed(&c.topic) {
                            out.count("broker:unrouted:node-not-subscribed");
                        } else {
                            self.to_node.push(w);
                        }
                    }
                    _ => out.count(&format!("broker:from-host:{}", c.kind.name())),
                }
            }
        }
    }

    /// take note of the SUBSCRIBE requests made since the last look
    fn refresh_subs(&mut self) {
        let ca = self.hub_a.calls();
        for c in &ca[self.sub_cur_a.min(ca.len())..] {
            if c.kind == Kind::Subscribe {
                self.subs_node.extend(c.filters.iter().cloned());
            }
        }
        self.sub_cur_a = ca.len();
        let cb = self.hub_b.calls();
        for c in &cb[self.sub_cur_b.min(cb.len())..] {
            if c.kind == Kind::Subscribe {
                self.subs_host.extend(c.filters.iter().cloned());
            }
        }
        self.sub_cur_b = cb.len();
    }

    fn host_subscribed(&mut self, topic: &str) -> bool {
        self.refresh_subs();
        self.subs_host.iter().any(|f| crate::hostloop::mqtt_match(f, topic))
    }

    fn node_subscribed(&mut self, topic: &str) -> bool {
        self.refresh_subs();
        self.subs_node.iter().any(|f| crate::hostloop::mqtt_match(f, topic))
    }

    fn route_from_node(&mut self, out: &mut Out, c: Call) {
        out.count(&format!("broker:from-node:{}", c.kind.name()));
        let p = match (&c.kind, &c.payload) {
            (Kind::NBirth | Kind::NData | Kind::NDeath | Kind::DBirth | Kind::DData | Kind::DDeath, Some(p)) => p.clone(),
            _ => return, // SUB, DISCONNECT: recorded only
        };
        if c.kind == Kind::NBirth {
            self.session += 1;
        }
        let obj = match c.kind {
            Kind::NBirth | Kind::NData | Kind::NDeath => 0,
            _ => dev_of_topic(&c.topic).unwrap_or(0),
        };
        if let Some(id) = id_of(&p) {
            self.ts_of_id.insert(id, p.timestamp.unwrap_or(0));
            match c.kind {
                Kind::NBirth | Kind::DBirth => {
                    self.pub_birth.entry(obj).or_default().insert(id);
                    self.session_of_id.insert(id, self.session);
                    self.birth_names.insert(obj, p.metrics.iter().filter_map(|m| m.name.clone()).collect());
                }
                Kind::NData | Kind::DData => {
                    self.pub_data.entry(obj).or_default().insert(id);
                    self.session_of_id.insert(id, self.session);
                    if self.settling {
                        self.settle_pub.insert(obj, id);
                    }
                }
                _ => {}
            }
        }
        let q = qos1_of(&c.kind, &c.topic);
        if q.is_none() {
            out.fail("LOOP:wire", "node-topic", format!("unexpected topic `{}` of a {} call", c.topic, c.kind.name()));
        }
        let w = Wire { kind: c.kind.clone(), topic: c.topic.clone().into_bytes(), bytes: p.encode_to_vec(), qos1: q.unwrap_or(true), session: self.session };
        if !self.host_conn {
            out.count("broker:lost:host-disconnected");
        } else if !self.host_subscribed(&c.topic) {
            out.count("broker:unrouted:host-not-subscribed");
        } else {
            self.to_host.push(w);
        }
    }

    fn deliver_to_host(&mut self, out: &mut Out, w: &Wire) {
        let ev = topic_and_payload_to_event(w.topic.clone(), w.bytes.clone());
        // the answer the recording store will give when the message is applied (the model's `ans=`): with
        // strict stores a data message naming a metric the store's last birth did not define is `unk`.
        // Read before the delivery: a node store's set only changes at an NBIRTH, which discards whatever
        // waits in the resequencer; device data only ever name `id` and `m`, which every birth defines.
        let mut ans = "ok";
        if self.strict {
            let (label, payload) = match &ev {
                Event::Node(nm) if nm.message.kind == MessageKind::Data => (Some("n1".to_string()), Some(&nm.message.payload)),
                Event::Device(dm) if dm.message.kind == MessageKind::Data => (Some(format!("n1:{}", dm.device_id)), Some(&dm.message.payload)),
                _ => (None, None),
            };
            if let (Some(label), Some(p)) = (label, payload) {
                if let Some(known) = self.host.store(&label).birth_names {
                    if !p.metrics.iter().all(|m| m.name.as_ref().map(|n| known.contains(n)).unwrap_or(true)) {
                        ans = "unk";
                        out.count("strict-store:predicted-unknown-metric");
                    }
                }
                if let Some(id) = id_of(p) {
                    self.printed_ans.insert(id, ans == "ok");
                }
            }
        }
        match render_host_ev(&ev, ans) {
            Some(body) => {
                self.deliveries += 1;
                out.count(&format!("delivered:to-host:{}", w.kind.name()));
                // how often the situations the clauses talk about actually arise
                if matches!(w.kind, Kind::NData | Kind::DData | Kind::DBirth | Kind::DDeath) {
                    if w.session < self.newest_nbirth_delivered {
                        out.count("exercised:old-session-message-after-newer-nbirth");
                    }
                    if self.h_node == Some(false) {
                        out.count("exercised:message-while-host-holds-node-stale");
                    }
                }
                if w.kind == Kind::NBirth && w.session < self.newest_nbirth_delivered {
                    out.count("exercised:older-nbirth-after-newer-nbirth");
                }
                if w.kind == Kind::NDeath && w.session < self.newest_nbirth_delivered {
                    out.count("exercised:ndeath-of-older-session-after-newer-nbirth");
                }
                self.host_line(out, &body, Some(ev), 0, Some(w));
            }
            None => out.fail("LOOP:wire", "undeliverable-to-host", format!("{} on `{}` decodes to {:?}", w.kind.name(), String::from_utf8_lossy(&w.topic), ev)),
        }
    }

    fn deliver_to_node(&mut self, out: &mut Out, w: &Wire) {
        let ev = topic_and_payload_to_event(w.topic.clone(), w.bytes.clone());
        match render_node_cmd(&ev) {
            Some(stim) => {
                self.deliveries += 1;
                out.count(&format!("delivered:to-node:{}", w.kind.name()));
                self.eon_line(out, &stim, Some(ev));
            }
            None => out.fail("LOOP:wire", "undeliverable-to-node", format!("{} on `{}` decodes to {:?}", w.kind.name(), String::from_utf8_lossy(&w.topic), ev)),
        }
    }

    /// everything in flight, FIFO, both directions, including what the deliveries trigger
    fn deliver_all(&mut self, out: &mut Out) {
        for _ in 0..400 {
            if self.dead || (self.to_host.is_empty() && self.to_node.is_empty()) {
                break;
            }
            if !self.to_host.is_empty() {
                let w = self.to_host.remove(0);
                self.deliver_to_host(out, &w);
            }
            if !self.to_node.is_empty() {
                let w = self.to_node.remove(0);
                self.deliver_to_node(out, &w);
            }
        }
    }

    // ---- steps ----------------------------------------------------------------------------

    fn step(&mut self, out: &mut Out, s: &Step) {
        if self.dead {
            return;
        }
        let before = now_ms();
        match s {
            Step::NodeOn => {
                if !self.node_conn {
                    self.will_conn = self.will.clone();
                    self.node_conn = true;
                }
                self.eon_line(out, "online", None);
            }
            Step::NodeOff => {
                let was = self.node_conn;
                self.node_conn = false;
                // clean session: the node's subscriptions go with its connection
                self.refresh_subs();
                self.subs_node.clear();
                if was {
                    // commands on their way to the node are lost with the connection
                    out.count_n("broker:lost:node-disconnected", self.to_node.len() as u64);
                    self.to_node.clear();
                }
                self.eon_line(out, "offline", None);
                if was {
                    // the broker publishes the will registered for the broken connection
                    match self.will_conn.take() {
                        Some(w) => {
                            let wire = Wire { kind: Kind::NDeath, topic: w.topic.clone().into_bytes(), bytes: w.payload.clone(), qos1: w.qos == QoS::AtLeastOnce, session: self.session };
                            out.count("broker:will-published");
                            let wt = String::from_utf8_lossy(&wire.topic).to_string();
                            if !self.host_conn {
                                out.count("broker:lost:host-disconnected");
                            } else if !self.host_subscribed(&wt) {
                                out.count("broker:unrouted:host-not-subscribed");
                            } else {
                                self.to_host.push(wire);
                            }
                        }
                        None => out.fail("LOOP:wire", "no-will", "the node was connected without a registered will".into()),
                    }
                }
            }
            Step::HostOn => {
                self.host_conn = true;
                self.host_line(out, "online", Some(Event::Online), 0, None);
            }
            Step::HostOff => {
                if self.host_conn {
                    out.count_n("broker:lost:host-disconnected", self.to_host.len() as u64);
                    self.to_host.clear();
                }
                self.host_conn = false;
                // clean session: the broker forgets the host's subscriptions with its connection
                self.refresh_subs();
                self.subs_host.clear();
                self.host_line(out, "offline", Some(Event::Offline), 0, None);
            }
            Step::Reg(d) => {
                if !self.reg.contains(d) {
                    self.reg.insert(*d);
                    self.en.remove(d);
                }
                self.eon_line(out, &format!("reg {}", d), None);
            }
            Step::Unreg(d) => {
                self.reg.remove(d);
                self.en.remove(d);
                self.eon_line(out, &format!("unreg {}", d), None);
            }
            Step::En(d) => {
                if self.reg.contains(d) {
                    self.en.insert(*d);
                }
                self.eon_line(out, &format!("enable {}", d), None);
            }
            Step::Dis(d) => {
                self.en.remove(d);
                self.eon_line(out, &format!("disable {}", d), None);
            }
            Step::DRebirth(d) => {
                self.eon_line(out, &format!("drebirth {}", d), None);
            }
            Step::NRebirth => {
                self.eon_line(out, "nrebirth", None);
            }
            Step::PubNode(m, n) => {
                self.eon_line(out, &format!("pub node {} n={}", m, n), None);
            }
            Step::PubDev(d, m, n) => {
                self.eon_line(out, &format!("pub dev {} {} n={}", d, m, n), None);
            }
            Step::Deliver(k) => {
                if !self.to_host.is_empty() {
                    let i = k % self.to_host.len();
                    let w = self.to_host.remove(i);
                    self.deliver_to_host(out, &w);
                }
            }
            Step::DeliverNode(k) => {
                if !self.to_node.is_empty() {
                    let i = k % self.to_node.len();
                    let w = self.to_node.remove(i);
                    self.deliver_to_node(out, &w);
                }
            }
            Step::Drop(k) => {
                if !self.to_host.is_empty() {
                    let i = k % self.to_host.len();
                    if self.to_host[i].qos1 {
                        out.count("broker:drop-refused:qos1");
                    } else {
                        let w = self.to_host.remove(i);
                        out.count(&format!("broker:dropped:{}", w.kind.name()));
                    }
                }
            }
            Step::DropNode(k) => {
                if !self.to_node.is_empty() {
                    let i = k % self.to_node.len();
                    if self.to_node[i].qos1 {
                        out.count("broker:drop-refused:qos1");
                    } else {
                        let w = self.to_node.remove(i);
                        out.count(&format!("broker:dropped:{}", w.kind.name()));
                    }
                }
            }
            Step::Dup(k) => {
                if !self.to_host.is_empty() {
                    let i = k % self.to_host.len();
                    let w = self.to_host[i].clone();
                    out.count(&format!("broker:duplicated:{}", w.kind.name()));
                    self.deliver_to_host(out, &w);
                }
            }
            Step::DupNode(k) => {
                if !self.to_node.is_empty() {
                    let i = k % self.to_node.len();
                    let w = self.to_node[i].clone();
                    out.count(&format!("broker:duplicated:{}", w.kind.name()));
                    self.deliver_to_node(out, &w);
                }
            }
            Step::Hold => {}
            Step::Adv(ms) => {
                if *ms > 0 {
                    self.host_line(out, &format!("adv {}", ms), None, *ms, None);
                }
            }
            Step::DeliverAll => self.deliver_all(out),
            Step::Park(k) => {
                self.eon_line(out, &format!("rule {} park 1", k), None);
            }
            Step::Res => self.release_parked(out),
            Step::Props(k) => {
                let obs = self.eon_line(out, &format!("rule props {}", k), None);
                if obs != "-" {
                    out.fail("LOOP:wire", "props-observed", format!("`rule props {}` => {}", k, obs));
                }
                out.count(&format!("props:where={}:profile={}", k % 4, k / 4));
            }
            Step::MSet(k) => {
                self.mset_used = true;
                let obs = self.eon_line(out, &format!("rule mset {}", k), None);
                if obs != "-" {
                    out.fail("LOOP:wire", "mset-observed", format!("`rule mset {}` => {}", k, obs));
                }
            }
        }
        // successive steps never share a millisecond
        if now_ms() == before && !self.dead {
            self.host_line(out, "adv 1", None, 1, None);
        }
    }

    // ---- C08 oracles ------------------------------------------------------------------------

    /// the effects of one host line; `wire` = the message whose delivery it was
    fn host_effects(&mut self, out: &mut Out, op: &str, effs: &[(String, String)], wire: Option<&Wire>) {
        for (n, e) in effs {
            let name = e.split('(').next().unwrap();
            let args: Vec<i64> = e
                .split(|c| c == '(' || c == ')' || c == ',')
                .skip(1)
                .filter(|x| !x.is_empty())
                .map(|x| x.parse().unwrap_or(-9))
                .collect();
            if n != "n1" {
                out.fail("C08:never-exposes-unpublished", "foreign-node", format!("{} => {}:{}", op, n, e));
                continue;
            }
            let here = || format!("{} => {}", op, effs.iter().map(|x| format!("{}:{}", x.0, x.1)).collect::<Vec<_>>().join(";"));
            match name {
                "nodeBirth" => {
                    if !self.pub_birth.get(&0).map(|s| s.contains(&args[0])).unwrap_or(false) {
                        out.fail("C08:never-exposes-unpublished", "nodeBirth", format!("id {} was never the `id` of an NBIRTH the node handed over; {}", args[0], here()));
                    }
                    if args[1] == 1 {
                        self.h_node = Some(true);
                        self.h_last.insert(0, args[0]);
                        self.held_session = self.session_of_id.get(&args[0]).copied();
                        self.held_ts = self.ts_of_id.get(&args[0]).copied();
                    }
                }
                "nodeStale" => self.h_node = Some(false),
                "devBirth" => {
                    let d = args[0] as u32;
                    if !self.pub_birth.get(&d).map(|s| s.contains(&args[1])).unwrap_or(false) {
                        out.fail("C08:never-exposes-unpublished", "devBirth", format!("id {} was never the `id` of a DBIRTH of device {}; {}", args[1], d, here()));
                    }
                    self.check_session(out, "dbirth", args[1], &here());
                    if self.h_node != Some(true) {
                        out.fail("C08:no-data-from-stale-session", "dbirth:node-held-stale", here());
                    }
                    if args[2] == 1 {
                        self.h_dev.insert(d, true);
                        self.h_last.insert(d, args[1]);
                    }
                }
                "devStale" => {
                    self.h_dev.insert(args[0] as u32, false);
                }
                "nodeData" | "devData" => {
                    let (obj, id) = if name == "nodeData" { (0u32, args[0]) } else { (args[0] as u32, args[1]) };
                    if !self.pub_data.get(&obj).map(|s| s.contains(&id)).unwrap_or(false) {
                        out.fail("C08:never-exposes-unpublished", name, format!("id {} was never the `id` of a data message of object {}; {}", id, obj, here()));
                    }
                    if self.h_node != Some(true) {
                        let f = if self.h_node.is_none() { "never-birthed" } else { "node-held-stale" };
                        out.fail("C08:no-data-from-stale-session", f, here());
                    }
                    self.check_session(out, "data", id, &here());
                    // the store's own verdict (harness code): a rejected update is not a recorded value
                    let label = if obj == 0 { "n1".to_string() } else { format!("n1:d{}", obj) };
                    let accepted = self.host.store(&label).verdicts.iter().rev().find(|v| v.0 == id).map(|v| v.1).unwrap_or(true);
                    if let Some(printed) = self.printed_ans.get(&id) {
                        if *printed != accepted {
                            out.fail("LOOP:ans-prediction", name, format!("the line of message {} said ans={} but the store answered {}; {}", id, if *printed { "ok" } else { "unk" }, if accepted { "ok" } else { "unk" }, here()));
                        }
                    }
                    if accepted {
                        self.h_last.insert(obj, id);
                    } else {
                        out.count("strict-store:data-rejected");
                    }
                }
                "ncmd" => out.count("host:ncmd"),
                _ => {}
            }
        }
        if let Some(w) = wire {
            if w.kind == Kind::NBirth {
                // observation (not an oracle): the NBIRTH of a newer session reaches a host that holds the
                // node birthed and the node's store is not told (srad treats it as a duplicate birth)
                let newer = self.held_session.map(|h| w.session > h).unwrap_or(false);
                if newer && self.h_node == Some(true) && w.session > self.newest_nbirth_delivered && !effs.iter().any(|(_, e)| e.starts_with("nodeBirth(")) {
                    out.count("observation:newer-nbirth-not-passed-to-node-store");
                }
                self.newest_nbirth_delivered = self.newest_nbirth_delivered.max(w.session);
            }
        }
    }

    fn check_session(&mut self, out: &mut Out, what: &str, id: i64, here: &str) {
        if let Some(s) = self.session_of_id.get(&id).copied() {
            // The host tells births apart by the payload timestamp only ("messages time-stamped before the
            // current birth are discarded", C06): a message of an older node birth whose timestamp is NOT
            // older than the held NBIRTH's (several births within one millisecond, delivered out of order)
            // is indistinguishable for any host and is not "data from a session it has declared stale".
            let older_by_ts = match (self.ts_of_id.get(&id), self.held_ts) {
                (Some(t), Some(h)) => *t < h,
                _ => true,
            };
            if !older_by_ts {
                if self.held_session.map(|h| s < h).unwrap_or(false) {
                    out.count("exercised:older-birth-message-with-same-or-newer-timestamp-applied");
                }
                return;
            }
            match self.held_session {
                Some(h) if s < h => out.fail(
                    "C08:no-data-from-stale-session",
                    &format!("{}:older-than-held-birth", what),
                    format!("message {} belongs to node session {} but the host holds the birth of session {}; {}", id, s, h, here),
                ),
                _ if s < self.newest_nbirth_delivered => out.fail(
                    "C08:no-data-from-stale-session",
                    &format!("{}:older-than-newest-delivered-nbirth", what),
                    format!("message {} belongs to node session {} but the NBIRTH of session {} was delivered before; {}", id, s, self.newest_nbirth_delivered, here),
                ),
                _ => {}
            }
        }
    }

    /// the convergence predicate; Err((feature, detail)) names the first sentence that fails
    fn in_sync(&self) -> Result<(), (String, String)> {
        if self.h_node != Some(true) {
            return Err(("node-not-held-birthed".into(), format!("latest node lifecycle effect at the host: {:?}", self.h_node)));
        }
        for d in 1..=NDEV {
            let live = self.reg.contains(&d) && self.en.contains(&d);
            match (live, self.h_dev.get(&d)) {
                (true, Some(true)) | (false, None) | (false, Some(false)) => {}
                (true, x) => return Err(("enabled-device-not-held-birthed".into(), format!("device {} is registered and enabled at the node; at the host: {:?}", d, x))),
                (false, Some(true)) => {
                    let why = if self.reg.contains(&d) { "disabled" } else { "unregistered" };
                    return Err((format!("{}-device-held-birthed", why), format!("device {} is {} at the node but the host's latest lifecycle effect for it is an accepted DBIRTH", d, why)));
                }
            }
        }
        let mut objs = vec![0u32];
        objs.extend((1..=NDEV).filter(|d| self.reg.contains(d) && self.en.contains(d)));
        let label = |o: u32| if o == 0 { "n1".to_string() } else { format!("n1:d{}", o) };
        // strict stores: the node's latest settling publish (it carries the extra metric of the node's
        // latest birth) was answered UnknownMetric
        if let Some(p) = self.settle_pub.get(&0) {
            if self.host.store("n1").verdicts.iter().rev().find(|v| v.0 == *p).map(|v| !v.1).unwrap_or(false) {
                return Err((
                    "stale-metric-rejected-forever".into(),
                    format!("the node store still answers UnknownMetric to the node's settling publish {} (store's birth names {:?}, node's latest NBIRTH {:?})", p, self.host.store("n1").birth_names, self.birth_names.get(&0)),
                ));
            }
        }
        for o in objs.clone() {
            match (self.settle_pub.get(&o), self.h_last.get(&o)) {
                (Some(p), Some(h)) if p == h => {}
                (p, h) => {
                    return Err((
                        if o == 0 { "node-value".into() } else { "device-value".into() },
                        format!("object {}: last id the node's client accepted in the settling phase {:?}, last id recorded by the host store {:?}", o, p, h),
                    ))
                }
            }
        }
        // "exactly the metric set the node published": the name set of the last birth the store was
        // given = the name set of the latest birth payload of that object the node handed over
        for o in objs {
            let held = self.host.store(&label(o)).birth_names;
            let published = self.birth_names.get(&o).cloned();
            if held != published {
                let h = held.clone().unwrap_or_default();
                let p = published.clone().unwrap_or_default();
                return Err((
                    if o == 0 { "metric-set".into() } else { "metric-set:device".into() },
                    format!(
                        "object {}: the host store was last given the metric names {:?}, the node's latest birth payload carries {:?} (missing at the host {:?}, outdated at the host {:?})",
                        o, held, published, p.difference(&h).collect::<Vec<_>>(), h.difference(&p).collect::<Vec<_>>()
                    ),
                ));
            }
        }
        Ok(())
    }

    /// the node's client accepts every call it had parked (oldest first)
    fn release_parked(&mut self, out: &mut Out) {
        for _ in 0..64 {
            let ids = self.hub_a.parked_ids();
            match ids.first() {
                Some(id) if !self.dead => {
                    self.eon_line(out, &format!("resolve {} ok", id), None);
                }
                _ => break,
            }
        }
        // rules that never matched a call end with the faults
        self.hub_a.clear_rules();
    }

    /// Fault-free settling: both connections up; per round: deliver everything FIFO, let the
    /// reorder timeout pass, deliver, the node publishes one fresh value per live object, deliver.
    /// Nothing else is done (no operator action). Returns the number of rounds used.
    fn settle(&mut self, out: &mut Out) -> usize {
        self.settling = true;
        if !self.node_conn {
            self.step(out, &Step::NodeOn);
        }
        if !self.host_conn {
            self.step(out, &Step::HostOn);
        }
        for round in 1..=ROUNDS {
            if self.dead {
                return round;
            }
            self.release_parked(out);
            self.deliver_all(out);
            let to = self.to + 1;
            self.host_line(out, &format!("adv {}", to), None, to, None);
            self.deliver_all(out);
            // after a `mset` the node's publish carries the extra metric of its latest birth as well
            let n = if self.mset_used { 2 } else { 1 };
            self.eon_line(out, &format!("pub node blk n={}", n), None);
            let live: Vec<u32> = self.reg.iter().filter(|d| self.en.contains(d)).cloned().collect();
            for d in live {
                self.eon_line(out, &format!("pub dev {} blk n=1", d), None);
            }
            self.deliver_all(out);
            if self.to_host.is_empty() && self.to_node.is_empty() && self.in_sync().is_ok() {
                return round;
            }
        }
        ROUNDS + 1
    }

    fn finish(&mut self, out: &mut Out, desc: &str) {
        let rounds = self.settle(out);
        self.sync_eon(out);
        self.sync_host(out);
        eon::id_mode(None);
        if self.dead {
            out.count("case:dead");
            return;
        }
        out.count(&format!("settle:rounds={}", if rounds > ROUNDS { "not-converged".to_string() } else { rounds.to_string() }));
        out.count_n("deliveries", self.deliveries);
        if self.h_node == Some(true) && self.held_session.map(|h| h < self.session).unwrap_or(false) {
            out.count("observation:end:node-store-holds-birth-of-an-older-session");
        }
        // mechanism qualifier: the host still holds the NBIRTH of an OLDER node birth than the node's
        // current one (the current NBIRTH, QoS 0, was lost or ignored) although the faults stopped. If the
        // sequence numbers happen to line up the host has no symptom to react to (known finding K2).
        let q = if self.h_node == Some(true) && self.held_session.map(|h| h < self.session).unwrap_or(false) { ":host-holds-superseded-nbirth" } else { "" };
        if rounds > ROUNDS {
            out.fail(
                "C08:no-operator-action",
                &format!("not-within-R-rounds{}", q),
                format!("{} settling rounds of deliveries, time and ordinary publishes did not bring the host in sync; {}", ROUNDS, desc),
            );
        }
        if let Err((f, d)) = self.in_sync() {
            out.fail("C08:converges", &format!("{}{}", f, q), format!("{}; {}", d, desc));
        } else if !(self.to_host.is_empty() && self.to_node.is_empty()) {
            out.fail("C08:converges", "still-in-flight", desc.to_string());
        }
    }
}

// ------------------------------------------------------------------------------------------
// cases
// ------------------------------------------------------------------------------------------

/// run a fixed schedule; returns the case's line log
fn run_schedule(out: &mut Out, cfg: Cfg, steps: &[Step]) -> Vec<(String, String)> {
    let desc = show_desc(cfg, steps);
    let mut w = World::begin(out, cfg);
    out.set_desc(desc.clone());
    for s in steps {
        out.count(&format!("step:{}", s.class()));
        w.step(out, s);
    }
    out.nontrivial();
    w.finish(out, &desc);
    w.log.clone()
}

const MODES: [&str; 4] = ["try", "blk", "trysort", "blksort"];

/// a random fault schedule, generated while it runs (the choices look at the queues)
fn random_case(out: &mut Out, rng: &mut Rng, len_lo: u64, len_hi: u64) -> (Cfg, Vec<Step>) {
    let to = *rng.pick(&[50u64, 50, 200, 3000]);
    let ndev = rng.range(1, NDEV as u64) as u32;
    let len = rng.range(len_lo, len_hi) as usize;
    // a third of the cases change the metric set between births; half of those with strict stores
    let msets = rng.chance(1, 3);
    let cfg = Cfg { to, strict: msets && rng.chance(1, 2) };
    // a quarter of the other cases put back-pressure on the node's client
    let parks = !msets && rng.chance(1, 4);
    // a third of the cases give metrics property sets (every property datatype, nulls, nested sets, set lists, deep
    // nesting) on births, on data or on both, from the start or from some step on. The choices come from a stream of
    // their own, so that the fault schedules of a seed are the ones they were before this dimension existed.
    let mut prng = Rng(rng.0 ^ 0x5DEE_CE66_D1CE_B00C);
    let props = prng.chance(1, 3);
    let mut w = World::begin(out, cfg);
    let mut steps: Vec<Step> = vec![];
    let mut go = |w: &mut World, out: &mut Out, steps: &mut Vec<Step>, s: Step| {
        out.count(&format!("step:{}", s.class()));
        w.step(out, &s);
        steps.push(s);
    };
    // a prefix that makes most cases start from a live system (not counted in the length)
    if rng.chance(1, 8) {
        go(&mut w, out, &mut steps, Step::HostOff);
    }
    for d in 1..=ndev {
        if rng.chance(4, 5) {
            go(&mut w, out, &mut steps, Step::Reg(d));
            if rng.chance(4, 5) {
                go(&mut w, out, &mut steps, Step::En(d));
            }
        }
    }
    if msets && rng.chance(1, 2) {
        go(&mut w, out, &mut steps, Step::MSet(rng.range(1, eon::MSET_MAX as u64) as u32));
    }
    if props && prng.chance(2, 3) {
        go(&mut w, out, &mut steps, Step::Props(prng.range(1, eon::PROPS_MAX as u64) as u32));
    }
    if rng.chance(9, 10) {
        go(&mut w, out, &mut steps, Step::NodeOn);
    }
    if rng.chance(1, 2) {
        go(&mut w, out, &mut steps, Step::DeliverAll);
    }
    for _ in 0..len {
        if w.dead {
            break;
        }
        if props && prng.chance(1, 12) {
            go(&mut w, out, &mut steps, Step::Props(prng.range(0, eon::PROPS_MAX as u64) as u32));
        }
        let nh = w.to_host.len();
        let nn = w.to_node.len();
        let d = rng.range(1, ndev as u64) as u32;
        let mode = rng.pick(&MODES).to_string();
        let n = *rng.pick(&[1usize, 1, 1, 1, 2, 3]);
        let r = rng.below(100);
        let s = match r {
            0..=15 if nh > 0 => Step::Deliver(0),
            16..=25 if nh > 1 => Step::Deliver(rng.range(1, nh as u64 - 1) as usize),
            26..=33 if nn > 0 => Step::DeliverNode(if nn > 1 && rng.chance(1, 3) { rng.below(nn as u64) as usize } else { 0 }),
            34..=36 => Step::Hold,
            37..=43 if nh > 0 => {
                // aim at a QoS-0 message most of the time
                let q0: Vec<usize> = (0..nh).filter(|i| !w.to_host[*i].qos1).collect();
                if !q0.is_empty() && rng.chance(9, 10) {
                    Step::Drop(*rng.pick(&q0))
                } else {
                    Step::Drop(rng.below(nh as u64) as usize)
                }
            }
            44..=45 if nn > 0 => Step::DropNode(rng.below(nn as u64) as usize),
            46..=51 if nh > 0 => Step::Dup(rng.below(nh as u64) as usize),
            52..=52 if nn > 0 => Step::DupNode(rng.below(nn as u64) as usize),
            53..=56 => {
                if w.node_conn {
                    Step::NodeOff
                } else {
                    Step::NodeOn
                }
            }
            57..=59 => {
                if w.host_conn {
                    Step::HostOff
                } else {
                    Step::HostOn
                }
            }
            60..=62 if !w.node_conn => Step::NodeOn,
            63..=64 if !w.host_conn => Step::HostOn,
            65..=74 => Step::PubNode(mode, n),
            75..=84 => Step::PubDev(d, mode, n),
            85..=87 => {
                if w.en.contains(&d) {
                    Step::Dis(d)
                } else {
                    Step::En(d)
                }
            }
            88..=89 => {
                if w.reg.contains(&d) {
                    Step::Unreg(d)
                } else {
                    Step::Reg(d)
                }
            }
            90..=92 => Step::NRebirth,
            93..=93 => Step::DRebirth(d),
            94..=95 => Step::Adv(*rng.pick(&[1, to / 2, to - 1, to + 1])),
            96..=99 if msets => Step::MSet(rng.range(0, eon::MSET_MAX as u64) as u32),
            96..=97 if parks => Step::Park(rng.pick(&["DBIRTH", "DBIRTH", "NBIRTH", "DDATA", "NDATA", "DDEATH"]).to_string()),
            98..=99 if parks => Step::Res,
            _ => {
                // fall-backs of the guarded arms: ordinary traffic
                if rng.chance(1, 2) {
                    Step::PubNode(mode, n)
                } else {
                    Step::PubDev(d, mode, n)
                }
            }
        };
        go(&mut w, out, &mut steps, s);
    }
    let desc = show_desc(cfg, &steps);
    out.set_desc(desc.clone());
    out.nontrivial();
    out.count("case:random");
    out.count(&format!("cfg:timeout={}", to));
    if msets {
        out.count(if cfg.strict { "cfg:metric-set-changes:strict-stores" } else { "cfg:metric-set-changes:lenient-stores" });
    }
    if steps.iter().any(|s| matches!(s, Step::Props(k) if *k > 0)) {
        out.count("cfg:metrics-with-properties");
    }
    w.finish(out, &desc);
    (cfg, steps)
}

/// the scripted scenarios: (name, descriptor, note)
fn scripts() -> Vec<(&'static str, String, &'static str)> {
    let timer_in_node_lines = format!("to=50 | non da pn:blk:1 pn:blk:1 dl1 {} da", vec!["pn:try:1"; 55].join(" "));
    // 257 node sessions: bdSeq runs 0, 1, …, 255 and wraps to 0; every session publishes once
    let bdseq_wrap = format!("to=3000 | reg1 en1 {} non da pn:blk:1 pd1:blk:1 da", vec!["non da pn:blk:1 da noff da"; 256].join(" "));
    let bdseq_255 = format!("to=3000 | reg1 en1 {} non da pn:blk:1 pd1:blk:1 da", vec!["non noff da"; 255].join(" "));
    let v: Vec<(&'static str, &str, &'static str)> = vec![
        ("k2-session-confusion-loss-only", "to=3000 | non pn:blk:1 pn:blk:1 reg1 en1 dl0 drop0 nrb drop0 dis1 drop1 pn:blk:1 drop3 da", "KNOWN FINDING K2. FIFO delivery, QoS-0 loss only: two NDATA of the first birth, the NBIRTH of the manual rebirth and one NDATA of the second birth are lost; the DBIRTH (seq 3) of the first birth is then released after the DBIRTH/DDEATH (seq 1, 2) of the second: the host is in step with the node for good and holds the disabled device birthed"),
        ("k2-session-confusion-metric-set", "to=3000 | non da mset1 nrb drop0 da", "KNOWN FINDING K2. the rebirth NBIRTH (QoS 0) is lost when nothing else was sent in the old birth: sequence numbers line up, a lenient store cannot notice the new metric set"),
        ("dbirth-parked-across-connection-loss", "to=3000 | reg1 en1 pk:DBIRTH non noff res da non da", "client back-pressure: the device's DBIRTH is still pending in the client when the connection is lost; it is accepted afterwards; the next session must announce the device again"),
        ("nbirth-parked-then-released", "to=3000 | reg1 en1 pk:NBIRTH non pn:try:1 res da", "client back-pressure on the NBIRTH: nothing may be published before it is accepted"),
        ("bdseq-255-session", &bdseq_255, "the node's 256th session carries bdSeq 255, the last value before the wrap: the host must hold it birthed like any other"),
        ("bdseq-wraps-through-255", &bdseq_wrap, "a long history: the node reconnects 256 times, so its sessions carry every bdSeq value including 255 and the wrap to 0; each NBIRTH and each will must be accepted by the host"),
        ("reorder-timeout-fires-during-node-lines", &timer_in_node_lines, "a gap opens at the host, then the node publishes 55 times (55 node lines = 55 ms) with nothing delivered: the 50 ms reorder timer fires while a node line runs; the `host adv` line that reports those milliseconds to the host model carries the stale + NCMD effects"),
        ("clean-start", "to=3000 | non reg1 en1 reg2 en2 da pn:blk:1 pd1:blk:1 pd2:try:2 da pn:trysort:3 pd1:blksort:2 da", "no fault at all: births, data on the node and two devices, everything delivered in order"),
        ("dropped-ddata-gap-timeout-rebirth", "to=50 | non reg1 en1 da pd1:blk:1 pd1:blk:1 pd1:blk:1 drop0 da adv51 da", "one DDATA is lost: the later ones wait in the resequencer, the reorder timeout fires, the host declares the node stale and sends the rebirth NCMD, the node rebirths"),
        ("host-started-after-the-births", "to=3000 | hoff non reg1 en1 pn:blk:1 pd1:blk:1 hon pn:blk:1 da", "the host connects after NBIRTH/DBIRTH were published: the first data message makes it ask for a rebirth"),
        ("nbirth-dropped", "to=3000 | non drop0 reg1 en1 da pn:blk:1 da", "the (QoS 0) NBIRTH is lost; the DBIRTH of an unknown node triggers the rebirth request"),
        ("duplicate-ndata", "to=3000 | non da pn:blk:1 dup0 dl0 pn:blk:1 da", "an NDATA is delivered twice: duplicate sequence number -> rebirth"),
        ("node-disconnect-with-will", "to=3000 | non reg1 en1 da pn:blk:1 da noff da non da pn:blk:1 pd1:blk:1 da", "the node's connection breaks, the broker publishes the registered NDEATH, the node reconnects with the next bdSeq"),
        ("will-overtaken-by-the-new-nbirth", "to=3000 | non reg1 en1 da noff non dl1 dl1 dl0 da", "the NDEATH (bdSeq 0) of the broken connection is delivered after the NBIRTH/DBIRTH (bdSeq 1) of the new one"),
        ("will-overtakes-the-births-device-disabled-offline", "to=3000 | reg1 en1 non noff dl2 dis1", "the NDEATH of a broken connection overtakes the NBIRTH/DBIRTH of that connection (the host does not know the node yet and ignores it); the device is disabled while the node is offline, so the next session has no DBIRTH and no DDEATH for it"),
        ("host-disconnect-during-traffic", "to=50 | non reg1 en1 da pn:blk:1 pd1:blk:1 hoff pn:blk:1 pd1:blk:1 hon pn:blk:1 da", "the host's connection breaks while data flows; what was published meanwhile is lost"),
        ("device-disabled-while-ddata-in-flight", "to=3000 | non reg1 en1 da pd1:blk:1 dis1 dl1 dl0 da", "the DDEATH overtakes the last DDATA of the device"),
        ("device-disabled-ddeath-overtaken-by-rebirth", "to=3000 | non reg1 en1 da dis1 nrb dl1 dl0 da", "a device is disabled, then the node rebirths; the DDEATH is delivered after the new NBIRTH"),
        ("ddeath-behind-lost-ddata-then-rebirth", "to=3000 | non reg1 en1 da pd1:blk:1 drop0 dis1 nrb da", "no reordering at all: a DDATA (QoS 0) is lost, the device is disabled (its DDEATH waits in the resequencer behind the gap), then NodeHandle::rebirth() before the reorder timeout"),
        ("manual-rebirth-with-reordered-births", "to=50 | non reg1 en1 reg2 en2 da pn:blk:1 nrb dl3 dl2 dl1 dl0 da", "NodeHandle::rebirth(): the NBIRTH and the two DBIRTHs arrive in reverse order, after a data message of the old session"),
        ("ncmd-dropped-and-duplicated", "to=3000 | hoff non hon pn:blk:1 dl0 dropn0 pn:blk:1 dl0 dupn0 dn0 da", "the host's rebirth NCMD (QoS 0) is lost once, then delivered twice"),
        ("partial-fill-timeout", "to=50 | non da pn:blk:1 pn:blk:1 pn:blk:1 dl2 adv30 dl0 adv25 da", "a gap of two messages whose head is filled late: the rest of the gap times out"),
        ("mset-manual-rebirth-same-bdseq", "to=3000 | non reg1 en1 da pn:blk:1 da mset1 nrb da", "the node's metric set changes (x1 added) and NodeHandle::rebirth() publishes it; the host holds the node birthed with the same bdSeq"),
        ("mset-manual-rebirth-same-bdseq-strict-stores", "to=3000 st=1 | non reg1 en1 da pn:blk:1 da mset1 nrb da", "the same with stores that answer UnknownMetric to data for a name their last birth did not define: the settling publish of x1 is rejected, the host asks for a rebirth"),
        ("mset-metric-dropped-strict-stores", "to=3000 st=1 | mset1 non reg1 en1 da pn:blk:2 da mset0 nrb da", "the rebirth DROPS a metric: no data message can make even a strict store notice"),
        ("mset-rebirth-nbirth-lost-strict-stores", "to=3000 st=1 | non da mset1 nrb drop0 da", "the rebirth's NBIRTH (QoS 0) is lost and nothing had been sent in the previous session, so the sequence numbers line up and the host cannot see the rebirth; only the store's UnknownMetric answer to the data for x1 can tell it"),
        ("mset-ncmd-rebirth", "to=3000 | hoff non hon mset2 pn:blk:1 da", "a rebirth requested by the host (data from a node it does not know): the host holds the node stale, so it hands the NBIRTH to the store"),
        ("mset-ncmd-rebirth-duplicated", "to=3000 | hoff non hon mset1 pn:blk:1 dl0 dupn0 dl0 mset2 dn0 da", "the host's rebirth NCMD is delivered twice and the metric set changes between the two rebirths: the second NBIRTH finds the host birthed with the same bdSeq"),
        ("mset-reconnect", "to=3000 | non reg1 en1 da mset3 noff da non da", "the metric set changes while the node is disconnected: the next session has a new bdSeq"),
        ("mset-reconnect-will-lost-to-host-offline", "to=3000 | non reg1 en1 da hoff mset3 noff non hon da", "reconnect with a new metric set while the host is away"),
        ("mset-device-rebirth", "to=3000 | non reg1 en1 da mset2 drb1 da", "a device rebirth carries the new set (DBIRTHs are always handed to the device store)"),
        ("props-on-every-birth", "to=3000 | props13 non reg1 en1 reg2 en2 da pn:blk:1 pd1:blk:1 pd2:try:2 da", "no fault at all; the birth metric `m` of the NBIRTH and of both DBIRTHs carries a property set with a value and a null of every property datatype (all integer widths, floats, boolean, string, DateTime, Text, UUID), nested sets, set lists and twelve levels of nesting: the host must hold the node and both devices birthed"),
        ("props-flat-on-device-births", "to=3000 | non da props1 reg1 en1 da pd1:blk:1 da props0 reg2 en2 da", "only the device births carry properties (flat set: every scalar property datatype, value and null); a second device without"),
        ("props-on-data", "to=3000 | non reg1 en1 da props14 pn:blk:2 pd1:try:1 pn:trysort:3 pd1:blksort:2 da props0 pn:blk:1 pd1:blk:1 da", "every metric of the node's and the device's data messages carries the full property set; the values must reach the stores and no gap may open"),
        ("props-nested-rebirth-after-gap", "to=50 | props7 non reg1 en1 da pd1:blk:1 pd1:blk:1 drop0 da adv51 da", "births and data carry nested sets and set lists; a lost DDATA opens a gap, the timeout makes the host ask for a rebirth, the new births carry the properties again"),
        ("props-deep-manual-rebirth-reconnect", "to=3000 | non reg1 en1 da props11 nrb da pn:blk:1 pd1:blk:1 da noff da non da", "twelve levels of nested property sets on births and data: manual rebirth, then a reconnect with the next bdSeq"),
        ("unregister-with-ddata-in-flight", "to=3000 | non reg1 en1 reg2 en2 da pd1:blk:1 unreg1 dl1 dl0 pd2:blk:1 da", "a device is removed while its last DDATA is in flight; its DDEATH overtakes it"),
    ];
    v.into_iter().map(|(a, b, c)| (a, b.to_string(), c)).collect()
}

fn scripted(out: &mut Out, write_corpus: Option<&PathBuf>) {
    for (name, desc, note) in scripts() {
        let desc = &desc[..];
        let (cfg, steps) = parse_desc(desc).unwrap_or_else(|| panic!("bad script {}", name));
        let log = run_schedule(out, cfg, &steps);
        out.count("case:scripted");
        out.count(&format!("scripted:{}", name));
        if let Some(dir) = write_corpus {
            write_case(dir, &format!("s-{}", name), desc, &log, note);
        }
    }
}

fn write_case(dir: &PathBuf, name: &str, desc: &str, log: &[(String, String)], note: &str) {
    let _ = std::fs::create_dir_all(dir);
    let ops: Vec<&String> = log.iter().map(|x| &x.0).collect();
    let answers: Vec<&String> = log.iter().map(|x| &x.1).collect();
    // `desc` is what `replay` executes; `ops` / `impl` document the lines and answers of the recorded run
    let j = serde_json::json!({ "desc": desc, "ops": ops, "impl": answers, "note": note });
    let _ = std::fs::write(dir.join(format!("{}.json", name)), serde_json::to_string_pretty(&j).unwrap());
}

/// does the schedule fail with the signature `clause:feature`? (scratch run)
fn fails_with(scratch: &PathBuf, to: Cfg, steps: &[Step], sig: &str) -> bool {
    // the order of the DBIRTHs after an NBIRTH is not reproducible (srad-internal HashMap): a few tries
    for _ in 0..3 {
        let mut o = Out::new(scratch);
        run_schedule(&mut o, to, steps);
        if o.fails.iter().any(|f| format!("{}:{}", f.clause, f.feature) == sig) {
            return true;
        }
    }
    false
}

/// drop steps while the schedule still fails with the same signature
fn minimise(scratch: &PathBuf, to: Cfg, steps: &[Step], sig: &str) -> Vec<Step> {
    let mut cur: Vec<Step> = steps.to_vec();
    // the failure may depend on srad-internal nondeterminism: require it to reproduce at all
    if !fails_with(scratch, to, &cur, sig) {
        return cur;
    }
    for _pass in 0..4 {
        let mut changed = false;
        let mut i = cur.len();
        while i > 0 {
            i -= 1;
            let mut cand = cur.clone();
            cand.remove(i);
            if fails_with(scratch, to, &cand, sig) {
                cur = cand;
                changed = true;
            }
        }
        if !changed {
            break;
        }
    }
    cur
}

pub const RULE: &str = "closed loop of the real EoN and the real Application through a simulated broker carrying the real wire form (topic strings, prost bytes), one paused runtime, one mock clock, both rebirth cooldowns 0, resequencing on, reorder timeout 50 / 200 / 3000 ms: (a) scripted scenarios (clean start, lost DDATA -> gap -> timeout -> NCMD -> rebirth, host started late, lost NBIRTH, duplicate NDATA, node disconnect with will, will overtaken by the new NBIRTH, host disconnect during traffic, DDEATH overtaking / overtaken, manual rebirth with reordered births, NCMD lost / duplicated, partial gap fill, unregister in flight, property sets of every datatype / nested / deep on all births, on device births only, on data, across a gap-timeout rebirth, across a manual rebirth and a reconnect); (b) random fault schedules of 10-40 (thorough: 20-120) steps over deliver-oldest / deliver-reordered / hold / drop QoS 0 / duplicate / node disconnect with will / host disconnect / time, interleaved with publishes on the node and up to 3 devices (4 publish modes, 1-3 metrics), enable / disable / register / unregister, node and device rebirths, and (a third of the cases) changes of the metric set the next births carry (extra metric x<k> added / replaced / dropped; lenient or strict recording stores at the host), and (a third of the cases, independently) property sets on the birth metrics and / or on every data metric (a value and a null of every property datatype incl. DateTime, Text and UUID, nested sets, set lists, twelve levels of nesting; switched on before the first connection or at a random step, changed or switched off later); every schedule is followed by the fault-free settling phase (<= 6 rounds of deliver-all, timeout, deliver-all, publish on every live object, deliver-all). Every node-side step is an `eon stim` line, every delivery to the host a `host ev` line (both models validated in the loop). Non-trivial = every case; distinct = distinct request-line sequences (hashed).";

fn opt_path(args: &Args, key: &str) -> Option<PathBuf> {
    args.rest.iter().position(|a| a == key).and_then(|i| args.rest.get(i + 1)).map(PathBuf::from)
}

pub fn run(args: &Args, out: &mut Out) -> &'static str {
    eon::install_hook();
    eon::token();
    eon::token_id();
    eon::token_x(1);
    let mut rng = Rng::new(args.seed);
    let th = args.thorough();
    // `--write-corpus DIR`: (re)write the scripted scenarios as replayable corpus cases
    // `--save-failures DIR`: write the minimised schedule of every new oracle-failure signature
    let write_corpus = opt_path(args, "--write-corpus");
    let save_failures = opt_path(args, "--save-failures");
    scripted(out, write_corpus.as_ref());
    let scratch = args.out.join("scratch");
    let mut seen: BTreeSet<String> = BTreeSet::new();
    let (n, lo, hi) = if th { (5000, 20, 120) } else { (300, 10, 40) };
    for _ in 0..n {
        let mut r = rng.fork();
        let nf = out.fails.len();
        let (to, steps) = random_case(out, &mut r, lo, hi);
        // new failure signatures of this case: minimise, store
        let sigs: Vec<String> = out.fails[nf..]
            .iter()
            .map(|f| format!("{}:{}", f.clause, f.feature))
            .filter(|s| s.starts_with("C08:") || s.starts_with("LOOP:"))
            .collect();
        for sig in sigs {
            if !seen.insert(sig.clone()) {
                continue;
            }
            let min = minimise(&scratch, to, &steps, &sig);
            let desc = show_desc(to, &min);
            out.samples.push(format!("MINIMISED {} :: {}", sig, desc));
            if let Some(dir) = &save_failures {
                let mut o = Out::new(&scratch);
                let log = run_schedule(&mut o, to, &min);
                let name: String = sig.chars().map(|c| if c.is_ascii_alphanumeric() || c == '-' { c } else { '_' }).collect();
                write_case(dir, &format!("f-{}", name), &desc, &log, &format!("minimised schedule failing {} (found by seed {})", sig, args.seed));
            }
        }
    }
    let _ = std::fs::remove_dir_all(&scratch);
    RULE
}

/// replays the case descriptor (`to=<ms> | <steps>`); the recorded lines are documentation
pub fn replay(desc: &str, _ops: &[String], out: &mut Out) {
    eon::install_hook();
    eon::token();
    eon::token_id();
    eon::token_x(1);
    match parse_desc(desc) {
        Some((to, steps)) => {
            run_schedule(out, to, &steps);
            out.count("case:replayed");
        }
        None => {
            out.begin_case("loop bad-descriptor", "bad-descriptor");
            out.fail("LOOP:replay", "bad-descriptor", desc.to_string());
        }
    }
}
