//! Component `hll` (C16, concurrent half): the real `srad_app::AppEventLoop` / `AppClient` driven
//! through the doubles of `mock.rs` on a paused current-thread runtime WITHOUT waiting for
//! quiescence between inputs. A line is a *burst*: 1–4 stimuli (events pushed into the feeder,
//! `cancel()` spawned, parked calls resolved) applied before any srad task gets to run, then
//! `settle()`; the client decides per call kind (accept / reject / park). The line carries
//! everything the doubles observed, in order; the Lean driver (`Drv/HostLoopLts`) admits the line
//! iff some interleaving of the LTS model produces exactly these observations (trace admission).
//!
//! Lines (strings are hex of their UTF-8 bytes):
//!   hll new <cfg> <host> <now> => W:<now>
//!   hll stim burst <now> <pol> <e1,e2,…> => <tok;tok;…>     elements: on off so0 so1 sf0 sf1 node junk
//!                                                          cancel res<id>ok res<id>err
//!   hll stim adv <now> <pol> <ms> => <tok;…>                   `ms` of virtual time pass
//! STATE elements (so0 so1 sf0 sf1) reach the loop alternately as hand-built `Event::State` values and through
//! `srad_client::topic_and_payload_to_event` (topic bytes + a JSON text with further members / other member order /
//! whitespace, as other Sparkplug implementations write the certificate); line and model event are the same.
//! `<now>` = the mock clock (`timestamp()`) during the line. `<pol>` = three letters: decision for
//! `subscribe_many`, for STATE publishes (a parked `try_` call is a rejection), for `disconnect`
//! (a = accept, r = reject, p = park).
//! Tokens: W:<ts>  C<id>:sub:<filters>:<dec>  C<id>:state:<topic>:on|off:<ts>:blk|try:<dec>
//!         C<id>:disc:<dec>  R<id>:ok|err  P:<element polled>  E:<AppEvent returned by poll>
use crate::common::*;
use crate::mock::{self, Decision, Kind, Obs};
use srad_app::{AppEvent, AppEventLoop, NamespaceSubConfig, SubscriptionConfig};
use srad_client::{Event, Message, MessageError, MessageKind, NodeMessage, StatePayload};
use srad_types::payload::Payload;
use srad_types::topic::QoS;
use std::collections::{HashMap, HashSet, VecDeque};
use std::time::Duration;

// ---------------------------------------------------------------------------------------------
// configuration (same text format as component `hostloop`)

#[derive(Clone, Debug, PartialEq)]
pub enum Ns {
    Group(String),
    Node(String, String),
}

#[derive(Clone, Debug, PartialEq)]
pub enum Cfg {
    All,
    Single(String),
    Custom(Vec<Ns>),
}

fn hx(s: &str) -> String {
    hex(s.as_bytes())
}
fn unhx(s: &str) -> String {
    String::from_utf8(unhex(s)).expect("utf8")
}

impl Cfg {
    fn kind(&self) -> &'static str {
        match self {
            Cfg::All => "all",
            Cfg::Single(_) => "single",
            Cfg::Custom(_) => "custom",
        }
    }
    fn to_srad(&self) -> SubscriptionConfig {
        match self {
            Cfg::All => SubscriptionConfig::AllGroups,
            Cfg::Single(g) => SubscriptionConfig::SingleGroup { group_id: g.clone() },
            Cfg::Custom(l) => SubscriptionConfig::Custom(
                l.iter()
                    .map(|x| match x {
                        Ns::Group(g) => NamespaceSubConfig::Group { group_id: g.clone() },
                        Ns::Node(g, n) => NamespaceSubConfig::Node { group_id: g.clone(), node_id: n.clone() },
                    })
                    .collect(),
            ),
        }
    }
    fn show(&self) -> String {
        match self {
            Cfg::All => "all".into(),
            Cfg::Single(g) => format!("single:{}", hx(g)),
            Cfg::Custom(l) => {
                if l.is_empty() {
                    "custom:_".into()
                } else {
                    format!(
                        "custom:{}",
                        l.iter()
                            .map(|x| match x {
                                Ns::Group(g) => format!("g.{}", hx(g)),
                                Ns::Node(g, n) => format!("n.{}.{}", hx(g), hx(n)),
                            })
                            .collect::<Vec<_>>()
                            .join(",")
                    )
                }
            }
        }
    }
    fn parse(s: &str) -> Cfg {
        if s == "all" {
            return Cfg::All;
        }
        if let Some(g) = s.strip_prefix("single:") {
            return Cfg::Single(unhx(g));
        }
        let l = s.strip_prefix("custom:").expect("cfg");
        if l == "_" {
            return Cfg::Custom(vec![]);
        }
        Cfg::Custom(
            l.split(',')
                .map(|it| {
                    let p: Vec<&str> = it.split('.').collect();
                    match p.as_slice() {
                        ["g", g] => Ns::Group(unhx(g)),
                        ["n", g, n] => Ns::Node(unhx(g), unhx(n)),
                        _ => panic!("cfg item"),
                    }
                })
                .collect(),
        )
    }
}

// ---------------------------------------------------------------------------------------------
// stimuli

#[derive(Clone, Debug, PartialEq)]
pub enum El {
    On,
    Off,
    /// STATE message: own host id?, online?
    St(bool, bool),
    Node,
    Junk,
    Cancel,
    Res(usize, bool),
}

impl El {
    fn show(&self) -> String {
        match self {
            El::On => "on".into(),
            El::Off => "off".into(),
            El::St(own, on) => format!("s{}{}", if *own { "o" } else { "f" }, *on as u8),
            El::Node => "node".into(),
            El::Junk => "junk".into(),
            El::Cancel => "cancel".into(),
            El::Res(id, ok) => format!("res{}{}", id, if *ok { "ok" } else { "err" }),
        }
    }
    fn parse(s: &str) -> El {
        match s {
            "on" => El::On,
            "off" => El::Off,
            "so0" => El::St(true, false),
            "so1" => El::St(true, true),
            "sf0" => El::St(false, false),
            "sf1" => El::St(false, true),
            "node" => El::Node,
            "junk" => El::Junk,
            "cancel" => El::Cancel,
            _ => {
                let r = s.strip_prefix("res").expect("element");
                if let Some(n) = r.strip_suffix("ok") {
                    El::Res(n.parse().unwrap(), true)
                } else {
                    El::Res(r.strip_suffix("err").expect("element").parse().unwrap(), false)
                }
            }
        }
    }
}

/// decisions for subscribe / STATE publish / disconnect during one line
#[derive(Clone, Copy, Debug, PartialEq)]
pub struct Pol(pub Decision, pub Decision, pub Decision);

fn dch(d: Decision) -> char {
    match d {
        Decision::Accept => 'a',
        Decision::Reject => 'r',
        Decision::Park => 'p',
    }
}
fn chd(c: char) -> Decision {
    match c {
        'a' => Decision::Accept,
        'r' => Decision::Reject,
        'p' => Decision::Park,
        _ => panic!("policy"),
    }
}

impl Pol {
    const ACCEPT: Pol = Pol(Decision::Accept, Decision::Accept, Decision::Accept);
    fn show(&self) -> String {
        [dch(self.0), dch(self.1), dch(self.2)].iter().collect()
    }
    fn parse(s: &str) -> Pol {
        let c: Vec<char> = s.chars().collect();
        Pol(chd(c[0]), chd(c[1]), chd(c[2]))
    }
}

#[derive(Clone, Debug, PartialEq)]
pub enum LineKind {
    Burst(Vec<El>),
    Adv(u64),
}

#[derive(Clone, Debug, PartialEq)]
pub struct Line {
    pub kind: LineKind,
    pub now: u64,
    pub pol: Pol,
}

#[derive(Clone, Debug)]
pub struct Head {
    pub cfg: Cfg,
    pub host: String,
    pub now0: u64,
}

const FOREIGN: &str = "H2";

// ---------------------------------------------------------------------------------------------
// observations

#[derive(Clone, Debug, PartialEq)]
pub enum Tok {
    Will { ts: u64 },
    Sub { id: usize, filters: Vec<String>, dec: Decision },
    State { id: usize, topic: String, online: bool, ts: u64, is_try: bool, dec: Decision },
    Disc { id: usize, dec: Decision },
    Res { id: usize, ok: bool },
    Polled(El),
    Ret(String),
    X(String),
}

fn dname(d: Decision) -> &'static str {
    match d {
        Decision::Accept => "acc",
        Decision::Reject => "rej",
        Decision::Park => "park",
    }
}

impl Tok {
    fn show(&self) -> String {
        match self {
            Tok::Will { ts } => format!("W:{}", ts),
            Tok::Sub { id, filters, dec } => format!(
                "C{}:sub:{}:{}",
                id,
                if filters.is_empty() { "_".to_string() } else { filters.iter().map(|f| hx(f)).collect::<Vec<_>>().join(",") },
                dname(*dec)
            ),
            Tok::State { id, topic, online, ts, is_try, dec } => format!(
                "C{}:state:{}:{}:{}:{}:{}",
                id,
                hx(topic),
                if *online { "on" } else { "off" },
                ts,
                if *is_try { "try" } else { "blk" },
                dname(*dec)
            ),
            Tok::Disc { id, dec } => format!("C{}:disc:{}", id, dname(*dec)),
            Tok::Res { id, ok } => format!("R{}:{}", id, if *ok { "ok" } else { "err" }),
            Tok::Polled(e) => format!("P:{}", e.show()),
            Tok::Ret(r) => format!("E:{}", r),
            Tok::X(s) => format!("X:{}", s),
        }
    }
}

fn show_toks(t: &[Tok]) -> String {
    if t.is_empty() {
        "-".into()
    } else {
        t.iter().map(|x| x.show()).collect::<Vec<_>>().join(";")
    }
}

fn app_event_name(e: &AppEvent) -> &'static str {
    match e {
        AppEvent::Online => "Online",
        AppEvent::Offline => "Offline",
        AppEvent::Cancelled => "Cancelled",
        AppEvent::Node(_) => "Node",
        AppEvent::Device(_) => "Device",
        AppEvent::InvalidPayload(_) => "InvalidPayload",
    }
}

fn json_state(payload: &[u8]) -> Option<(bool, u64)> {
    let v: serde_json::Value = serde_json::from_slice(payload).ok()?;
    Some((v.get("online")?.as_bool()?, v.get("timestamp")?.as_u64()?))
}

/// turn the hub's trace from index `from` into tokens; `pushed` = the elements pushed into the
/// feeder and not yet returned by the inner `poll` (FIFO)
fn collect(hub: &mock::Hub, from: usize, own_topic: &str, pushed: &mut VecDeque<El>) -> Vec<Tok> {
    let tr = hub.trace_from(from);
    let mut out = vec![];
    let mut k = 0;
    while k < tr.len() {
        match &tr[k] {
            Obs::Call(id) => {
                let c = hub.call(*id);
                let dec = match tr.get(k + 1) {
                    Some(Obs::Resolved(j, ok)) if j == id => {
                        k += 1;
                        if *ok {
                            Decision::Accept
                        } else {
                            Decision::Reject
                        }
                    }
                    _ => Decision::Park,
                };
                match c.kind {
                    Kind::Subscribe => out.push(Tok::Sub { id: *id, filters: c.filters.clone(), dec }),
                    Kind::State => {
                        let st = c.state.clone().unwrap();
                        let (q, r) = st.get_publish_quality_retain();
                        if q != QoS::AtLeastOnce || !r {
                            out.push(Tok::X("state-qos-retain".into()));
                        }
                        let (online, ts) = match st {
                            StatePayload::Online { timestamp } => (true, timestamp),
                            StatePayload::Offline { timestamp } => (false, timestamp),
                        };
                        out.push(Tok::State { id: *id, topic: c.topic.clone(), online, ts, is_try: c.is_try, dec });
                    }
                    Kind::Disconnect => out.push(Tok::Disc { id: *id, dec }),
                    k2 => out.push(Tok::X(k2.name().to_string())),
                }
            }
            Obs::Resolved(id, ok) => out.push(Tok::Res { id: *id, ok: *ok }),
            Obs::SetWill(w) => {
                let js = json_state(&w.payload);
                match js {
                    Some((false, ts)) if w.topic == own_topic && w.retain && w.qos == QoS::AtLeastOnce => {
                        out.push(Tok::Will { ts })
                    }
                    _ => out.push(Tok::X("will".into())),
                }
            }
            Obs::Poll => {}
            Obs::Polled(name) => match pushed.pop_front() {
                Some(e) => {
                    let want = match &e {
                        El::On => "Online".to_string(),
                        El::Off => "Offline".to_string(),
                        El::St(..) => "State:".to_string(),
                        El::Node => "Node:".to_string(),
                        El::Junk => "InvalidPublish".to_string(),
                        _ => "?".to_string(),
                    };
                    if !name.starts_with(&want) {
                        out.push(Tok::X(format!("polled-{}", name)));
                    }
                    out.push(Tok::Polled(e));
                }
                None => out.push(Tok::X(format!("polled-{}", name))),
            },
            Obs::Note(s) => {
                if let Some(r) = s.strip_prefix("ret ") {
                    out.push(Tok::Ret(r.to_string()));
                }
            }
        }
        k += 1;
    }
    out
}

// ---------------------------------------------------------------------------------------------
// the direct oracles (over the observed tokens and the harness's own clock only)

#[derive(Clone, Copy, Debug, PartialEq)]
enum Tri {
    F,
    T,
    U,
}

#[derive(Clone, Copy, Debug, PartialEq)]
enum Class {
    Session,
    Answer,
    Either,
}

struct Oracle {
    feat: String,
    cur_will: Option<u64>,
    // fresh-will-on-offline
    w_since_poff: bool,
    pend_off: bool,
    // birth-matches-will
    sess_ts: Vec<u64>,
    ans_ts: Vec<u64>,
    // subscribe-before-birth
    subs_handed: usize,
    subs_returned: usize,
    parked_subs: HashSet<usize>,
    sessions: usize,
    births: usize,
    // own-offline-answered-iff-published
    flag: Tri,
    pending_set: bool,
    pending_class: Class,
    w_after_r: bool,
    parked_on: HashMap<usize, Class>,
    s_certain: usize,
    a_certain: usize,
    either: usize,
    amin: usize,
    amax: usize,
    offs_handed: usize,
    cancelled: usize,
    fails: Vec<(String, String, String)>,
}

impl Oracle {
    fn new(feat: String) -> Self {
        Oracle {
            feat,
            cur_will: None,
            w_since_poff: false,
            pend_off: false,
            sess_ts: vec![],
            ans_ts: vec![],
            subs_handed: 0,
            subs_returned: 0,
            parked_subs: HashSet::new(),
            sessions: 0,
            births: 0,
            flag: Tri::F,
            pending_set: false,
            pending_class: Class::Answer,
            w_after_r: false,
            parked_on: HashMap::new(),
            s_certain: 0,
            a_certain: 0,
            either: 0,
            amin: 0,
            amax: 0,
            offs_handed: 0,
            cancelled: 0,
            fails: vec![],
        }
    }
    fn fail(&mut self, clause: &str, what: &str, detail: String) {
        self.fails.push((clause.to_string(), format!("{}:{}", self.feat, what), detail));
    }
    fn birth_returned(&mut self, class: Class, immediate: bool) {
        match class {
            Class::Answer => {}
            Class::Session => {
                if immediate {
                    self.flag = Tri::T;
                } else {
                    if self.flag != Tri::T {
                        self.flag = Tri::U;
                    }
                    self.pending_set = true;
                    if self.pending_class != Class::Either {
                        self.pending_class = Class::Session;
                    }
                    self.w_after_r = false;
                }
            }
            Class::Either => {
                if self.flag != Tri::T {
                    self.flag = Tri::U;
                }
                if !immediate {
                    self.pending_set = true;
                    self.pending_class = Class::Either;
                }
            }
        }
    }
    fn tok(&mut self, line: usize, now: u64, t: &Tok) {
        match t {
            Tok::Will { ts } => {
                if *ts != now {
                    self.fail("C16:fresh-will-on-offline", "will-ts-not-clock", format!("line {}: will timestamp {} but the clock reads {}", line, ts, now));
                }
                self.cur_will = Some(*ts);
                self.w_since_poff = true;
                self.pend_off = false;
                // handle_offline stores `false`; a flag store of a task resolved in this line may come after it
                if self.pending_set {
                    self.flag = Tri::U;
                    self.w_after_r = true;
                } else {
                    self.flag = Tri::F;
                }
            }
            Tok::Polled(El::Off) => self.w_since_poff = false,
            Tok::Ret(r) if r == "Offline" => {
                if !self.w_since_poff {
                    self.pend_off = true;
                }
            }
            Tok::Ret(r) if r == "Online" => {
                if self.pend_off {
                    self.fail("C16:fresh-will-on-offline", "no-will-before-next-online", format!("line {}: Online returned, the Offline before it registered no will", line));
                    self.pend_off = false;
                }
                self.sessions += 1;
                self.sess_ts.push(self.cur_will.unwrap_or(u64::MAX));
            }
            Tok::Ret(r) if r == "Cancelled" => self.cancelled += 1,
            Tok::Polled(El::St(true, false)) => {
                self.ans_ts.push(self.cur_will.unwrap_or(u64::MAX));
                if self.offs_handed > self.cancelled {
                    self.amax += 1; // possibly inside the shutdown drain: the event may be dropped
                } else {
                    match self.flag {
                        Tri::T => {
                            self.amin += 1;
                            self.amax += 1;
                        }
                        Tri::U => self.amax += 1,
                        Tri::F => {}
                    }
                }
            }
            Tok::Sub { id, dec, .. } => {
                self.subs_handed += 1;
                if self.subs_handed > self.sessions {
                    self.fail("C16:subscribe-before-birth", "subscribe-without-online", format!("line {}: {} subscribes, {} Online returned", line, self.subs_handed, self.sessions));
                }
                match dec {
                    Decision::Park => {
                        self.parked_subs.insert(*id);
                    }
                    _ => self.subs_returned += 1,
                }
            }
            Tok::Res { id, .. } => {
                if self.parked_subs.remove(id) {
                    self.subs_returned += 1;
                }
                if let Some(c) = self.parked_on.remove(id) {
                    self.birth_returned(c, false);
                }
            }
            Tok::State { id, online: true, ts, is_try, dec, .. } => {
                if *is_try {
                    self.fail("C16:birth-matches-will", "try-birth", format!("line {}", line));
                }
                if let Some(p) = self.sess_ts.iter().position(|x| x == ts) {
                    self.sess_ts.remove(p);
                } else if let Some(p) = self.ans_ts.iter().position(|x| x == ts) {
                    self.ans_ts.remove(p);
                } else {
                    self.fail("C16:birth-matches-will", "timestamp", format!("line {}: birth with timestamp {}; open sessions captured {:?}, own-offline polls saw {:?}", line, ts, self.sess_ts, self.ans_ts));
                }
                self.births += 1;
                if self.births > self.subs_returned + self.amax {
                    self.fail("C16:subscribe-before-birth", "birth-before-subscribe-returned", format!("line {}: {} births handed over, {} subscribes returned, at most {} answers", line, self.births, self.subs_returned, self.amax));
                }
                let class = if self.amax == self.a_certain {
                    Class::Session
                } else if self.sessions == self.s_certain {
                    Class::Answer
                } else {
                    Class::Either
                };
                match class {
                    Class::Session => self.s_certain += 1,
                    Class::Answer => self.a_certain += 1,
                    Class::Either => self.either += 1,
                }
                match dec {
                    Decision::Park => {
                        self.parked_on.insert(*id, class);
                    }
                    _ => self.birth_returned(class, true),
                }
            }
            Tok::State { online: false, ts, is_try, .. } => {
                self.offs_handed += 1;
                if !*is_try || *ts != now {
                    self.fail("C16:cancel-offline-then-disconnect", "offline-state", format!("line {}: {:?}", line, t));
                }
            }
            Tok::X(s) => self.fail("C16:no-other-calls", "unexpected", format!("line {}: {}", line, s)),
            _ => {}
        }
    }
    /// the loop is quiescent
    fn end_line(&mut self, line: usize) {
        if self.pend_off {
            self.fail("C16:fresh-will-on-offline", "no-will-at-quiescence", format!("line {}: Offline returned by poll, no set_last_will since it was polled", line));
            self.pend_off = false;
        }
        if self.pending_set {
            if self.pending_class == Class::Session && !self.w_after_r {
                self.flag = Tri::T;
            }
            self.pending_set = false;
            self.pending_class = Class::Answer;
            self.w_after_r = false;
        }
        // every session not parked in its subscribe has handed its birth over by now
        let session_births = self.sessions.saturating_sub(self.parked_subs.len());
        let answers = self.births as i64 - session_births as i64;
        if answers < self.amin as i64 {
            self.fail("C16:own-offline-answered-iff-published", "published-but-not-answered", format!("line {}: {} births beyond the sessions', at least {} own offline STATE seen with the birth out", line, answers, self.amin));
        }
        if answers > self.amax as i64 {
            self.fail("C16:own-offline-answered-iff-published", "answered-but-not-published", format!("line {}: {} births beyond the sessions', at most {} own offline STATE seen with the birth possibly out", line, answers, self.amax));
        }
    }
}

// ---------------------------------------------------------------------------------------------
// driving the real code

/// Run one case. `next(parked ids)` yields the lines one by one (random cases pick resolves from
/// what is parked). Returns `None` if the constructor panicked, else the tokens of the
/// construction and (line, tokens) for every line.
pub fn drive(h: &Head, next: &mut dyn FnMut(&[usize]) -> Option<Line>) -> Option<(Vec<Tok>, Vec<(Line, Vec<Tok>)>)> {
    let rt = mock::runtime();
    rt.block_on(async {
        mock::set_clocks(h.now0);
        let (hub, client, el, feeder) = mock::mock_pair();
        let own_topic = format!("spBv1.0/STATE/{}", h.host);
        let r = catch(std::panic::AssertUnwindSafe(|| AppEventLoop::new(h.host.clone(), h.cfg.to_srad(), el, client)));
        let (mut app_el, app_client) = match r {
            Ok(v) => v,
            Err(_) => return None,
        };
        let hb = hub.clone();
        let jh = tokio::spawn(async move {
            loop {
                let ev = app_el.poll().await;
                hb.note(format!("ret {}", app_event_name(&ev)));
            }
        });
        let mut pushed: VecDeque<El> = VecDeque::new();
        // STATE elements reach the loop alternately as hand-built events and THROUGH THE WIRE (topic bytes +
        // JSON text decoded by `srad_client::topic_and_payload_to_event`, the text written the way other
        // Sparkplug implementations write it: member order, further members, whitespace); the element, the
        // request line and the model's event are the same either way
        let mut n_state: usize = 0;
        let mut cancels = vec![];
        mock::settle().await;
        let first = collect(&hub, 0, &own_topic, &mut pushed);
        let mut res = vec![];
        loop {
            let parked = hub.parked_ids();
            let Some(line) = next(&parked) else { break };
            let n = hub.trace_len();
            mock::set_clocks(line.now);
            hub.clear_rules();
            hub.rule(Some(Kind::Subscribe), line.pol.0, usize::MAX);
            hub.rule(Some(Kind::State), line.pol.1, usize::MAX);
            hub.rule(Some(Kind::Disconnect), line.pol.2, usize::MAX);
            match &line.kind {
                LineKind::Burst(els) => {
                    // everything below happens before any srad task runs (no await)
                    for e in els {
                        match e {
                            El::On => {
                                feeder.push(Event::Online);
                                pushed.push_back(e.clone());
                            }
                            El::Off => {
                                feeder.push(Event::Offline);
                                pushed.push_back(e.clone());
                            }
                            El::St(own, on) => {
                                let host_id: String = if *own { h.host.clone() } else if h.host == FOREIGN { "H3".into() } else { FOREIGN.into() };
                                n_state += 1;
                                if n_state % 2 == 1 {
                                    feeder.push(Event::State {
                                        host_id,
                                        payload: if *on { StatePayload::Online { timestamp: 7 } } else { StatePayload::Offline { timestamp: 7 } },
                                    });
                                } else {
                                    let text = match (n_state / 2) % 4 {
                                        0 => format!("{{\"online\":{},\"timestamp\":7}}", on),
                                        1 => format!("{{\"online\":{},\"timestamp\":7,\"bdSeq\":3}}", on),
                                        2 => format!("{{ \"uuid\": \"a-b\", \"timestamp\": 7,\n  \"online\": {} }}", on),
                                        _ => format!("{{\"meta\":{{\"v\":[1,2]}},\"timestamp\":7,\"online\":{}}}", on),
                                    };
                                    let topic = format!("spBv1.0/STATE/{}", host_id).into_bytes();
                                    match catch(move || srad_client::topic_and_payload_to_event(topic, text.into_bytes())) {
                                        Ok(ev) => {
                                            feeder.push(ev);
                                        }
                                        // nothing reaches the loop: the missing poll shows in the line
                                        Err(_) => {}
                                    }
                                }
                                pushed.push_back(e.clone());
                            }
                            El::Node => {
                                feeder.push(Event::Node(NodeMessage {
                                    group_id: "g".into(),
                                    node_id: "n".into(),
                                    message: Message {
                                        payload: Payload { timestamp: Some(5), metrics: vec![], seq: Some(1), uuid: None, body: None },
                                        kind: MessageKind::Data,
                                    },
                                }));
                                pushed.push_back(e.clone());
                            }
                            El::Junk => {
                                feeder.push(Event::InvalidPublish {
                                    reason: MessageError::InvalidSparkplugTopic,
                                    topic: b"junk".to_vec(),
                                    payload: vec![1, 2, 3],
                                });
                                pushed.push_back(e.clone());
                            }
                            El::Cancel => {
                                let c = app_client.clone();
                                cancels.push(tokio::spawn(async move { c.cancel().await }));
                            }
                            El::Res(id, ok) => {
                                hub.resolve(*id, *ok);
                            }
                        }
                    }
                }
                LineKind::Adv(ms) => {
                    tokio::time::sleep(Duration::from_millis(*ms)).await;
                }
            }
            tokio::time::sleep(Duration::from_nanos(1)).await;
            let toks = collect(&hub, n, &own_topic, &mut pushed);
            res.push((line, toks));
        }
        jh.abort();
        for c in cancels {
            c.abort();
        }
        Some((first, res))
    })
}

fn line_op(l: &Line) -> String {
    match &l.kind {
        LineKind::Burst(els) => format!(
            "hll stim burst {} {} {}",
            l.now,
            l.pol.show(),
            if els.is_empty() { "_".to_string() } else { els.iter().map(|e| e.show()).collect::<Vec<_>>().join(",") }
        ),
        LineKind::Adv(ms) => format!("hll stim adv {} {} {}", l.now, l.pol.show(), ms),
    }
}

/// drive a case, print its lines, run the oracles
pub fn run_case(out: &mut Out, h: &Head, kind: &str, next: &mut dyn FnMut(&[usize]) -> Option<Line>) {
    let new_op = format!("hll new {} {} {}", h.cfg.show(), hx(&h.host), h.now0);
    let valid = !h.host.is_empty() && !h.host.contains(['+', '/', '#']);
    match drive(h, next) {
        None => {
            out.begin_case(&format!("{} => panic", new_op), "ok");
            if valid {
                out.fail("C16:construction-registers-will", "panic", format!("host {:?}", h.host));
            }
            out.count("new:panic");
        }
        Some((first, lines)) => {
            out.begin_case(&format!("{} => {}", new_op, show_toks(&first)), "ok");
            let mut orc = Oracle::new(h.cfg.kind().to_string());
            for t in &first {
                orc.tok(0, h.now0, t);
            }
            if first != vec![Tok::Will { ts: h.now0 }] {
                orc.fail("C16:construction-registers-will", "new", format!("{:?}", first));
            }
            orc.end_line(0);
            let mut sessions = 0;
            for (k, (l, toks)) in lines.iter().enumerate() {
                out.line(&format!("{} => {}", line_op(l), show_toks(toks)), "ok");
                for t in toks {
                    orc.tok(k + 1, l.now, t);
                    if matches!(t, Tok::Sub { .. }) {
                        sessions += 1;
                    }
                }
                orc.end_line(k + 1);
                match &l.kind {
                    LineKind::Burst(els) => {
                        out.count(&format!("burst_len:{}", els.len()));
                        for e in els {
                            let n = match e {
                                El::Res(..) => "res".to_string(),
                                x => x.show(),
                            };
                            out.count(&format!("el:{}", n));
                        }
                        out.count(&format!("pol:{}", l.pol.show()));
                    }
                    LineKind::Adv(ms) => out.count(&format!("adv:{}", ms)),
                }
            }
            for (c, f, d) in orc.fails {
                out.fail(&c, &f, d);
            }
            // C20 (host half), direct: after the only cancel of a case the event loop reports
            // `Cancelled` at the latest once more than one second of virtual time has passed since the
            // cancel, whatever else arrives meanwhile and even if the final Offline never comes
            let ncancel: usize = lines
                .iter()
                .map(|(l, _)| match &l.kind {
                    LineKind::Burst(els) => els.iter().filter(|e| matches!(e, El::Cancel)).count(),
                    _ => 0,
                })
                .sum();
            if ncancel == 1 {
                let mut since: Option<u64> = None; // ms advanced since the cancel
                let mut cancelled = false;
                for (l, toks) in lines.iter() {
                    if let LineKind::Burst(els) = &l.kind {
                        if els.iter().any(|e| matches!(e, El::Cancel)) {
                            since = Some(0);
                        }
                    }
                    if since.is_some() && toks.iter().any(|t| matches!(t, Tok::Ret(r) if r == "Cancelled")) {
                        cancelled = true;
                    }
                    if let (LineKind::Adv(ms), Some(e)) = (&l.kind, since.as_mut()) {
                        *e += *ms;
                        // "bounded": ten times the implementation's own second (that exact constant is the
                        // LTS's business, checked by trace admission)
                        if *e >= 10_000 && !cancelled {
                            out.fail(
                                "C20:cancel-returns-within-timeout",
                                &format!("{}:drain-exceeds-one-second", h.cfg.kind()),
                                format!("{} ms after the cancel the event loop has not reported Cancelled", e),
                            );
                            break;
                        }
                    }
                }
                out.count("oracle:C20-cancel-deadline");
            }
            if sessions >= 1 {
                out.nontrivial();
            }
            if sessions >= 2 {
                out.count("cases:reconnect");
            }
        }
    }
    out.count(&format!("case:{}:{}", kind, h.cfg.kind()));
}

fn run_fixed(out: &mut Out, h: &Head, kind: &str, lines: &[Line]) {
    let mut k = 0;
    run_case(out, h, kind, &mut |_p| {
        let l = lines.get(k).cloned();
        k += 1;
        l
    });
}

// ---------------------------------------------------------------------------------------------
// cases

const HOST: &str = "H1";

fn for_all_seqs(alphabet: usize, len: usize, f: &mut dyn FnMut(&[usize])) {
    let mut idx = vec![0usize; len];
    loop {
        f(&idx);
        let mut k = 0;
        loop {
            if k == len {
                return;
            }
            idx[k] += 1;
            if idx[k] < alphabet {
                break;
            }
            idx[k] = 0;
            k += 1;
        }
    }
}

fn sym(i: usize) -> El {
    match i {
        0 => El::On,
        1 => El::Off,
        2 => El::St(true, false),
        _ => El::Cancel,
    }
}

/// (a): every sequence of length <= maxlen over {on, off, own-offline, cancel}, cut into bursts in
/// every way, under accept-all and under park-subscribe (parked subscribes are resolved in one
/// closing burst); a closing 1.1 s so that a shutdown drain times out
fn exhaustive(out: &mut Out, maxlen: usize) {
    let h = Head { cfg: Cfg::All, host: HOST.into(), now0: 1000 };
    let park_sub = Pol(Decision::Park, Decision::Accept, Decision::Accept);
    for (pname, pol) in [("accept", Pol::ACCEPT), ("parksub", park_sub)] {
        for len in 0..=maxlen {
            for_all_seqs(4, len, &mut |ix| {
                let cuts = if len == 0 { 1 } else { 1usize << (len - 1) };
                for cut in 0..cuts {
                    // bit k of `cut` set = a burst boundary after element k
                    let mut bursts: Vec<Vec<El>> = vec![];
                    let mut cur = vec![];
                    for (k, &i) in ix.iter().enumerate() {
                        cur.push(sym(i));
                        if k + 1 == len || (cut >> k) & 1 == 1 {
                            bursts.push(std::mem::take(&mut cur));
                        }
                    }
                    let mut now = 1000u64;
                    let mut fixed: VecDeque<Line> = VecDeque::new();
                    for b in bursts {
                        now += 10;
                        fixed.push_back(Line { kind: LineKind::Burst(b), now, pol });
                    }
                    let has_cancel = ix.iter().any(|&i| i == 3);
                    let mut closing = 0;
                    run_case(out, &h, &format!("exhaustive:{}", pname), &mut |parked| {
                        if let Some(l) = fixed.pop_front() {
                            return Some(l);
                        }
                        now += 10;
                        if !parked.is_empty() {
                            return Some(Line {
                                kind: LineKind::Burst(parked.iter().map(|&id| El::Res(id, true)).collect()),
                                now,
                                pol: Pol::ACCEPT,
                            });
                        }
                        if has_cancel && closing == 0 {
                            closing = 1;
                            return Some(Line { kind: LineKind::Adv(1100), now, pol: Pol::ACCEPT });
                        }
                        None
                    });
                }
            });
        }
    }
    out.exhaustive.push(format!(
        "all sequences of length 0..={} over {{on, off, own STATE offline, cancel}} x every cut into bursts x {{accept-all, park-subscribe (+ closing resolve burst)}}, closing 1.1 s when a cancel occurred; configuration AllGroups",
        maxlen
    ));
}

fn weird_name(rng: &mut Rng) -> String {
    const POOL: [&str; 10] = ["G1", "G2", "N1", "a b", "Ünï", "STATE", "x+y", "spBv1.0", "日本", "g#"];
    rng.pick(&POOL).to_string()
}

fn random_cfg(rng: &mut Rng) -> Cfg {
    match rng.below(4) {
        0 | 1 => Cfg::All,
        2 => Cfg::Single(weird_name(rng)),
        _ => {
            let n = rng.below(4);
            Cfg::Custom(
                (0..n)
                    .map(|_| if rng.chance(1, 2) { Ns::Group(weird_name(rng)) } else { Ns::Node(weird_name(rng), weird_name(rng)) })
                    .collect(),
            )
        }
    }
}

fn random_dec(rng: &mut Rng, park_w: u64) -> Decision {
    let x = rng.below(10);
    if x < park_w {
        Decision::Park
    } else if x < park_w + 2 {
        Decision::Reject
    } else {
        Decision::Accept
    }
}

fn random_case(out: &mut Out, rng: &mut Rng) {
    let host = match rng.below(8) {
        0 => "host é".to_string(),
        1 => "H2".to_string(),
        _ => HOST.to_string(),
    };
    let now0 = rng.range(0, 1 << 40);
    let h = Head { cfg: random_cfg(rng), host, now0 };
    let nlines = rng.range(1, 14);
    // a case-wide taste for parking
    let park_w = *rng.pick(&[0u64, 0, 2, 4, 7]);
    let mut now = now0;
    let mut k = 0;
    let mut r = rng.fork();
    run_case(out, &h, "random", &mut |parked| {
        if k >= nlines {
            return None;
        }
        k += 1;
        match r.below(10) {
            0 => {}
            1 => now = now.saturating_sub(r.range(1, 50)),
            _ => now += r.range(1, 50),
        }
        let pol = Pol(
            random_dec(&mut r, park_w),
            random_dec(&mut r, park_w),
            if r.chance(1, 5) { Decision::Reject } else { Decision::Accept },
        );
        if r.chance(1, 12) {
            return Some(Line { kind: LineKind::Adv(*r.pick(&[400u64, 1100])), now, pol });
        }
        let n = r.range(1, 4);
        let mut els = vec![];
        let mut avail: Vec<usize> = parked.to_vec();
        for _ in 0..n {
            let e = match r.below(24) {
                0..=5 => El::On,
                6..=10 => El::Off,
                11..=13 => El::St(true, false),
                14 => El::St(true, true),
                15 => El::St(false, r.chance(1, 2)),
                16 => El::Node,
                17 => El::Junk,
                18 | 19 => El::Cancel,
                _ => {
                    if !avail.is_empty() {
                        let i = r.below(avail.len() as u64) as usize;
                        El::Res(avail.remove(i), r.chance(3, 4))
                    } else if r.chance(1, 10) {
                        El::Res(9999, true) // nothing parked under this id: a no-op
                    } else {
                        El::On
                    }
                }
            };
            els.push(e);
        }
        Some(Line { kind: LineKind::Burst(els), now, pol })
    });
}

/// hand-written schedules that need a non-quiescent interleaving
fn directed(out: &mut Out) {
    let h = Head { cfg: Cfg::Single("G1".into()), host: HOST.into(), now0: 500 };
    let b = |els: Vec<El>, now: u64, pol: &str| Line { kind: LineKind::Burst(els), now, pol: Pol::parse(pol) };
    // Online and Offline queued back to back: the will must be refreshed although no birth went out
    run_fixed(out, &h, "directed", &[b(vec![El::On, El::Off], 510, "aaa"), b(vec![El::On], 520, "aaa")]);
    // a stale session completes after the reconnect
    run_fixed(
        out,
        &h,
        "directed",
        &[
            b(vec![El::On], 510, "paa"),
            b(vec![El::Off, El::On], 520, "paa"),
            b(vec![El::Res(0, true)], 530, "aaa"),
            b(vec![El::St(true, false)], 540, "aaa"),
            b(vec![El::Res(1, true)], 550, "aaa"),
        ],
    );
    // the birth parks; own offline STATE before / after it is resolved; offline in the same burst as the resolve
    run_fixed(
        out,
        &h,
        "directed",
        &[
            b(vec![El::On], 510, "apa"),
            b(vec![El::St(true, false)], 520, "aaa"),
            b(vec![El::Res(1, true), El::St(true, false)], 530, "aaa"),
            b(vec![El::St(true, false)], 540, "apa"),
            b(vec![El::Off, El::Res(2, false)], 550, "aaa"),
        ],
    );
    // three cancels while online, Offline ends the first drain, the timeout the second
    run_fixed(
        out,
        &h,
        "directed",
        &[
            b(vec![El::On], 510, "aaa"),
            b(vec![El::Cancel, El::Cancel, El::Cancel], 520, "aar"),
            b(vec![El::St(true, false), El::Node, El::Off], 530, "aaa"),
            b(vec![El::On], 540, "aaa"),
            Line { kind: LineKind::Adv(400), now: 550, pol: Pol::ACCEPT },
            Line { kind: LineKind::Adv(1100), now: 560, pol: Pol::ACCEPT },
            Line { kind: LineKind::Adv(1100), now: 570, pol: Pol::ACCEPT },
        ],
    );
    // cancel while online, the final Offline withheld, other traffic arriving every 400 ms: the shutdown
    // wait is ONE second in total (not one second per event), so the third advance reports Cancelled
    {
        let mut lines = vec![b(vec![El::On], 510, "aaa"), b(vec![El::Cancel], 520, "aaa")];
        let mut now = 530;
        // 26 x 400 ms > the 10 s the direct oracle allows, with an event in every gap
        for k in 0..26 {
            lines.push(Line { kind: LineKind::Adv(400), now, pol: Pol::ACCEPT });
            now += 10;
            lines.push(b(vec![match k % 3 { 0 => El::Node, 1 => El::St(false, true), _ => El::Junk }], now, "aaa"));
            now += 10;
        }
        lines.push(Line { kind: LineKind::Adv(400), now, pol: Pol::ACCEPT });
        run_fixed(out, &h, "directed", &lines);
    }
}

pub const RULE: &str = "cases = (a) every sequence of length <=L over {Online, Offline, own STATE offline, cancel} cut into bursts in every way (a burst = stimuli applied before any srad task runs, then run to quiescence), under an accept-all client and under a client that parks every subscribe (resolved in a closing burst), closing 1.1 s after a cancel; (b) hand-written races (back-to-back Online/Offline, stale session completing after a reconnect, parked birth, three cancels); (c) random cases: up to 14 lines, bursts of 1-4 of {on, off, own/foreign STATE online/offline, node message, invalid publish, cancel, resolve of a parked call ok/err}, per line a random policy accept/reject/park for subscribe and STATE publish and accept/reject for disconnect, 400 ms / 1.1 s advances, random configurations and host ids, non-monotone mock clock. Each line is admitted by the Lean LTS (some interleaving produces exactly the observed tokens). A case is non-trivial if a session was opened (a subscribe was observed); distinct = distinct op-line sequences (hashed).";

pub fn run(args: &Args, out: &mut Out) -> &'static str {
    let mut rng = Rng::new(args.seed);
    let (l, nrand) = if args.thorough() { (5usize, 40000u64) } else { (4, 4000) };
    directed(out);
    exhaustive(out, l);
    for _ in 0..nrand {
        random_case(out, &mut rng);
    }
    // invalid host ids: the constructor panics
    for hst in ["", "a/b", "a+", "#"] {
        run_fixed(out, &Head { cfg: Cfg::All, host: hst.into(), now0: 5 }, "hostid", &[]);
    }
    RULE
}

/// Re-run from op lines (the op lines are the replay; the observations after `=>` are ignored).
pub fn replay(_desc: &str, ops: &[String], out: &mut Out) {
    let mut cur: Option<(Head, Vec<Line>)> = None;
    let flush = |cur: &mut Option<(Head, Vec<Line>)>, out: &mut Out| {
        if let Some((h, lines)) = cur.take() {
            run_fixed(out, &h, "replay", &lines);
        }
    };
    for l in ops {
        let req = l.split("=>").next().unwrap_or("");
        let w: Vec<&str> = req.split_whitespace().collect();
        match w.as_slice() {
            ["hll", "new", cfg, host, now] => {
                flush(&mut cur, out);
                cur = Some((Head { cfg: Cfg::parse(cfg), host: unhx(host), now0: now.parse().unwrap() }, vec![]));
            }
            ["hll", "stim", "burst", now, pol, els] => {
                let els = if *els == "_" { vec![] } else { els.split(',').map(El::parse).collect() };
                cur.as_mut().unwrap().1.push(Line { kind: LineKind::Burst(els), now: now.parse().unwrap(), pol: Pol::parse(pol) });
            }
            ["hll", "stim", "adv", now, pol, ms] => {
                cur.as_mut().unwrap().1.push(Line { kind: LineKind::Adv(ms.parse().unwrap()), now: now.parse().unwrap(), pol: Pol::parse(pol) });
            }
            _ => panic!("bad hll op {}", l),
        }
    }
    flush(&mut cur, out);
}
