//! Component `admit` (C14): host-side payload admission of srad-app (events.rs, metrics.rs) as
//! surfaced by `AppEventLoop::poll` (eventloop.rs). The validation code is private to srad-app;
//! every request is pushed as an `srad_client::Event` through an `EventLoop` double into the real
//! `AppEventLoop::poll`, and the returned `AppEvent` is read back through its `Debug` rendering
//! (the event types live in a private module, `Debug` is their only public observer).
//! Ops (one per line, `~` = absent, strings as hex of their UTF-8):
//!   admit new
//!   admit node[w] <kind> <group> <node> <P>            kind: birth|death|cmd|data|other
//!   admit dev[w]  <kind> <group> <node> <device> <P>
//!   P      = <seq> <ts> <uuid> <body> <n> <metric>{n}
//!   metric = <name> <alias> <ts> <datatype> <hist> <trans> <null> <meta> <props> <variant> <field>
//!   props  = ~ | <keys>/<values>; keys = _ | hex,…; values = _ | ty.null.variant.field,…
//! `nodew`/`devw`: the message travels as topic bytes + prost-encoded payload through
//! `srad_client::topic_and_payload_to_event` first (the route a broker message takes).
//! Answers: none | invalid <group> <node> <device|~> <error> | node … | device …
use crate::c10::{build_metric, show_metric};
use crate::common::*;
use async_trait::async_trait;
use srad_app::{AppEvent, AppEventLoop, SubscriptionConfig};
use srad_client::{
    Client, DeviceMessage, Event, EventLoop, LastWill, Message, MessageKind, NodeMessage,
    StatePayload,
};
use srad_types::payload::{
    property_value, DataType, MetaData, Metric, Payload, PropertySet, PropertySetList,
    PropertyValue,
};
use srad_types::topic::{DeviceTopic, NodeTopic, StateTopic, TopicFilter};
use std::collections::VecDeque;
use std::panic::AssertUnwindSafe;
use std::sync::{Arc, Mutex};

// ------------------------------------------------------------------------------------------
// doubles
// ------------------------------------------------------------------------------------------
struct Feeder {
    q: Arc<Mutex<VecDeque<Event>>>,
}
#[async_trait]
impl EventLoop for Feeder {
    async fn poll(&mut self) -> Event {
        let e = self.q.lock().unwrap().pop_front();
        match e {
            Some(e) => e,
            None => std::future::pending().await,
        }
    }
    fn set_last_will(&mut self, _will: LastWill) {}
}
struct NullClient;
#[async_trait]
impl Client for NullClient {
    async fn disconnect(&self) -> Result<(), ()> {
        Ok(())
    }
    async fn publish_state_message(&self, _: StateTopic, _: StatePayload) -> Result<(), ()> {
        Ok(())
    }
    async fn try_publish_state_message(&self, _: StateTopic, _: StatePayload) -> Result<(), ()> {
        Ok(())
    }
    async fn publish_node_message(&self, _: NodeTopic, _: Payload) -> Result<(), ()> {
        Ok(())
    }
    async fn try_publish_node_message(&self, _: NodeTopic, _: Payload) -> Result<(), ()> {
        Ok(())
    }
    async fn publish_device_message(&self, _: DeviceTopic, _: Payload) -> Result<(), ()> {
        Ok(())
    }
    async fn try_publish_device_message(&self, _: DeviceTopic, _: Payload) -> Result<(), ()> {
        Ok(())
    }
    async fn subscribe_many(&self, _: Vec<TopicFilter>) -> Result<(), ()> {
        Ok(())
    }
}

const SENTINEL: &str = "\u{1}sentinel";

pub struct Ctx {
    rt: tokio::runtime::Runtime,
    app: AppEventLoop,
    q: Arc<Mutex<VecDeque<Event>>>,
}
impl Ctx {
    pub fn new() -> Ctx {
        let rt = tokio::runtime::Builder::new_current_thread()
            .enable_time()
            .start_paused(true)
            .build()
            .unwrap();
        let q = Arc::new(Mutex::new(VecDeque::new()));
        let (app, _client) = AppEventLoop::new(
            "verifhost",
            SubscriptionConfig::AllGroups,
            Feeder { q: q.clone() },
            NullClient,
        );
        Ctx { rt, app, q }
    }
    /// Push one event followed by a recognisable malformed message; `None` = `poll` produced no
    /// event for `e` (it went on to the sentinel).
    fn feed(&mut self, e: Event) -> Result<Option<AppEvent>, String> {
        {
            let mut q = self.q.lock().unwrap();
            q.clear();
            q.push_back(e);
            q.push_back(Event::Node(NodeMessage {
                group_id: SENTINEL.into(),
                node_id: SENTINEL.into(),
                message: Message { payload: empty_payload(), kind: MessageKind::Death },
            }));
        }
        let is_sentinel = |ev: &AppEvent| matches!(ev, AppEvent::InvalidPayload(d) if d.node_id.group == SENTINEL);
        let app = &mut self.app;
        let rt = &self.rt;
        let first = catch(AssertUnwindSafe(|| rt.block_on(app.poll())))?;
        if is_sentinel(&first) {
            return Ok(None);
        }
        let second = catch(AssertUnwindSafe(|| rt.block_on(app.poll())))?;
        if !is_sentinel(&second) {
            return Err("harness: sentinel did not follow".into());
        }
        Ok(Some(first))
    }
}

fn empty_payload() -> Payload {
    Payload { timestamp: None, metrics: vec![], seq: None, uuid: None, body: None }
}

// ------------------------------------------------------------------------------------------
// request tokens <-> prost structs
// ------------------------------------------------------------------------------------------
fn opt<T>(s: &str, f: impl Fn(&str) -> T) -> Option<T> {
    if s == "~" {
        None
    } else {
        Some(f(s))
    }
}
fn s_of(hx: &str) -> String {
    String::from_utf8(unhex(hx)).expect("harness generates valid UTF-8")
}
fn b_of(s: &str) -> bool {
    s == "1"
}
fn show_opt<T: std::fmt::Display>(o: &Option<T>) -> String {
    match o {
        Some(x) => x.to_string(),
        None => "~".into(),
    }
}
fn show_ob(o: &Option<bool>) -> String {
    match o {
        Some(true) => "1".into(),
        Some(false) => "0".into(),
        None => "~".into(),
    }
}
fn show_os(o: &Option<String>) -> String {
    match o {
        Some(x) => hex(x.as_bytes()),
        None => "~".into(),
    }
}

fn build_prop(variant: &str, field: &str) -> property_value::Value {
    use property_value::Value::*;
    match variant {
        "int" => IntValue(field.parse().unwrap()),
        "long" => LongValue(field.parse().unwrap()),
        "float" => FloatValue(f32::from_bits(field.parse().unwrap())),
        "double" => DoubleValue(f64::from_bits(field.parse().unwrap())),
        "bool" => BooleanValue(field == "1"),
        "str" => StringValue(s_of(field)),
        "pset" => PropertysetValue(PropertySet { keys: vec![], values: vec![] }),
        "psets" => PropertysetsValue(PropertySetList { propertyset: vec![] }),
        "ext" => ExtensionValue(Default::default()),
        _ => panic!("bad property variant"),
    }
}
fn show_prop(v: &property_value::Value) -> String {
    use property_value::Value::*;
    match v {
        IntValue(x) => format!("int.{}", x),
        LongValue(x) => format!("long.{}", x),
        FloatValue(x) => format!("float.{}", x.to_bits()),
        DoubleValue(x) => format!("double.{}", x.to_bits()),
        BooleanValue(x) => format!("bool.{}", *x as u8),
        StringValue(x) => format!("str.{}", hex(x.as_bytes())),
        PropertysetValue(_) => "pset.-".into(),
        PropertysetsValue(_) => "psets.-".into(),
        ExtensionValue(_) => "ext.-".into(),
    }
}

fn parse_props(s: &str) -> Option<PropertySet> {
    if s == "~" {
        return None;
    }
    let (ks, vs) = s.split_once('/').unwrap();
    let keys = if ks == "_" { vec![] } else { ks.split(',').map(s_of).collect() };
    let values = if vs == "_" {
        vec![]
    } else {
        vs.split(',')
            .map(|v| {
                let p: Vec<&str> = v.split('.').collect();
                PropertyValue {
                    r#type: opt(p[0], |x| x.parse().unwrap()),
                    is_null: opt(p[1], b_of),
                    value: if p[2] == "~" { None } else { Some(build_prop(p[2], p[3])) },
                }
            })
            .collect()
    };
    Some(PropertySet { keys, values })
}
fn show_props(p: &Option<PropertySet>) -> String {
    match p {
        None => "~".into(),
        Some(ps) => {
            let ks = if ps.keys.is_empty() {
                "_".to_string()
            } else {
                ps.keys.iter().map(|k| hex(k.as_bytes())).collect::<Vec<_>>().join(",")
            };
            let vs = if ps.values.is_empty() {
                "_".to_string()
            } else {
                ps.values
                    .iter()
                    .map(|v| {
                        format!(
                            "{}.{}.{}",
                            show_opt(&v.r#type),
                            show_ob(&v.is_null),
                            match &v.value {
                                Some(x) => show_prop(x),
                                None => "~.~".into(),
                            }
                        )
                    })
                    .collect::<Vec<_>>()
                    .join(",")
            };
            format!("{}/{}", ks, vs)
        }
    }
}

fn parse_meta(s: &str) -> Option<MetaData> {
    if s == "~" {
        return None;
    }
    let p: Vec<&str> = s[1..].split(':').collect();
    Some(MetaData {
        is_multi_part: opt(p[0], b_of),
        content_type: opt(p[1], s_of),
        size: opt(p[2], |x| x.parse().unwrap()),
        seq: opt(p[3], |x| x.parse().unwrap()),
        file_name: opt(p[4], s_of),
        file_type: opt(p[5], s_of),
        md5: opt(p[6], s_of),
        description: opt(p[7], s_of),
    })
}
fn show_meta(m: &Option<MetaData>) -> String {
    match m {
        None => "~".into(),
        Some(m) => format!(
            "M{}:{}:{}:{}:{}:{}:{}:{}",
            show_ob(&m.is_multi_part),
            show_os(&m.content_type),
            show_opt(&m.size),
            show_opt(&m.seq),
            show_os(&m.file_name),
            show_os(&m.file_type),
            show_os(&m.md5),
            show_os(&m.description)
        ),
    }
}

fn parse_metric(t: &[&str]) -> Metric {
    Metric {
        name: opt(t[0], s_of),
        alias: opt(t[1], |x| x.parse().unwrap()),
        timestamp: opt(t[2], |x| x.parse().unwrap()),
        datatype: opt(t[3], |x| x.parse().unwrap()),
        is_historical: opt(t[4], b_of),
        is_transient: opt(t[5], b_of),
        is_null: opt(t[6], b_of),
        metadata: parse_meta(t[7]),
        properties: parse_props(t[8]),
        value: if t[9] == "~" { None } else { Some(build_metric(t[9], t[10]).expect("bad value variant")) },
    }
}
pub fn show_metric_tokens(m: &Metric) -> String {
    format!(
        "{} {} {} {} {} {} {} {} {} {}",
        show_os(&m.name),
        show_opt(&m.alias),
        show_opt(&m.timestamp),
        show_opt(&m.datatype),
        show_ob(&m.is_historical),
        show_ob(&m.is_transient),
        show_ob(&m.is_null),
        show_meta(&m.metadata),
        show_props(&m.properties),
        match &m.value {
            Some(v) => show_metric(v),
            None => "~ ~".into(),
        }
    )
}
fn parse_payload(t: &[&str]) -> Payload {
    let n: usize = t[4].parse().unwrap();
    assert_eq!(t.len(), 5 + 11 * n, "bad payload token count");
    Payload {
        seq: opt(t[0], |x| x.parse().unwrap()),
        timestamp: opt(t[1], |x| x.parse().unwrap()),
        uuid: opt(t[2], s_of),
        body: opt(t[3], unhex),
        metrics: (0..n).map(|i| parse_metric(&t[5 + 11 * i..5 + 11 * (i + 1)])).collect(),
    }
}
pub fn show_payload(p: &Payload) -> String {
    let mut s = format!(
        "{} {} {} {} {}",
        show_opt(&p.seq),
        show_opt(&p.timestamp),
        show_os(&p.uuid),
        match &p.body {
            Some(b) => hex(b),
            None => "~".into(),
        },
        p.metrics.len()
    );
    for m in &p.metrics {
        s.push(' ');
        s.push_str(&show_metric_tokens(m));
    }
    s
}

#[derive(Clone, Copy, PartialEq, Debug)]
pub enum Kind {
    Birth,
    Death,
    Cmd,
    Data,
    Other,
}
impl Kind {
    fn tok(self) -> &'static str {
        match self {
            Kind::Birth => "birth",
            Kind::Death => "death",
            Kind::Cmd => "cmd",
            Kind::Data => "data",
            Kind::Other => "other",
        }
    }
    fn of(s: &str) -> Kind {
        match s {
            "birth" => Kind::Birth,
            "death" => Kind::Death,
            "cmd" => Kind::Cmd,
            "data" => Kind::Data,
            "other" => Kind::Other,
            _ => panic!("bad kind"),
        }
    }
    fn verb(self) -> &'static str {
        match self {
            Kind::Birth => "BIRTH",
            Kind::Death => "DEATH",
            Kind::Cmd => "CMD",
            Kind::Data => "DATA",
            Kind::Other => "FOO",
        }
    }
    fn message_kind(self) -> MessageKind {
        match self {
            Kind::Birth => MessageKind::Birth,
            Kind::Death => MessageKind::Death,
            Kind::Cmd => MessageKind::Cmd,
            Kind::Data => MessageKind::Data,
            Kind::Other => MessageKind::Other("FOO".into()),
        }
    }
}

/// One request.
pub struct Req {
    pub wire: bool,
    pub kind: Kind,
    pub group: String,
    pub node: String,
    pub device: Option<String>,
    pub payload: Payload,
}
impl Req {
    pub fn op(&self) -> String {
        let ids = match &self.device {
            Some(d) => format!("{} {} {}", hex(self.group.as_bytes()), hex(self.node.as_bytes()), hex(d.as_bytes())),
            None => format!("{} {}", hex(self.group.as_bytes()), hex(self.node.as_bytes())),
        };
        format!(
            "admit {}{} {} {} {}",
            if self.device.is_some() { "dev" } else { "node" },
            if self.wire { "w" } else { "" },
            self.kind.tok(),
            ids,
            show_payload(&self.payload)
        )
    }
    fn parse(op: &str) -> Req {
        let w: Vec<&str> = op.split(' ').collect();
        assert_eq!(w[0], "admit");
        let (dev, wire) = match w[1] {
            "node" => (false, false),
            "nodew" => (false, true),
            "dev" => (true, false),
            "devw" => (true, true),
            _ => panic!("bad op {}", op),
        };
        let kind = Kind::of(w[2]);
        let group = s_of(w[3]);
        let node = s_of(w[4]);
        let (device, rest) = if dev { (Some(s_of(w[5])), &w[6..]) } else { (None, &w[5..]) };
        Req { wire, kind, group, node, device, payload: parse_payload(rest) }
    }
    fn event(&self) -> Event {
        if self.wire {
            let topic = match &self.device {
                Some(d) => format!("spBv1.0/{}/D{}/{}/{}", self.group, self.kind.verb(), self.node, d),
                None => format!("spBv1.0/{}/N{}/{}", self.group, self.kind.verb(), self.node),
            };
            let bytes: Vec<u8> = self.payload.clone().into();
            return srad_client::topic_and_payload_to_event(topic.into_bytes(), bytes);
        }
        let message = Message { payload: self.payload.clone(), kind: self.kind.message_kind() };
        match &self.device {
            Some(d) => Event::Device(DeviceMessage {
                group_id: self.group.clone(),
                node_id: self.node.clone(),
                device_id: d.clone(),
                message,
            }),
            None => Event::Node(NodeMessage { group_id: self.group.clone(), node_id: self.node.clone(), message }),
        }
    }
}

// ------------------------------------------------------------------------------------------
// reading `{:?}` renderings back
// ------------------------------------------------------------------------------------------
#[derive(Debug, Clone, PartialEq)]
enum Tree {
    Str(String),
    Atom(String),
    Tuple(String, Vec<Tree>),
    Struct(String, Vec<(String, Tree)>),
    List(Vec<Tree>),
    Map(Vec<(Tree, Tree)>),
}
struct P<'a> {
    s: &'a [u8],
    i: usize,
}
impl<'a> P<'a> {
    fn ws(&mut self) {
        while self.i < self.s.len() && self.s[self.i] == b' ' {
            self.i += 1;
        }
    }
    fn peek(&self) -> u8 {
        if self.i < self.s.len() {
            self.s[self.i]
        } else {
            0
        }
    }
    fn eat(&mut self, c: u8) -> Result<(), String> {
        self.ws();
        if self.peek() == c {
            self.i += 1;
            Ok(())
        } else {
            Err(format!("expected {:?} at {}", c as char, self.i))
        }
    }
    fn ident(&mut self) -> String {
        let st = self.i;
        while self.i < self.s.len() {
            let c = self.s[self.i];
            if c.is_ascii_alphanumeric() || c == b'_' || c == b'.' || c == b'-' || c == b'+' || c == b'#' {
                self.i += 1;
            } else {
                break;
            }
        }
        String::from_utf8(self.s[st..self.i].to_vec()).unwrap()
    }
    fn string(&mut self) -> Result<String, String> {
        // at opening quote
        self.i += 1;
        let mut out = String::new();
        let text = std::str::from_utf8(&self.s[self.i..]).map_err(|e| e.to_string())?;
        let mut it = text.char_indices();
        while let Some((k, c)) = it.next() {
            match c {
                '"' => {
                    self.i += k + 1;
                    return Ok(out);
                }
                '\\' => {
                    let (_, e) = it.next().ok_or("eof in escape")?;
                    match e {
                        'n' => out.push('\n'),
                        'r' => out.push('\r'),
                        't' => out.push('\t'),
                        '0' => out.push('\0'),
                        '\\' => out.push('\\'),
                        '"' => out.push('"'),
                        '\'' => out.push('\''),
                        'u' => {
                            let mut hx = String::new();
                            it.next(); // {
                            for (_, h) in it.by_ref() {
                                if h == '}' {
                                    break;
                                }
                                hx.push(h);
                            }
                            out.push(char::from_u32(u32::from_str_radix(&hx, 16).map_err(|e| e.to_string())?).ok_or("bad char")?);
                        }
                        x => return Err(format!("unknown escape \\{}", x)),
                    }
                }
                c => out.push(c),
            }
        }
        Err("unterminated string".into())
    }
    fn seq(&mut self, close: u8) -> Result<Vec<Tree>, String> {
        let mut v = vec![];
        loop {
            self.ws();
            if self.peek() == close {
                self.i += 1;
                return Ok(v);
            }
            v.push(self.value()?);
            self.ws();
            if self.peek() == b',' {
                self.i += 1;
            }
        }
    }
    fn value(&mut self) -> Result<Tree, String> {
        self.ws();
        match self.peek() {
            b'"' => Ok(Tree::Str(self.string()?)),
            b'[' => {
                self.i += 1;
                Ok(Tree::List(self.seq(b']')?))
            }
            b'(' => {
                self.i += 1;
                Ok(Tree::Tuple(String::new(), self.seq(b')')?))
            }
            b'{' => {
                self.i += 1;
                let mut v = vec![];
                loop {
                    self.ws();
                    if self.peek() == b'}' {
                        self.i += 1;
                        return Ok(Tree::Map(v));
                    }
                    let k = self.value()?;
                    self.eat(b':')?;
                    let x = self.value()?;
                    v.push((k, x));
                    self.ws();
                    if self.peek() == b',' {
                        self.i += 1;
                    }
                }
            }
            _ => {
                let name = self.ident();
                if name.is_empty() {
                    return Err(format!("unexpected {:?} at {}", self.peek() as char, self.i));
                }
                if self.peek() == b'(' {
                    self.i += 1;
                    return Ok(Tree::Tuple(name, self.seq(b')')?));
                }
                if self.peek() == b' ' && self.i + 1 < self.s.len() && self.s[self.i + 1] == b'{' {
                    self.i += 2;
                    let mut v = vec![];
                    loop {
                        self.ws();
                        if self.peek() == b'}' {
                            self.i += 1;
                            return Ok(Tree::Struct(name, v));
                        }
                        let f = self.ident();
                        self.eat(b':')?;
                        let x = self.value()?;
                        v.push((f, x));
                        self.ws();
                        if self.peek() == b',' {
                            self.i += 1;
                        }
                    }
                }
                Ok(Tree::Atom(name))
            }
        }
    }
}
fn parse_debug(s: &str) -> Result<Tree, String> {
    let mut p = P { s: s.as_bytes(), i: 0 };
    let t = p.value()?;
    p.ws();
    if p.i != s.len() {
        return Err(format!("trailing input at {}", p.i));
    }
    Ok(t)
}
impl Tree {
    fn field(&self, f: &str) -> Result<&Tree, String> {
        match self {
            Tree::Struct(_, v) => v.iter().find(|(k, _)| k == f).map(|(_, x)| x).ok_or(format!("no field {}", f)),
            _ => Err(format!("not a struct (looking for {})", f)),
        }
    }
    fn name(&self) -> &str {
        match self {
            Tree::Tuple(n, _) | Tree::Struct(n, _) | Tree::Atom(n) => n,
            _ => "",
        }
    }
    fn arg(&self, i: usize) -> Result<&Tree, String> {
        match self {
            Tree::Tuple(_, v) => v.get(i).ok_or("missing tuple arg".to_string()),
            _ => Err("not a tuple".into()),
        }
    }
    fn atom(&self) -> Result<&str, String> {
        match self {
            Tree::Atom(a) => Ok(a),
            _ => Err(format!("not an atom: {:?}", self)),
        }
    }
    fn str(&self) -> Result<&str, String> {
        match self {
            Tree::Str(a) => Ok(a),
            _ => Err(format!("not a string: {:?}", self)),
        }
    }
    /// `Some(x)` / `None`
    fn option(&self) -> Result<Option<&Tree>, String> {
        match self {
            Tree::Atom(a) if a == "None" => Ok(None),
            Tree::Tuple(n, v) if n == "Some" && v.len() == 1 => Ok(Some(&v[0])),
            _ => Err(format!("not an option: {:?}", self)),
        }
    }
    fn list(&self) -> Result<&Vec<Tree>, String> {
        match self {
            Tree::List(v) => Ok(v),
            _ => Err("not a list".into()),
        }
    }
}

fn dt_code(name: &str) -> Result<u32, String> {
    (0..35u32)
        .find(|c| format!("{:?}", DataType::try_from(*c).unwrap()) == name)
        .ok_or(format!("unknown datatype {}", name))
}

fn bytes_of(t: &Tree) -> Result<Vec<u8>, String> {
    t.list()?.iter().map(|x| x.atom().and_then(|a| a.parse::<u8>().map_err(|e| e.to_string()))).collect()
}

/// `metric::Value` rendering -> the `show_metric` token pair
fn value_tok(t: &Tree) -> Result<String, String> {
    let a = || t.arg(0);
    Ok(match t.name() {
        "IntValue" => format!("int {}", a()?.atom()?),
        "LongValue" => format!("long {}", a()?.atom()?),
        "FloatValue" => format!("float {}", a()?.atom()?.parse::<f32>().map_err(|e| e.to_string())?.to_bits()),
        "DoubleValue" => format!("double {}", a()?.atom()?.parse::<f64>().map_err(|e| e.to_string())?.to_bits()),
        "BooleanValue" => format!("bool {}", (a()?.atom()? == "true") as u8),
        "StringValue" => format!("str {}", hex(a()?.str()?.as_bytes())),
        "BytesValue" => format!("bytes {}", hex(&bytes_of(a()?)?)),
        "DatasetValue" => "dataset -".into(),
        "TemplateValue" => {
            let tpl = a()?;
            let d = match tpl.field("is_definition")?.option()? {
                None => "n",
                Some(x) => {
                    if x.atom()? == "true" {
                        "t"
                    } else {
                        "f"
                    }
                }
            };
            let r = if tpl.field("template_ref")?.option()?.is_some() { "r" } else { "-" };
            format!("template {}{}", d, r)
        }
        "ExtensionValue" => "ext -".into(),
        "PropertysetValue" => "pset -".into(),
        "PropertysetsValue" => "psets -".into(),
        x => return Err(format!("unknown value variant {}", x)),
    })
}

fn opt_str_tok(t: &Tree) -> Result<String, String> {
    Ok(match t.option()? {
        None => "~".into(),
        Some(x) => hex(x.str()?.as_bytes()),
    })
}
fn opt_atom_tok(t: &Tree) -> Result<String, String> {
    Ok(match t.option()? {
        None => "~".into(),
        Some(x) => match x.atom()? {
            "true" => "1".into(),
            "false" => "0".into(),
            a => a.to_string(),
        },
    })
}

fn details_tok(t: &Tree) -> Result<String, String> {
    let value = match t.field("value")?.option()? {
        None => "~ ~".to_string(),
        Some(mv) => value_tok(mv.arg(0)?)?, // MetricValue(<variant>)
    };
    let props = match t.field("properties")?.option()? {
        None => "~".to_string(),
        Some(ps) => {
            // PropertySet({"k": PropertyValue { value: Some(PropertyValue(IntValue(3))), datatype: Some(Int32) }})
            let map = match ps.arg(0)? {
                Tree::Map(v) => v,
                _ => return Err("PropertySet is not a map".into()),
            };
            let mut items: Vec<(Vec<u8>, String)> = vec![];
            for (k, v) in map {
                let val = match v.field("value")?.option()? {
                    None => "~.~".to_string(),
                    Some(pv) => value_tok(pv.arg(0)?)?.replace(' ', "."),
                };
                let dt = match v.field("datatype")?.option()? {
                    None => "~".to_string(),
                    Some(d) => dt_code(d.atom()?)?.to_string(),
                };
                items.push((k.str()?.as_bytes().to_vec(), format!("{}.{}", val, dt)));
            }
            items.sort();
            if items.is_empty() {
                "_".to_string()
            } else {
                items.iter().map(|(k, v)| format!("{}={}", hex(k), v)).collect::<Vec<_>>().join(",")
            }
        }
    };
    let meta = match t.field("metadata")?.option()? {
        None => "~".to_string(),
        Some(m) => format!(
            "M{}:{}:{}:{}:{}:{}:{}:{}",
            opt_atom_tok(m.field("is_multi_part")?)?,
            opt_str_tok(m.field("content_type")?)?,
            opt_atom_tok(m.field("size")?)?,
            opt_atom_tok(m.field("seq")?)?,
            opt_str_tok(m.field("file_name")?)?,
            opt_str_tok(m.field("file_type")?)?,
            opt_str_tok(m.field("md5")?)?,
            opt_str_tok(m.field("description")?)?
        ),
    };
    Ok(format!(
        "{} {} {} {} {} {}",
        value,
        props,
        meta,
        t.field("timestamp")?.atom()?,
        (t.field("is_historical")?.atom()? == "true") as u8,
        (t.field("is_transient")?.atom()? == "true") as u8
    ))
}

fn birth_metrics_tok(t: &Tree) -> Result<String, String> {
    let l = t.list()?;
    let mut s = l.len().to_string();
    for pair in l {
        let b = pair.arg(0)?;
        let d = pair.arg(1)?;
        s.push_str(&format!(
            " {} {} {} {}",
            hex(b.field("name")?.str()?.as_bytes()),
            opt_atom_tok(b.field("alias")?)?,
            dt_code(b.field("datatype")?.atom()?)?,
            details_tok(d)?
        ));
    }
    Ok(s)
}
fn data_metrics_tok(t: &Tree) -> Result<String, String> {
    let l = t.list()?;
    let mut s = l.len().to_string();
    for pair in l {
        let id = pair.arg(0)?;
        let idt = match id.name() {
            "Name" => format!("n:{}", hex(id.arg(0)?.str()?.as_bytes())),
            "Alias" => format!("a:{}", id.arg(0)?.atom()?),
            x => return Err(format!("unknown metric id {}", x)),
        };
        s.push_str(&format!(" {} {}", idt, details_tok(pair.arg(1)?)?));
    }
    Ok(s)
}

fn err_tok(t: &Tree) -> Result<String, String> {
    Ok(match t.name() {
        "MissingSeq" => "missing-seq".into(),
        "InvalidSeq" => "invalid-seq".into(),
        "InvalidBdseq" => "invalid-bdseq".into(),
        "MissingTimestamp" => "missing-timestamp".into(),
        "MetricError" => match t.arg(0)?.name() {
            "MissingTimestamp" => "metric:missing-timestamp".into(),
            "MissingDatatype" => "metric:missing-datatype".into(),
            "InvalidDatatype" => "metric:invalid-datatype".into(),
            "MissingName" => "metric:missing-name".into(),
            "NotNullNoValue" => "metric:not-null-no-value".into(),
            "InvalidProperties" => "metric:invalid-properties".into(),
            x => return Err(format!("unknown metric error {}", x)),
        },
        x => return Err(format!("unknown payload error {}", x)),
    })
}

/// Canonical answer for an `AppEvent` produced from a node/device message.
fn canon(ev: &AppEvent) -> Result<String, String> {
    let t = parse_debug(&format!("{:?}", ev))?;
    let inner = t.arg(0)?;
    match t.name() {
        "InvalidPayload" => {
            let id = inner.field("node_id")?;
            Ok(format!(
                "invalid {} {} {} {}",
                hex(id.field("group")?.str()?.as_bytes()),
                hex(id.field("node")?.str()?.as_bytes()),
                opt_str_tok(inner.field("device")?)?,
                err_tok(inner.field("error")?)?
            ))
        }
        "Node" => {
            let id = inner.field("id")?;
            let e = inner.field("event")?;
            let x = e.arg(0)?;
            let body = match e.name() {
                "Birth" => format!(
                    "nbirth {} {} {}",
                    x.field("bdseq")?.atom()?,
                    x.field("timestamp")?.atom()?,
                    birth_metrics_tok(x.field("metrics_details")?)?
                ),
                "Death" => format!("ndeath {}", x.field("bdseq")?.atom()?),
                "Data" => format!(
                    "ndata {} {} {}",
                    x.field("seq")?.atom()?,
                    x.field("timestamp")?.atom()?,
                    data_metrics_tok(x.field("metrics_details")?)?
                ),
                n => return Err(format!("unknown node event {}", n)),
            };
            Ok(format!(
                "node {} {} {}",
                hex(id.field("group")?.str()?.as_bytes()),
                hex(id.field("node")?.str()?.as_bytes()),
                body
            ))
        }
        "Device" => {
            let id = inner.field("id")?;
            let e = inner.field("event")?;
            let x = e.arg(0)?;
            let body = match e.name() {
                "Birth" => format!(
                    "dbirth {} {} {}",
                    x.field("seq")?.atom()?,
                    x.field("timestamp")?.atom()?,
                    birth_metrics_tok(x.field("metrics_details")?)?
                ),
                "Death" => format!("ddeath {} {}", x.field("seq")?.atom()?, x.field("timestamp")?.atom()?),
                "Data" => format!(
                    "ddata {} {} {}",
                    x.field("seq")?.atom()?,
                    x.field("timestamp")?.atom()?,
                    data_metrics_tok(x.field("metrics_details")?)?
                ),
                n => return Err(format!("unknown device event {}", n)),
            };
            Ok(format!(
                "device {} {} {} {}",
                hex(id.field("group")?.str()?.as_bytes()),
                hex(id.field("node")?.str()?.as_bytes()),
                hex(inner.field("name")?.str()?.as_bytes()),
                body
            ))
        }
        n => Err(format!("unexpected event {}", n)),
    }
}

// ------------------------------------------------------------------------------------------
// the property, written directly (independent of srad and of the Lean model)
// ------------------------------------------------------------------------------------------
fn valid_datatype(c: u32) -> bool {
    c <= 34
}
fn props_decodable(ps: &PropertySet) -> bool {
    ps.keys.len() == ps.values.len()
        && ps.values.iter().all(|v| {
            (v.value.is_some() || v.is_null == Some(true)) && v.r#type.map(valid_datatype).unwrap_or(true)
        })
}
/// "every metric needs a timestamp and either a value or is_null=true" (+ decodable properties)
fn metric_ok(m: &Metric) -> bool {
    m.timestamp.is_some()
        && (m.value.is_some() || m.is_null == Some(true))
        && m.properties.as_ref().map(props_decodable).unwrap_or(true)
}
/// "birth metrics need name and valid datatype"
fn birth_metric_ok(m: &Metric) -> bool {
    m.name.is_some() && m.datatype.map(valid_datatype).unwrap_or(false) && metric_ok(m)
}
/// "data metrics need name or alias"
fn data_metric_ok(m: &Metric) -> bool {
    (m.name.is_some() || m.alias.is_some()) && metric_ok(m)
}
/// "a 64-bit integer bdSeq metric in 0..=255", found by name
fn bdseq_of(p: &Payload) -> Option<u8> {
    let m = p.metrics.iter().find(|m| m.name.as_deref() == Some("bdSeq"))?;
    match &m.value {
        Some(srad_types::payload::metric::Value::LongValue(v)) if *v <= 255 => Some(*v as u8),
        _ => None,
    }
}
pub fn well_formed(device: bool, kind: Kind, p: &Payload) -> bool {
    match (device, kind) {
        (false, Kind::Birth) => {
            p.seq == Some(0) && p.timestamp.is_some() && bdseq_of(p).is_some() && p.metrics.iter().all(birth_metric_ok)
        }
        (false, Kind::Death) => bdseq_of(p).is_some(),
        (true, Kind::Birth) => p.seq.is_some() && p.timestamp.is_some() && p.metrics.iter().all(birth_metric_ok),
        (true, Kind::Death) => p.seq.is_some() && p.timestamp.is_some(),
        (_, Kind::Data) => p.seq.is_some() && p.timestamp.is_some() && p.metrics.iter().all(data_metric_ok),
        (_, Kind::Cmd) | (_, Kind::Other) => false,
    }
}

fn expect_details(m: &Metric) -> String {
    let props = match &m.properties {
        None => "~".to_string(),
        Some(ps) => {
            let mut map: std::collections::BTreeMap<Vec<u8>, String> = Default::default();
            for (k, v) in ps.keys.iter().zip(ps.values.iter()) {
                let val = match &v.value {
                    Some(x) => show_prop(x),
                    None => "~.~".into(),
                };
                map.insert(k.as_bytes().to_vec(), format!("{}.{}", val, show_opt(&v.r#type)));
            }
            if map.is_empty() {
                "_".to_string()
            } else {
                map.iter().map(|(k, v)| format!("{}={}", hex(k), v)).collect::<Vec<_>>().join(",")
            }
        }
    };
    format!(
        "{} {} {} {} {} {}",
        match &m.value {
            Some(v) => show_metric(v),
            None => "~ ~".into(),
        },
        props,
        show_meta(&m.metadata),
        m.timestamp.unwrap(),
        (m.is_historical == Some(true)) as u8,
        (m.is_transient == Some(true)) as u8
    )
}
fn expect_birth_metrics(p: &Payload) -> String {
    let mut s = p.metrics.len().to_string();
    for m in &p.metrics {
        s.push_str(&format!(
            " {} {} {} {}",
            hex(m.name.as_ref().unwrap().as_bytes()),
            show_opt(&m.alias),
            m.datatype.unwrap(),
            expect_details(m)
        ));
    }
    s
}
fn expect_data_metrics(p: &Payload) -> String {
    let mut s = p.metrics.len().to_string();
    for m in &p.metrics {
        let id = match (&m.alias, &m.name) {
            (Some(a), _) => format!("a:{}", a),
            (None, Some(n)) => format!("n:{}", hex(n.as_bytes())),
            _ => unreachable!(),
        };
        s.push_str(&format!(" {} {}", id, expect_details(m)));
    }
    s
}
/// The admitted object "carries exactly the fields" of a well-formed payload.
fn expect_admitted(r: &Req) -> String {
    let p = &r.payload;
    let g = hex(r.group.as_bytes());
    let n = hex(r.node.as_bytes());
    match (&r.device, r.kind) {
        (None, Kind::Birth) => format!(
            "node {} {} nbirth {} {} {}",
            g,
            n,
            bdseq_of(p).unwrap(),
            p.timestamp.unwrap(),
            expect_birth_metrics(p)
        ),
        (None, Kind::Death) => format!("node {} {} ndeath {}", g, n, bdseq_of(p).unwrap()),
        (None, Kind::Data) => format!(
            "node {} {} ndata {} {} {}",
            g,
            n,
            p.seq.unwrap() % 256,
            p.timestamp.unwrap(),
            expect_data_metrics(p)
        ),
        (Some(d), Kind::Birth) => format!(
            "device {} {} {} dbirth {} {} {}",
            g,
            n,
            hex(d.as_bytes()),
            p.seq.unwrap() % 256,
            p.timestamp.unwrap(),
            expect_birth_metrics(p)
        ),
        (Some(d), Kind::Death) => format!(
            "device {} {} {} ddeath {} {}",
            g,
            n,
            hex(d.as_bytes()),
            p.seq.unwrap() % 256,
            p.timestamp.unwrap()
        ),
        (Some(d), Kind::Data) => format!(
            "device {} {} {} ddata {} {} {}",
            g,
            n,
            hex(d.as_bytes()),
            p.seq.unwrap() % 256,
            p.timestamp.unwrap(),
            expect_data_metrics(p)
        ),
        _ => unreachable!(),
    }
}

fn verb_name(r: &Req) -> String {
    format!("{}{}", if r.device.is_some() { "D" } else { "N" }, r.kind.verb())
}

/// Execute one op on the implementation; the oracle clauses are evaluated here.
pub fn exec(op: &str, out: &mut Out, ctx: &mut Ctx) -> String {
    let _crumb = crate::common::crumb::guard(op);
    if op == "admit new" {
        return "ok".into();
    }
    let r = Req::parse(op);
    let ev = r.event();
    if r.wire && !matches!(ev, Event::Node(_) | Event::Device(_)) {
        out.fail("C14:wire-route", &verb_name(&r), format!("{}: topic/payload bytes did not yield a message event: {:?}", op, ev));
        return "wire-error".into();
    }
    let res = ctx.feed(ev);
    let ans = match &res {
        Err(msg) => {
            *ctx = Ctx::new();
            out.fail("C14:no-panic", &verb_name(&r), format!("{}: {}", op, msg));
            "panic".to_string()
        }
        Ok(None) => "none".to_string(),
        Ok(Some(ev)) => match canon(ev) {
            Ok(a) => a,
            Err(e) => {
                out.fail("C14:harness-debug-reader", &verb_name(&r), format!("{}: {} in {:?}", op, e, ev));
                "unreadable".to_string()
            }
        },
    };
    // ---- oracle: the property over what the implementation did ----
    let supported = matches!(r.kind, Kind::Birth | Kind::Death | Kind::Data);
    let wf = well_formed(r.device.is_some(), r.kind, &r.payload);
    let admitted = ans.starts_with("node ") || ans.starts_with("device ");
    let invalid = ans.starts_with("invalid ");
    if supported {
        if !wf && admitted {
            out.fail(
                "C14:only-well-formed-admitted",
                &verb_name(&r),
                format!("{}: not well-formed for its type, yet admitted as `{}`", op, ans),
            );
        }
        if !wf && !invalid && !admitted && ans != "panic" {
            out.fail(
                "C14:malformed-surfaced-as-invalid",
                &verb_name(&r),
                format!("{}: malformed message produced `{}` instead of an invalid-payload event", op, ans),
            );
        }
        if wf && !admitted {
            out.fail(
                "C14:well-formed-admitted",
                &verb_name(&r),
                format!("{}: well-formed message was not admitted: `{}`", op, ans),
            );
        }
        if wf && admitted {
            let want = expect_admitted(&r);
            if ans != want {
                out.fail(
                    "C14:carries-fields",
                    &verb_name(&r),
                    format!("{}: admitted `{}` but the payload's fields are `{}`", op, ans, want),
                );
            }
        }
        if invalid {
            let want_ids = format!(
                "invalid {} {} {} ",
                hex(r.group.as_bytes()),
                hex(r.node.as_bytes()),
                match &r.device {
                    Some(d) => hex(d.as_bytes()),
                    None => "~".into(),
                }
            );
            if !ans.starts_with(&want_ids) {
                out.fail("C14:invalid-names-sender", &verb_name(&r), format!("{}: `{}`", op, ans));
            }
        }
    } else if admitted {
        out.fail("C14:only-well-formed-admitted", &verb_name(&r), format!("{}: unsupported verb admitted as `{}`", op, ans));
    }
    out.count(&format!(
        "outcome:{}:{}",
        verb_name(&r),
        if admitted {
            "admitted"
        } else if invalid {
            ans.rsplit(' ').next().unwrap()
        } else {
            &ans
        }
    ));
    ans
}

// ------------------------------------------------------------------------------------------
// generators
// ------------------------------------------------------------------------------------------
use srad_types::payload::metric::Value as MV;

fn metric(name: Option<&str>, alias: Option<u64>, ts: Option<u64>, dt: Option<u32>, value: Option<MV>) -> Metric {
    Metric {
        name: name.map(|s| s.to_string()),
        alias,
        timestamp: ts,
        datatype: dt,
        is_historical: None,
        is_transient: None,
        is_null: None,
        metadata: None,
        properties: None,
        value,
    }
}
fn bdseq_metric(v: u64) -> Metric {
    metric(Some("bdSeq"), None, Some(1000), Some(DataType::Int64 as u32), Some(MV::LongValue(v)))
}
fn good_props() -> PropertySet {
    PropertySet {
        keys: vec!["Quality".into(), "unit".into()],
        values: vec![
            PropertyValue { r#type: Some(3), is_null: None, value: Some(property_value::Value::IntValue(192)) },
            PropertyValue { r#type: Some(12), is_null: None, value: Some(property_value::Value::StringValue("°C".into())) },
        ],
    }
}
fn some_meta() -> MetaData {
    MetaData {
        is_multi_part: Some(false),
        content_type: Some("text/plain".into()),
        size: Some(12),
        seq: None,
        file_name: None,
        file_type: None,
        md5: None,
        description: Some("d e\"s\\c".into()),
    }
}

/// A valid message of each of the six types: [bdSeq,] a plain metric, the metric under test
/// (index `UT`), a null metric with metadata and properties.
pub const VERBS: [(bool, Kind); 6] = [
    (false, Kind::Birth),
    (false, Kind::Death),
    (false, Kind::Data),
    (true, Kind::Birth),
    (true, Kind::Death),
    (true, Kind::Data),
];
pub fn base(device: bool, kind: Kind) -> Req {
    let mut metrics = vec![];
    if !device && kind != Kind::Data {
        metrics.push(bdseq_metric(7));
    }
    if kind != Kind::Death {
        metrics.push(metric(Some("a/plain"), None, Some(1001), Some(DataType::Double as u32), Some(MV::DoubleValue(2.5))));
        let mut ut = metric(Some("under test"), Some(42), Some(1002), Some(DataType::Int32 as u32), Some(MV::IntValue(123456)));
        ut.is_historical = Some(true);
        metrics.push(ut);
        let mut nul = metric(Some("nul"), Some(43), Some(1003), Some(DataType::String as u32), None);
        nul.is_null = Some(true);
        nul.is_transient = Some(true);
        nul.metadata = Some(some_meta());
        nul.properties = Some(good_props());
        metrics.push(nul);
    }
    Req {
        wire: false,
        kind,
        group: "grp".into(),
        node: "node 1".into(),
        device: if device { Some("dev".into()) } else { None },
        payload: Payload {
            timestamp: Some(999),
            metrics,
            seq: Some(if !device && kind == Kind::Birth { 0 } else { 17 }),
            uuid: None,
            body: None,
        },
    }
}
fn ut_index(r: &Req) -> Option<usize> {
    r.payload.metrics.iter().position(|m| m.name.as_deref() == Some("under test"))
}
fn bd_index(r: &Req) -> Option<usize> {
    r.payload.metrics.iter().position(|m| m.name.as_deref() == Some("bdSeq"))
}

/// Field-level deviations from the valid message; each is (dimension, choice).
pub const DIMS: [(&str, &[&str]); 8] = [
    ("seq", &["keep", "absent", "1", "256", "max"]),
    ("ts", &["keep", "absent"]),
    ("bdseq", &["keep", "removed", "int", "256", "null", "neg", "noname"]),
    ("id", &["keep", "name-only", "alias-only", "neither"]),
    ("dt", &["keep", "absent", "35", "0"]),
    ("mts", &["keep", "absent"]),
    ("val", &["keep", "absent", "null-false", "null-true", "value+null-true"]),
    ("props", &["keep", "ok", "len-mismatch", "bad-value", "bad-type"]),
];
pub fn apply(r: &mut Req, dim: &str, choice: &str) {
    if choice == "keep" {
        return;
    }
    let ut = ut_index(r);
    let bd = bd_index(r);
    let p = &mut r.payload;
    match (dim, choice) {
        ("seq", "absent") => p.seq = None,
        ("seq", "1") => p.seq = Some(1),
        ("seq", "256") => p.seq = Some(256),
        ("seq", "max") => p.seq = Some(u64::MAX),
        ("ts", "absent") => p.timestamp = None,
        ("bdseq", c) => {
            if let Some(i) = bd {
                match c {
                    "removed" => {
                        p.metrics.remove(i);
                    }
                    "int" => p.metrics[i].value = Some(MV::IntValue(7)),
                    "256" => p.metrics[i].value = Some(MV::LongValue(256)),
                    "null" => {
                        p.metrics[i].value = None;
                        p.metrics[i].is_null = Some(true)
                    }
                    "neg" => p.metrics[i].value = Some(MV::LongValue(u64::MAX)),
                    "noname" => p.metrics[i].name = None,
                    _ => panic!(),
                }
            }
        }
        (d, c) => {
            if let Some(i) = ut {
                let m = &mut p.metrics[i];
                match (d, c) {
                    ("id", "name-only") => m.alias = None,
                    ("id", "alias-only") => m.name = None,
                    ("id", "neither") => {
                        m.name = None;
                        m.alias = None
                    }
                    ("dt", "absent") => m.datatype = None,
                    ("dt", "35") => m.datatype = Some(35),
                    ("dt", "0") => m.datatype = Some(0),
                    ("mts", "absent") => m.timestamp = None,
                    ("val", "absent") => {
                        m.value = None;
                        m.is_null = None
                    }
                    ("val", "null-false") => {
                        m.value = None;
                        m.is_null = Some(false)
                    }
                    ("val", "null-true") => {
                        m.value = None;
                        m.is_null = Some(true)
                    }
                    ("val", "value+null-true") => m.is_null = Some(true),
                    ("props", "ok") => m.properties = Some(good_props()),
                    ("props", "len-mismatch") => {
                        let mut ps = good_props();
                        ps.values.pop();
                        m.properties = Some(ps)
                    }
                    ("props", "bad-value") => {
                        let mut ps = good_props();
                        ps.values[1].value = None;
                        ps.values[1].is_null = Some(false);
                        m.properties = Some(ps)
                    }
                    ("props", "bad-type") => {
                        let mut ps = good_props();
                        ps.values[0].r#type = Some(35);
                        m.properties = Some(ps)
                    }
                    _ => panic!("bad deviation {} {}", d, c),
                }
            }
        }
    }
}

fn one(out: &mut Out, ctx: &mut Ctx, r: &Req, stat: &str) -> String {
    let op = r.op();
    out.begin_case("admit new", "ok");
    let a = exec(&op, out, ctx);
    out.line(&op, &a);
    out.nontrivial();
    out.count(stat);
    out.count(&format!("verb:{}", verb_name(r)));
    if well_formed(r.device.is_some(), r.kind, &r.payload) {
        out.count("input:well-formed");
    } else {
        out.count("input:malformed-or-unsupported");
    }
    a
}

/// every combination of choices over the given dimension value sets
fn product(out: &mut Out, ctx: &mut Ctx, sets: &[(&str, Vec<&str>)], wire: bool, stat: &str) {
    for (device, kind) in VERBS {
        let mut idx = vec![0usize; sets.len()];
        loop {
            let mut r = base(device, kind);
            r.wire = wire;
            for (k, (dim, choices)) in sets.iter().enumerate() {
                apply(&mut r, dim, choices[idx[k]]);
            }
            one(out, ctx, &r, stat);
            // next
            let mut k = 0;
            loop {
                if k == sets.len() {
                    break;
                }
                idx[k] += 1;
                if idx[k] < sets[k].1.len() {
                    break;
                }
                idx[k] = 0;
                k += 1;
            }
            if k == sets.len() {
                break;
            }
        }
    }
}

fn rand_name(rng: &mut Rng) -> String {
    match rng.below(8) {
        0 => "bdSeq".into(),
        1 => "".into(),
        2 => "bdseq".into(),
        3 => "Node Control/Rebirth".into(),
        _ => crate::c10::random_string(rng, false),
    }
}
fn rand_u64(rng: &mut Rng) -> u64 {
    match rng.below(6) {
        0 => 0,
        1 => rng.below(300),
        2 => u64::MAX,
        3 => 1 << 63,
        4 => 255 + rng.below(3),
        _ => rng.next(),
    }
}
fn rand_value(rng: &mut Rng) -> MV {
    match rng.below(12) {
        0 | 1 | 2 => MV::LongValue(rand_u64(rng)),
        3 => MV::IntValue(rand_u64(rng) as u32),
        4 => MV::FloatValue(*rng.pick(&[0.0f32, 1.5, -2.25, f32::INFINITY, 1e-7, 16777216.0])),
        5 => MV::DoubleValue(*rng.pick(&[0.0f64, 1.5, -2.25, f64::NEG_INFINITY, 1e-300, 0.1])),
        6 => MV::BooleanValue(rng.chance(1, 2)),
        7 => MV::StringValue(crate::c10::random_string(rng, true)),
        8 => MV::BytesValue((0..rng.below(5)).map(|_| rng.next() as u8).collect()),
        9 => build_metric("template", *rng.pick(&["n-", "nr", "t-", "tr", "f-", "fr"])).unwrap(),
        10 => build_metric("dataset", "-").unwrap(),
        _ => build_metric("ext", "-").unwrap(),
    }
}
fn rand_opt_bool(rng: &mut Rng) -> Option<bool> {
    match rng.below(4) {
        0 => Some(true),
        1 => Some(false),
        _ => None,
    }
}
fn rand_props(rng: &mut Rng) -> PropertySet {
    let nk = rng.below(4) as usize;
    let nv = if rng.chance(4, 5) { nk } else { rng.below(4) as usize };
    let keys = (0..nk).map(|_| rng.pick(&["Quality", "k", "k2", ""]).to_string()).collect();
    let values = (0..nv)
        .map(|_| PropertyValue {
            r#type: match rng.below(5) {
                0 => None,
                1 => Some(35 + rng.below(3) as u32),
                _ => Some(rng.below(35) as u32),
            },
            is_null: if rng.chance(1, 6) { rand_opt_bool(rng) } else { None },
            value: if rng.chance(5, 6) {
                Some(match rng.below(9) {
                    0 => build_prop("int", &(rng.next() as u32).to_string()),
                    1 => build_prop("long", &rng.next().to_string()),
                    2 => build_prop("float", "1069547520"),
                    3 => build_prop("double", "4609434218613702656"),
                    4 => build_prop("bool", "1"),
                    5 => property_value::Value::StringValue(crate::c10::random_string(rng, true)),
                    6 => build_prop("pset", "-"),
                    7 => build_prop("psets", "-"),
                    _ => build_prop("ext", "-"),
                })
            } else {
                None
            },
        })
        .collect();
    PropertySet { keys, values }
}
/// mostly-present fields (p = chance of presence in 1/16)
fn rand_metric(rng: &mut Rng, p: u64) -> Metric {
    let has = |rng: &mut Rng| rng.chance(p, 16);
    Metric {
        name: if has(rng) { Some(rand_name(rng)) } else { None },
        alias: if rng.chance(1, 2) { Some(rand_u64(rng)) } else { None },
        timestamp: if has(rng) { Some(rand_u64(rng)) } else { None },
        datatype: if has(rng) {
            Some(if rng.chance(1, 12) { 35 + rng.below(1000) as u32 } else { rng.below(35) as u32 })
        } else {
            None
        },
        is_historical: rand_opt_bool(rng),
        is_transient: rand_opt_bool(rng),
        is_null: if rng.chance(1, 4) { rand_opt_bool(rng) } else { None },
        metadata: if rng.chance(1, 8) {
            Some(MetaData {
                is_multi_part: rand_opt_bool(rng),
                content_type: if rng.chance(1, 2) { Some(crate::c10::random_string(rng, false)) } else { None },
                size: if rng.chance(1, 2) { Some(rand_u64(rng)) } else { None },
                seq: if rng.chance(1, 2) { Some(rand_u64(rng)) } else { None },
                file_name: None,
                file_type: if rng.chance(1, 4) { Some("".into()) } else { None },
                md5: None,
                description: if rng.chance(1, 2) { Some(crate::c10::random_string(rng, false)) } else { None },
            })
        } else {
            None
        },
        properties: if rng.chance(1, 5) { Some(rand_props(rng)) } else { None },
        value: if has(rng) { Some(rand_value(rng)) } else { None },
    }
}
fn rand_req(rng: &mut Rng, p: u64, wire: bool) -> Req {
    let device = rng.chance(1, 2);
    let kind = match rng.below(12) {
        0 => Kind::Cmd,
        1 => Kind::Other,
        2..=4 => Kind::Birth,
        5..=7 => Kind::Death,
        _ => Kind::Data,
    };
    let n = rng.below(5) as usize;
    let mut metrics: Vec<Metric> = (0..n).map(|_| rand_metric(rng, p)).collect();
    if !device && kind != Kind::Data && rng.chance(3, 4) {
        let mut b = bdseq_metric(rng.below(256));
        if rng.chance(1, 6) {
            b.value = Some(rand_value(rng));
        }
        let at = rng.below(metrics.len() as u64 + 1) as usize;
        metrics.insert(at, b);
    }
    let ids = ["g", "grp 2", "ü", "N", ""];
    let wire_ids = ["g", "grp 2", "ü", "N", "x.y"];
    let pick = |rng: &mut Rng| if wire { wire_ids[rng.below(5) as usize] } else { ids[rng.below(5) as usize] }.to_string();
    Req {
        wire,
        kind,
        group: pick(rng),
        node: pick(rng),
        device: if device { Some(pick(rng)) } else { None },
        payload: Payload {
            timestamp: if rng.chance(p, 16) { Some(rand_u64(rng)) } else { None },
            metrics,
            seq: if rng.chance(p, 16) {
                Some(if !device && kind == Kind::Birth && rng.chance(3, 4) { 0 } else { rand_u64(rng) })
            } else {
                None
            },
            uuid: if rng.chance(1, 8) { Some("uuid".into()) } else { None },
            body: if rng.chance(1, 8) { Some(vec![1, 2, 3]) } else { None },
        },
    }
}

pub const RULE: &str = "every request travels through the real AppEventLoop::poll. Valid NBIRTH/NDEATH/NDATA/DBIRTH/DDEATH/DDATA with each required field removed or corrupted: the full product of 8 deviation dimensions (seq, timestamp, bdSeq metric, metric id, datatype, metric timestamp, value/is_null, property set; 56000 combinations per verb), plus every single and every pair of deviations once more through topic+prost bytes; bdSeq: every LongValue 0..=Nb and boundary values, every value variant, position of the bdSeq metric, several bdSeq metrics in every good/bad order; seq 0..=Ns for every verb; datatype codes 0..=300 and extremes; random payloads at three field-presence densities incl. unsupported verbs. Non-trivial = every case (one message); distinct = distinct op lines (hashed).";

pub fn run(args: &Args, out: &mut Out) -> &'static str {
    let mut rng = Rng::new(args.seed);
    let th = args.thorough();
    let mut ctx = Ctx::new();
    let ctx = &mut ctx;

    // (a) product of deviations
    let full: Vec<(&str, Vec<&str>)> = DIMS.iter().map(|(d, c)| (*d, c.to_vec())).collect();
    product(out, ctx, &full, false, "deviation-product");
    out.exhaustive.push("6 verbs x full product of the 8 deviation dimensions (5x2x7x4x4x2x5x5 = 56000 per verb)".into());
    // singles and pairs over all value sets, direct and through the wire route
    for wire in [false, true] {
        for (device, kind) in VERBS {
            let mut b = base(device, kind);
            b.wire = wire;
            one(out, ctx, &b, "deviation-none");
            for (i, (d1, c1s)) in DIMS.iter().enumerate() {
                for c1 in c1s.iter().skip(1) {
                    let mut r = base(device, kind);
                    r.wire = wire;
                    apply(&mut r, d1, c1);
                    one(out, ctx, &r, if wire { "deviation-single-wire" } else { "deviation-single" });
                    for (d2, c2s) in DIMS.iter().skip(i + 1) {
                        for c2 in c2s.iter().skip(1) {
                            let mut r = base(device, kind);
                            r.wire = wire;
                            apply(&mut r, d1, c1);
                            apply(&mut r, d2, c2);
                            one(out, ctx, &r, if wire { "deviation-pair-wire" } else { "deviation-pair" });
                        }
                    }
                }
            }
        }
    }
    out.exhaustive.push("6 verbs x every single and every pair of deviations over all value sets, direct and via topic+prost bytes".into());

    // (b) bdSeq
    let nb: u64 = if th { 65535 } else { 1023 };
    for (device, kind) in [(false, Kind::Birth), (false, Kind::Death)] {
        let mut vals: Vec<u64> = (0..=nb).collect();
        vals.extend([1 << 31, 1 << 32, (1 << 63) - 1, 1 << 63, (1 << 63) + 7, u64::MAX - 255, u64::MAX - 1, u64::MAX]);
        for v in vals {
            let mut r = base(device, kind);
            let i = bd_index(&r).unwrap();
            r.payload.metrics[i].value = Some(MV::LongValue(v));
            one(out, ctx, &r, "bdseq-long-value");
        }
        // wrong value variants
        for (variant, field) in [
            ("int", "7"), ("int", "0"), ("float", "1088421888"), ("double", "4619567317775286272"), ("bool", "1"), ("bool", "0"),
            ("str", "37"), ("str", "-"), ("bytes", "07"), ("bytes", "0700000000000000"), ("dataset", "-"), ("template", "t-"), ("template", "fr"), ("ext", "-"),
        ] {
            let mut r = base(device, kind);
            let i = bd_index(&r).unwrap();
            r.payload.metrics[i].value = Some(build_metric(variant, field).unwrap());
            one(out, ctx, &r, "bdseq-wrong-variant");
        }
        // position, and several bdSeq metrics: every sequence of length <= 3 over
        // {good, bad-range, bad-variant, no-value, other-name, no-name}
        let mk = |k: usize| -> Metric {
            match k {
                0 => bdseq_metric(9),
                1 => bdseq_metric(300),
                2 => {
                    let mut m = bdseq_metric(9);
                    m.value = Some(MV::IntValue(9));
                    m
                }
                3 => {
                    let mut m = bdseq_metric(9);
                    m.value = None;
                    m.is_null = Some(true);
                    m
                }
                4 => metric(Some("bdseq"), None, Some(5), Some(4), Some(MV::LongValue(11))),
                _ => metric(None, Some(1), Some(5), Some(4), Some(MV::LongValue(12))),
            }
        };
        for len in 0..=3usize {
            for code in 0..6usize.pow(len as u32) {
                let mut r = base(device, kind);
                let i = bd_index(&r).unwrap();
                r.payload.metrics.remove(i);
                let mut c = code;
                for _ in 0..len {
                    r.payload.metrics.push(mk(c % 6));
                    c /= 6;
                }
                one(out, ctx, &r, "bdseq-several");
            }
        }
    }
    out.exhaustive.push(format!("NBIRTH and NDEATH: bdSeq LongValue 0..={} + 8 boundary values; 14 other value variants; every sequence of <= 3 bdSeq-like metrics over 6 kinds", nb));

    // (c) seq for every verb
    let ns: u64 = if th { 4096 } else { 600 };
    for (device, kind) in VERBS {
        let mut vals: Vec<u64> = (0..=ns).collect();
        vals.extend([65535, 65536, 1 << 32, u64::MAX - 1, u64::MAX]);
        for v in vals {
            let mut r = base(device, kind);
            r.payload.seq = Some(v);
            one(out, ctx, &r, "seq-value");
        }
    }
    out.exhaustive.push(format!("6 verbs x seq 0..={} + 5 extremes", ns));

    // (d) datatype codes
    for (device, kind) in [(false, Kind::Birth), (true, Kind::Birth), (false, Kind::Data)] {
        let mut vals: Vec<u32> = (0..=300).collect();
        vals.extend([65535, 65536, i32::MAX as u32, i32::MAX as u32 + 1, u32::MAX]);
        for v in vals {
            let mut r = base(device, kind);
            let i = ut_index(&r).unwrap();
            r.payload.metrics[i].datatype = Some(v);
            one(out, ctx, &r, "datatype-code");
        }
    }
    out.exhaustive.push("NBIRTH, DBIRTH, NDATA: datatype codes 0..=300 + 5 extremes on one metric".into());

    // (e) property sets: every (keys, values) length pair up to 3 x per-value validity pattern
    for nk in 0..=3usize {
        for nv in 0..=3usize {
            for pat in 0..4usize.pow(nv as u32) {
                let mut r = base(true, Kind::Data);
                let i = ut_index(&r).unwrap();
                let mut c = pat;
                let values = (0..nv)
                    .map(|_| {
                        let k = c % 4;
                        c /= 4;
                        match k {
                            0 => PropertyValue { r#type: Some(3), is_null: None, value: Some(build_prop("int", "1")) },
                            1 => PropertyValue { r#type: None, is_null: Some(true), value: None },
                            2 => PropertyValue { r#type: Some(3), is_null: None, value: None },
                            _ => PropertyValue { r#type: Some(99), is_null: None, value: Some(build_prop("int", "1")) },
                        }
                    })
                    .collect();
                r.payload.metrics[i].properties =
                    Some(PropertySet { keys: (0..nk).map(|j| ["k", "k", "other"][j].to_string()).collect(), values });
                one(out, ctx, &r, "property-set");
            }
        }
    }
    out.exhaustive.push("DDATA: property sets with 0..=3 keys x 0..=3 values x 4 kinds of value (incl. duplicate keys)".into());

    // (f) random payloads at three densities, direct and wire
    let nrand = if th { 120000 } else { 12000 };
    for k in 0..nrand {
        let p = [15u64, 13, 8][k % 3];
        let wire = k % 5 == 4;
        let r = rand_req(&mut rng, p, wire);
        one(out, ctx, &r, if wire { "random-wire" } else { "random" });
        out.count(&format!("random:presence-{}/16", p));
    }
    RULE
}

pub fn replay(_desc: &str, lines: &[String], out: &mut Out) {
    let mut ctx = Ctx::new();
    out.begin_case("admit new", "ok");
    for l in lines {
        if l == "admit new" {
            continue;
        }
        let a = exec(l, out, &mut ctx);
        out.line(l, &a);
    }
    out.nontrivial();
}

// ------------------------------------------------------------------------------------------
// T-table
// ------------------------------------------------------------------------------------------
fn lean_bytes(b: &[u8]) -> String {
    format!("[{}]", b.iter().map(|x| format!("0x{:02x}", x)).collect::<Vec<_>>().join(", "))
}
fn lean_opt<T>(o: &Option<T>, f: impl Fn(&T) -> String) -> String {
    match o {
        Some(x) => format!("some {}", f(x)),
        None => "none".into(),
    }
}
fn lean_ob(o: &Option<bool>) -> String {
    lean_opt(o, |b| b.to_string())
}
fn lean_pv(tok: &str) -> String {
    // "<variant> <field>" as printed by show_metric / show_prop (with ' ' for '.')
    let (variant, field) = tok.split_once(' ').unwrap();
    match variant {
        "int" | "long" | "float" | "double" => format!("(PV.{} {})", variant, field),
        "bool" => format!("(PV.bool {})", field == "1"),
        "str" => format!("(PV.str {})", lean_bytes(&unhex(field))),
        "bytes" => format!("(PV.bytes {})", lean_bytes(&unhex(field))),
        "dataset" => "PV.dataset".into(),
        "ext" => "PV.ext".into(),
        "pset" => "PV.pset".into(),
        "psets" => "PV.psets".into(),
        "template" => {
            let b = field.as_bytes();
            format!(
                "(PV.template {} {})",
                match b[0] {
                    b'n' => "none",
                    b't' => "(some true)",
                    _ => "(some false)",
                },
                b[1] == b'r'
            )
        }
        _ => panic!(),
    }
}
fn lean_metric(m: &Metric) -> String {
    format!(
        "⟨{}, {}, {}, {}, {}, {}, {}, {}, {}, {}⟩",
        lean_opt(&m.name, |s| lean_bytes(s.as_bytes())),
        lean_opt(&m.alias, |x| x.to_string()),
        lean_opt(&m.timestamp, |x| x.to_string()),
        lean_opt(&m.datatype, |x| x.to_string()),
        lean_ob(&m.is_historical),
        lean_ob(&m.is_transient),
        lean_ob(&m.is_null),
        match &m.metadata {
            Some(_) => format!("some \"{}\"", show_meta(&m.metadata)),
            None => "none".into(),
        },
        lean_opt(&m.properties, |ps| format!(
            "⟨[{}], [{}]⟩",
            ps.keys.iter().map(|k| lean_bytes(k.as_bytes())).collect::<Vec<_>>().join(", "),
            ps.values
                .iter()
                .map(|v| format!(
                    "⟨{}, {}, {}⟩",
                    lean_opt(&v.r#type, |x| x.to_string()),
                    lean_ob(&v.is_null),
                    lean_opt(&v.value, |x| lean_pv(&show_prop(x).replace('.', " ")))
                ))
                .collect::<Vec<_>>()
                .join(", ")
        )),
        lean_opt(&m.value, |v| lean_pv(&show_metric(v)))
    )
}
/// metrics are emitted once as named definitions `m<k>` and referenced from the rows
fn lean_payload(p: &Payload, defs: &mut Vec<String>) -> String {
    let mut name = |m: &Metric| -> String {
        let lit = lean_metric(m);
        let k = match defs.iter().position(|d| *d == lit) {
            Some(k) => k,
            None => {
                defs.push(lit);
                defs.len() - 1
            }
        };
        format!("m{}", k)
    };
    format!(
        "⟨{}, [{}], {}, {}, {}⟩",
        lean_opt(&p.timestamp, |x| x.to_string()),
        p.metrics.iter().map(|m| name(m)).collect::<Vec<_>>().join(", "),
        lean_opt(&p.seq, |x| x.to_string()),
        lean_opt(&p.uuid, |s| lean_bytes(s.as_bytes())),
        lean_opt(&p.body, |b| lean_bytes(b))
    )
}
fn lean_shape(ans: &str) -> String {
    if ans.starts_with("node ") || ans.starts_with("device ") {
        return "Shape.admitted".into();
    }
    if ans == "none" {
        return "Shape.silent".into();
    }
    let e = ans.rsplit(' ').next().unwrap();
    let pe = match e {
        "missing-seq" => "PErr.missingSeq".to_string(),
        "invalid-seq" => "PErr.invalidSeq".to_string(),
        "invalid-bdseq" => "PErr.invalidBdseq".to_string(),
        "missing-timestamp" => "PErr.missingTimestamp".to_string(),
        m => format!(
            "(PErr.metric MErr.{})",
            match m {
                "metric:missing-timestamp" => "missingTimestamp",
                "metric:missing-datatype" => "missingDatatype",
                "metric:invalid-datatype" => "invalidDatatype",
                "metric:missing-name" => "missingName",
                "metric:not-null-no-value" => "notNullNoValue",
                "metric:invalid-properties" => "invalidProperties",
                x => panic!("table: unexpected answer {}", x),
            }
        ),
    };
    format!("(Shape.invalid {})", pe)
}

/// T-table `AdmitTable`: verb x (valid message, every single deviation, every pair of
/// deviations) -> what the compiled `AppEventLoop::poll` made of it.
pub fn table_admit() -> String {
    let mut ctx = Ctx::new();
    let sink_dir = std::env::temp_dir().join(format!("srad-verif-table-{}", std::process::id()));
    let mut sink = Out::new(&sink_dir);
    let mut rows: Vec<String> = vec![];
    let mut defs: Vec<String> = vec![];
    let mut seen = std::collections::HashSet::new();
    let mut add = |r: &Req, ctx: &mut Ctx, sink: &mut Out| {
        let op = r.op();
        if !seen.insert(op.clone()) {
            return;
        }
        let ans = exec(&op, sink, ctx);
        rows.push(format!(
            "  ({}, Kind.{}, {}, {})",
            r.device.is_some(),
            r.kind.tok(),
            lean_payload(&r.payload, &mut defs),
            lean_shape(&ans)
        ));
    };
    let mut kinds: Vec<(bool, Kind)> = VERBS.to_vec();
    kinds.extend([(false, Kind::Cmd), (false, Kind::Other), (true, Kind::Cmd), (true, Kind::Other)]);
    for (device, kind) in kinds {
        // unsupported verbs carry the payload of the corresponding DATA message
        let mk = || {
            let mut r = base(device, if matches!(kind, Kind::Cmd | Kind::Other) { Kind::Data } else { kind });
            r.kind = kind;
            r.group = "g".into();
            r.node = "n".into();
            if device {
                r.device = Some("d".into());
            }
            r
        };
        add(&mk(), &mut ctx, &mut sink);
        for (i, (d1, c1s)) in DIMS.iter().enumerate() {
            for c1 in c1s.iter().skip(1) {
                let mut r = mk();
                apply(&mut r, d1, c1);
                add(&r, &mut ctx, &mut sink);
                if matches!(kind, Kind::Cmd | Kind::Other) {
                    continue;
                }
                for (d2, c2s) in DIMS.iter().skip(i + 1) {
                    for c2 in c2s.iter().skip(1) {
                        let mut r = mk();
                        apply(&mut r, d1, c1);
                        apply(&mut r, d2, c2);
                        add(&r, &mut ctx, &mut sink);
                    }
                }
            }
        }
    }
    let mut s = String::from("-- GENERATED by `srad-verif table AdmitTable` from the compiled srad-app; do not edit.\n-- rows: (device-level?, verb, payload, what AppEventLoop::poll made of the message)\nimport SradModel.Model.Admit\nnamespace Srad.Generated\nopen Srad.Codec Srad.Admit\n\n");
    for (k, d) in defs.iter().enumerate() {
        s.push_str(&format!("def m{} : Metric := {}\n", k, d));
    }
    s.push_str("\ndef admitTable : List (Bool × Kind × Payload × Shape) := [\n");
    s.push_str(&rows.join(",\n"));
    s.push_str("\n]\n\nend Srad.Generated\n");
    drop(sink);
    let _ = std::fs::remove_dir_all(&sink_dir);
    s
}
