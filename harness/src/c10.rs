//! Component `codec` (C10, C19): value codecs of srad-types/src/value.rs through the public
//! conversions. Ops (one per line):
//!   codec new
//!   codec sc    <ty> <w> <val>               value -> wrapper -> value   (w: m|p|d|a)
//!   codec scdec <ty> <w> <variant> <field>   wrapper -> value, any variant
//!   codec aenc  <el> <vals>                  Vec<el> -> MetricValue bytes
//!   codec adec  <el> <hex>                   BytesValue -> Vec<el>
//!   codec kind  <dtcode> <variant> <field>   MetricValueKind::try_from_metric_value
//! Numbers travel as bit patterns (decimal), floats as IEEE bits, strings/bytes as hex.
use crate::common::*;
use srad_types::payload::{
    data_set::data_set_value, metric, property_value, template::parameter, DataSet, DataType,
    PropertySet, PropertySetList, Template,
};
use srad_types::{
    DataSetValue, DateTime, FromValueTypeError, MetricValue, MetricValueKind, ParameterValue,
    PropertyValue,
};

pub const SCALARS: [&str; 13] = [
    "bool", "u8", "u16", "u32", "u64", "i8", "i16", "i32", "i64", "f32", "f64", "string", "datetime",
];
pub const ELEMS: [&str; 13] = [
    "bool", "u8", "u16", "u32", "u64", "i8", "i16", "i32", "i64", "f32", "f64", "string", "datetime",
];

fn verr(e: &FromValueTypeError) -> &'static str {
    match e {
        FromValueTypeError::ArrayDecodeError(b) => berr(b),
        FromValueTypeError::InvalidVariantType => "variant",
        FromValueTypeError::InvalidValue(_) => "value",
    }
}
fn berr(e: &srad_types::FromBytesError) -> &'static str {
    match e {
        srad_types::FromBytesError::InvalidFormat => "fmt",
        srad_types::FromBytesError::InvalidSize => "size",
        srad_types::FromBytesError::BadStringElement(_) => "utf8",
    }
}

// ---- showing / building the four wrapper kinds ----
pub fn show_metric(v: &metric::Value) -> String {
    match v {
        metric::Value::IntValue(x) => format!("int {}", x),
        metric::Value::LongValue(x) => format!("long {}", x),
        metric::Value::FloatValue(x) => format!("float {}", x.to_bits()),
        metric::Value::DoubleValue(x) => format!("double {}", x.to_bits()),
        metric::Value::BooleanValue(x) => format!("bool {}", *x as u8),
        metric::Value::StringValue(x) => format!("str {}", hex(x.as_bytes())),
        metric::Value::BytesValue(x) => format!("bytes {}", hex(x)),
        metric::Value::DatasetValue(_) => "dataset -".into(),
        metric::Value::TemplateValue(t) => format!(
            "template {}{}",
            match t.is_definition {
                None => "n",
                Some(true) => "t",
                Some(false) => "f",
            },
            if t.template_ref.is_some() { "r" } else { "-" }
        ),
        metric::Value::ExtensionValue(_) => "ext -".into(),
    }
}
fn show_prop(v: &property_value::Value) -> String {
    match v {
        property_value::Value::IntValue(x) => format!("int {}", x),
        property_value::Value::LongValue(x) => format!("long {}", x),
        property_value::Value::FloatValue(x) => format!("float {}", x.to_bits()),
        property_value::Value::DoubleValue(x) => format!("double {}", x.to_bits()),
        property_value::Value::BooleanValue(x) => format!("bool {}", *x as u8),
        property_value::Value::StringValue(x) => format!("str {}", hex(x.as_bytes())),
        property_value::Value::PropertysetValue(_) => "pset -".into(),
        property_value::Value::PropertysetsValue(_) => "psets -".into(),
        property_value::Value::ExtensionValue(_) => "ext -".into(),
    }
}
fn show_ds(v: &data_set_value::Value) -> String {
    match v {
        data_set_value::Value::IntValue(x) => format!("int {}", x),
        data_set_value::Value::LongValue(x) => format!("long {}", x),
        data_set_value::Value::FloatValue(x) => format!("float {}", x.to_bits()),
        data_set_value::Value::DoubleValue(x) => format!("double {}", x.to_bits()),
        data_set_value::Value::BooleanValue(x) => format!("bool {}", *x as u8),
        data_set_value::Value::StringValue(x) => format!("str {}", hex(x.as_bytes())),
        data_set_value::Value::ExtensionValue(_) => "ext -".into(),
    }
}
fn show_par(v: &parameter::Value) -> String {
    match v {
        parameter::Value::IntValue(x) => format!("int {}", x),
        parameter::Value::LongValue(x) => format!("long {}", x),
        parameter::Value::FloatValue(x) => format!("float {}", x.to_bits()),
        parameter::Value::DoubleValue(x) => format!("double {}", x.to_bits()),
        parameter::Value::BooleanValue(x) => format!("bool {}", *x as u8),
        parameter::Value::StringValue(x) => format!("str {}", hex(x.as_bytes())),
        parameter::Value::ExtensionValue(_) => "ext -".into(),
    }
}

fn utf8(hexs: &str) -> String {
    String::from_utf8(unhex(hexs)).expect("harness generates valid UTF-8 for string fields")
}

pub fn build_metric(variant: &str, field: &str) -> Option<metric::Value> {
    Some(match variant {
        "int" => metric::Value::IntValue(field.parse().ok()?),
        "long" => metric::Value::LongValue(field.parse().ok()?),
        "float" => metric::Value::FloatValue(f32::from_bits(field.parse().ok()?)),
        "double" => metric::Value::DoubleValue(f64::from_bits(field.parse().ok()?)),
        "bool" => metric::Value::BooleanValue(field == "1"),
        "str" => metric::Value::StringValue(utf8(field)),
        "bytes" => metric::Value::BytesValue(unhex(field)),
        "dataset" => metric::Value::DatasetValue(DataSet {
            num_of_columns: Some(0),
            columns: vec![],
            types: vec![],
            rows: vec![],
        }),
        "template" => {
            let b = field.as_bytes();
            metric::Value::TemplateValue(Template {
                version: None,
                metrics: vec![],
                parameters: vec![],
                template_ref: if b[1] == b'r' { Some("ref".into()) } else { None },
                is_definition: match b[0] {
                    b'n' => None,
                    b't' => Some(true),
                    _ => Some(false),
                },
            })
        }
        "ext" => metric::Value::ExtensionValue(Default::default()),
        _ => return None,
    })
}
fn build_prop(variant: &str, field: &str) -> Option<property_value::Value> {
    Some(match variant {
        "int" => property_value::Value::IntValue(field.parse().ok()?),
        "long" => property_value::Value::LongValue(field.parse().ok()?),
        "float" => property_value::Value::FloatValue(f32::from_bits(field.parse().ok()?)),
        "double" => property_value::Value::DoubleValue(f64::from_bits(field.parse().ok()?)),
        "bool" => property_value::Value::BooleanValue(field == "1"),
        "str" => property_value::Value::StringValue(utf8(field)),
        "pset" => property_value::Value::PropertysetValue(PropertySet {
            keys: vec![],
            values: vec![],
        }),
        "psets" => property_value::Value::PropertysetsValue(PropertySetList { propertyset: vec![] }),
        "ext" => property_value::Value::ExtensionValue(Default::default()),
        _ => return None,
    })
}
fn build_ds(variant: &str, field: &str) -> Option<data_set_value::Value> {
    Some(match variant {
        "int" => data_set_value::Value::IntValue(field.parse().ok()?),
        "long" => data_set_value::Value::LongValue(field.parse().ok()?),
        "float" => data_set_value::Value::FloatValue(f32::from_bits(field.parse().ok()?)),
        "double" => data_set_value::Value::DoubleValue(f64::from_bits(field.parse().ok()?)),
        "bool" => data_set_value::Value::BooleanValue(field == "1"),
        "str" => data_set_value::Value::StringValue(utf8(field)),
        "ext" => data_set_value::Value::ExtensionValue(Default::default()),
        _ => return None,
    })
}
fn build_par(variant: &str, field: &str) -> Option<parameter::Value> {
    Some(match variant {
        "int" => parameter::Value::IntValue(field.parse().ok()?),
        "long" => parameter::Value::LongValue(field.parse().ok()?),
        "float" => parameter::Value::FloatValue(f32::from_bits(field.parse().ok()?)),
        "double" => parameter::Value::DoubleValue(f64::from_bits(field.parse().ok()?)),
        "bool" => parameter::Value::BooleanValue(field == "1"),
        "str" => parameter::Value::StringValue(utf8(field)),
        "ext" => parameter::Value::ExtensionValue(Default::default()),
        _ => return None,
    })
}

// ---- scalar types as bit patterns ----
trait Bits: Sized {
    fn from_tok(s: &str) -> Self;
    fn to_tok(&self) -> String;
}
macro_rules! bits_int {
    ($t:ty, $u:ty) => {
        impl Bits for $t {
            fn from_tok(s: &str) -> Self {
                s.parse::<$u>().unwrap() as $t
            }
            fn to_tok(&self) -> String {
                format!("n:{}", *self as $u)
            }
        }
    };
}
bits_int!(u8, u8);
bits_int!(u16, u16);
bits_int!(u32, u32);
bits_int!(u64, u64);
bits_int!(i8, u8);
bits_int!(i16, u16);
bits_int!(i32, u32);
bits_int!(i64, u64);
impl Bits for f32 {
    fn from_tok(s: &str) -> Self {
        f32::from_bits(s.parse().unwrap())
    }
    fn to_tok(&self) -> String {
        format!("n:{}", self.to_bits())
    }
}
impl Bits for f64 {
    fn from_tok(s: &str) -> Self {
        f64::from_bits(s.parse().unwrap())
    }
    fn to_tok(&self) -> String {
        format!("n:{}", self.to_bits())
    }
}
impl Bits for bool {
    fn from_tok(s: &str) -> Self {
        s == "1"
    }
    fn to_tok(&self) -> String {
        format!("b:{}", *self as u8)
    }
}
impl Bits for String {
    fn from_tok(s: &str) -> Self {
        utf8(s)
    }
    fn to_tok(&self) -> String {
        format!("s:{}", hex(self.as_bytes()))
    }
}
impl Bits for DateTime {
    fn from_tok(s: &str) -> Self {
        DateTime::new(s.parse().unwrap())
    }
    fn to_tok(&self) -> String {
        format!("n:{}", self.date_time)
    }
}

fn res_tok<T: Bits>(r: Result<T, FromValueTypeError>) -> String {
    match r {
        Ok(v) => format!("ok {}", v.to_tok()),
        Err(e) => format!("err {}", verr(&e)),
    }
}

/// value -> wrapper (shown) -> value
fn sc<T>(w: &str, val: &str) -> String
where
    T: Bits
        + Clone
        + Into<MetricValue>
        + Into<PropertyValue>
        + Into<DataSetValue>
        + Into<ParameterValue>
        + TryFrom<MetricValue, Error = FromValueTypeError>
        + TryFrom<PropertyValue, Error = FromValueTypeError>
        + TryFrom<DataSetValue, Error = FromValueTypeError>
        + TryFrom<ParameterValue, Error = FromValueTypeError>,
{
    let v = T::from_tok(val);
    match w {
        "m" => {
            let x: MetricValue = v.into();
            let shown = show_metric(&x.0);
            format!("{} => {}", shown, res_tok(T::try_from(x)))
        }
        "p" => {
            let x: PropertyValue = v.into();
            let shown = show_prop(&x.0);
            format!("{} => {}", shown, res_tok(T::try_from(x)))
        }
        "d" => {
            let x: DataSetValue = v.into();
            let shown = show_ds(&x.0);
            format!("{} => {}", shown, res_tok(T::try_from(x)))
        }
        _ => {
            let x: ParameterValue = v.into();
            let shown = show_par(&x.0);
            format!("{} => {}", shown, res_tok(T::try_from(x)))
        }
    }
}

fn scdec<T>(w: &str, variant: &str, field: &str) -> String
where
    T: Bits
        + TryFrom<MetricValue, Error = FromValueTypeError>
        + TryFrom<PropertyValue, Error = FromValueTypeError>
        + TryFrom<DataSetValue, Error = FromValueTypeError>
        + TryFrom<ParameterValue, Error = FromValueTypeError>,
{
    match w {
        "m" => res_tok(T::try_from(MetricValue(build_metric(variant, field).unwrap()))),
        "p" => res_tok(T::try_from(PropertyValue(build_prop(variant, field).unwrap()))),
        "d" => res_tok(T::try_from(DataSetValue(build_ds(variant, field).unwrap()))),
        _ => res_tok(T::try_from(ParameterValue(build_par(variant, field).unwrap()))),
    }
}

macro_rules! by_scalar {
    ($ty:expr, $f:ident, $($a:expr),*) => {
        match $ty {
            "bool" => $f::<bool>($($a),*),
            "u8" => $f::<u8>($($a),*),
            "u16" => $f::<u16>($($a),*),
            "u32" => $f::<u32>($($a),*),
            "u64" => $f::<u64>($($a),*),
            "i8" => $f::<i8>($($a),*),
            "i16" => $f::<i16>($($a),*),
            "i32" => $f::<i32>($($a),*),
            "i64" => $f::<i64>($($a),*),
            "f32" => $f::<f32>($($a),*),
            "f64" => $f::<f64>($($a),*),
            "string" => $f::<String>($($a),*),
            "datetime" => $f::<DateTime>($($a),*),
            _ => panic!("bad scalar type"),
        }
    };
}

// ---- arrays ----
fn list_tok<T: Bits>(v: &[T]) -> String {
    let mut s = String::from("[");
    for (i, x) in v.iter().enumerate() {
        if i > 0 {
            s.push(',');
        }
        let t = x.to_tok();
        s.push_str(&t[2..]);
    }
    s.push(']');
    s
}

fn parse_list<T: Bits>(vals: &str) -> Vec<T> {
    if vals == "_" {
        return vec![];
    }
    vals.split(',').map(|x| T::from_tok(x)).collect()
}

fn aenc<T>(vals: &str) -> String
where
    T: Bits,
    Vec<T>: Into<MetricValue>,
{
    let v: Vec<T> = parse_list(vals);
    let mv: MetricValue = v.into();
    show_metric(&mv.0)
}

/// returns (answer, Some((decoded len, capacity, reencode-fixpoint ok)))
fn adec<T>(bytes: Vec<u8>) -> (String, Option<(usize, usize, bool)>)
where
    T: Bits + Clone + PartialEq,
    Vec<T>: Into<MetricValue> + TryFrom<MetricValue, Error = FromValueTypeError>,
{
    let r = catch(move || Vec::<T>::try_from(MetricValue(metric::Value::BytesValue(bytes))));
    match r {
        Err(_) => ("panic".into(), None),
        Ok(Err(e)) => (format!("err {}", verr(&e)), None),
        Ok(Ok(v)) => {
            let cap = v.capacity();
            let n = v.len();
            let ans = format!("ok {}", list_tok(&v));
            let again: MetricValue = v.clone().into();
            // compared as bit patterns (NaN != NaN under PartialEq)
            let fix = match catch(move || Vec::<T>::try_from(again)) {
                Ok(Ok(v2)) => list_tok(&v2) == list_tok(&v),
                _ => false,
            };
            (ans, Some((n, cap, fix)))
        }
    }
}

macro_rules! by_elem {
    ($ty:expr, $f:ident, $($a:expr),*) => {
        match $ty {
            "bool" => $f::<bool>($($a),*),
            "u8" => $f::<u8>($($a),*),
            "u16" => $f::<u16>($($a),*),
            "u32" => $f::<u32>($($a),*),
            "u64" => $f::<u64>($($a),*),
            "i8" => $f::<i8>($($a),*),
            "i16" => $f::<i16>($($a),*),
            "i32" => $f::<i32>($($a),*),
            "i64" => $f::<i64>($($a),*),
            "f32" => $f::<f32>($($a),*),
            "f64" => $f::<f64>($($a),*),
            "string" => $f::<String>($($a),*),
            "datetime" => $f::<DateTime>($($a),*),
            _ => panic!("bad element type"),
        }
    };
}

fn elem_width(el: &str) -> usize {
    match el {
        "u8" | "i8" => 1,
        "u16" | "i16" => 2,
        "u32" | "i32" | "f32" => 4,
        "u64" | "i64" | "f64" | "datetime" => 8,
        _ => 0,
    }
}

pub fn kind_name(k: &MetricValueKind) -> String {
    let s = format!("{:?}", k);
    s.split(|c| c == '(' || c == ' ' || c == '{').next().unwrap().to_string()
}

fn kind_value(k: &MetricValueKind) -> String {
    use MetricValueKind::*;
    match k {
        Int8(x) => x.to_tok(),
        Int16(x) => x.to_tok(),
        Int32(x) => x.to_tok(),
        Int64(x) => x.to_tok(),
        UInt8(x) => x.to_tok(),
        UInt16(x) => x.to_tok(),
        UInt32(x) => x.to_tok(),
        UInt64(x) => x.to_tok(),
        Float(x) => x.to_tok(),
        Double(x) => x.to_tok(),
        Boolean(x) => x.to_tok(),
        String(x) | Text(x) | Uuid(x) => x.to_tok(),
        DateTime(x) => x.to_tok(),
        DataSet(_) => "dataset".into(),
        Bytes(x) | File(x) | UInt8Array(x) => format!("raw:{}", hex(x)),
        Template(srad_types::TemplateValue::Definition(_)) => "templdef".into(),
        Template(srad_types::TemplateValue::Instance(_)) => "templinst".into(),
        Int8Array(x) => list_tok(x),
        Int16Array(x) => list_tok(x),
        Int32Array(x) => list_tok(x),
        Int64Array(x) => list_tok(x),
        UInt16Array(x) => list_tok(x),
        UInt32Array(x) => list_tok(x),
        UInt64Array(x) => list_tok(x),
        FloatArray(x) => list_tok(x),
        DoubleArray(x) => list_tok(x),
        BooleanArray(x) => list_tok(x),
        StringArray(x) => list_tok(x),
        DateTimeArray(x) => list_tok(x),
    }
}

pub fn dt_name(code: u32) -> String {
    match DataType::try_from(code) {
        Ok(d) => format!("{:?}", d),
        Err(_) => "?".into(),
    }
}

fn kind(dtcode: u32, variant: &str, field: &str) -> (String, Option<String>) {
    let dt = DataType::try_from(dtcode).unwrap();
    let mv = MetricValue(build_metric(variant, field).unwrap());
    match catch(move || MetricValueKind::try_from_metric_value(dt, mv)) {
        Err(_) => ("panic".into(), None),
        Ok(Err(e)) => {
            use srad_types::FromMetricValueError::*;
            let c = match &e {
                ValueDecodeError(v) => verr(v),
                UnsupportedDataType(_) => "unsupported",
                InvalidDataType => "datatype",
            };
            (format!("err {}", c), None)
        }
        Ok(Ok(k)) => {
            let name = kind_name(&k);
            (format!("ok {} {}", name, kind_value(&k)), Some(name))
        }
    }
}

/// the Sparkplug B datatype names by wire code (the specification's table, written out here on purpose:
/// independent of `DataType::try_from(u32)`), in the spelling of `MetricValueKind`'s variants
const SPEC_DT_NAMES: [&str; 35] = [
    "Unknown", "Int8", "Int16", "Int32", "Int64", "UInt8", "UInt16", "UInt32", "UInt64", "Float", "Double", "Boolean",
    "String", "DateTime", "Text", "Uuid", "DataSet", "Bytes", "File", "Template", "PropertySet", "PropertySetList",
    "Int8Array", "Int16Array", "Int32Array", "Int64Array", "UInt8Array", "UInt16Array", "UInt32Array", "UInt64Array",
    "FloatArray", "DoubleArray", "BooleanArray", "StringArray", "DateTimeArray",
];

/// (wire code of a datatype a Rust type supports, protobuf value variant srad's own ENCODER writes for that
/// type): the variant a declared datatype goes with, read off the encoder, not off the decoder under test
fn encoder_variant_table() -> Vec<(u32, String)> {
    use srad_types::traits::HasDataType;
    let mut v = vec![];
    macro_rules! rows {
        ($t:ty, $sample:expr) => {{
            let mv: MetricValue = ($sample).into();
            let variant = show_metric(&mv.0).split(' ').next().unwrap().to_string();
            for dt in <$t as HasDataType>::supported_datatypes() {
                v.push((*dt as u32, variant.clone()));
            }
        }};
    }
    rows!(i8, 1i8);
    rows!(i16, 1i16);
    rows!(i32, 1i32);
    rows!(i64, 1i64);
    rows!(u8, 1u8);
    rows!(u16, 1u16);
    rows!(u32, 1u32);
    rows!(u64, 1u64);
    rows!(f32, 1f32);
    rows!(f64, 1f64);
    rows!(bool, true);
    rows!(String, String::from("a"));
    rows!(srad_types::DateTime, srad_types::DateTime::new(1));
    v
}

/// Execute one op on the implementation; oracle clauses are evaluated here.
pub fn exec(op: &str, out: &mut Out) -> String {
    let _crumb = crate::common::crumb::guard(op);
    let w: Vec<&str> = op.split(' ').collect();
    match w.as_slice() {
        ["codec", "new"] => "ok".into(),
        ["codec", "sc", ty, wk, val] => {
            let a = by_scalar!(*ty, sc, wk, val);
            // oracle C10: round trip yields the identical value
            let want = match *ty {
                "bool" => format!("ok b:{}", val),
                "string" => format!("ok s:{}", val),
                _ => format!("ok n:{}", val),
            };
            if !a.ends_with(&format!("=> {}", want)) {
                out.fail("C10:scalar-roundtrip", ty, format!("{} -> {}", op, a));
            }
            a
        }
        ["codec", "scdec", ty, wk, variant, field] => by_scalar!(*ty, scdec, wk, variant, field),
        ["codec", "aenc", el, vals] => by_elem!(*el, aenc, vals),
        ["codec", "adec", el, hx] => {
            let bytes = unhex(hx);
            let blen = bytes.len();
            let declared_bool = if blen >= 4 {
                Some(u32::from_le_bytes([bytes[0], bytes[1], bytes[2], bytes[3]]) as usize)
            } else {
                None
            };
            let zeros = bytes.iter().filter(|b| **b == 0).count();
            let (a, info) = by_elem!(*el, adec, bytes);
            if a == "panic" {
                out.fail("C19:no-panic", el, format!("{} panicked", op));
            }
            if let Some((n, cap, fix)) = info {
                let declared = match *el {
                    "bool" => declared_bool.unwrap_or(0),
                    "string" => zeros,
                    e => blen / elem_width(e),
                };
                if n != declared {
                    out.fail(
                        "C19:length-exact",
                        el,
                        format!("{}: decoded {} elements, encoding declares {}", op, n, declared),
                    );
                }
                if !fix {
                    out.fail("C19:reencode-fixpoint", el, format!("{}: re-encoding does not decode to the same array", op));
                }
                if cap > 8 * blen + 64 {
                    out.fail("C19:alloc-bound", el, format!("{}: capacity {} for {} input bytes", op, cap, blen));
                }
            }
            a
        }
        ["codec", "dsval", h] => {
            // a DataSet metric value of ANY structure (content is not modelled: the model answers `ok`; the
            // line exists so that the request replays): datatype-directed decoding must end in a value or an
            // error, without a panic and without reserving memory out of proportion to the input
            use prost::Message as _;
            let bytes = unhex(h);
            if let Ok(ds) = DataSet::decode(bytes.as_slice()) {
                let mv = MetricValue(metric::Value::DatasetValue(ds));
                let (r, max_req, _sum) = crate::common::crumb::watch(|| catch(move || MetricValueKind::try_from_metric_value(DataType::DataSet, mv).is_ok()));
                match r {
                    Err(m) => out.fail("C19:no-panic", "dataset", format!("{} panicked: {}", op, m)),
                    Ok(okv) => out.count(if okv { "dsval:value" } else { "dsval:error" }),
                }
                if max_req > (1 << 20) + 64 * bytes.len() {
                    out.fail("C19:alloc-bound", "dataset", format!("{}: a single allocation of {} bytes for {} input bytes", op, max_req, bytes.len()));
                }
            }
            "ok".into()
        }
        ["codec", "kind", dt, variant, field] => {
            let code: u32 = dt.parse().unwrap();
            let ((a, name), max_req, _sum) = crate::common::crumb::watch(|| kind(code, variant, field));
            if max_req > (1 << 20) + 64 * op.len() {
                out.fail("C19:alloc-bound", "kind", format!("{}: a single allocation of {} bytes", op, max_req));
            }
            if a == "panic" {
                out.fail("C19:no-panic", "kind", format!("{} panicked", op));
            }
            // a value of the variant the encoder writes for this declared datatype decodes, and to the variant
            // the SPECIFICATION names for that wire code
            if (code as usize) < SPEC_DT_NAMES.len() && encoder_variant_table().iter().any(|(c, v)| *c == code && v == variant) {
                let want = SPEC_DT_NAMES[code as usize];
                if name.as_deref() != Some(want) && !(a.starts_with("err") && *variant == "str" && code != 12 && code != 14 && code != 15) {
                    out.fail(
                        "C10:kind-named-by-datatype",
                        want,
                        format!("{}: declared datatype {} ({}) with the value variant its encoder writes decoded to {}", op, code, want, a),
                    );
                }
            }
            if let Some(n) = name {
                if n != dt_name(code) {
                    out.fail(
                        "C10:kind-named-by-datatype",
                        &dt_name(code),
                        format!("{}: datatype {} decoded to variant {}", op, dt_name(code), n),
                    );
                }
            }
            a
        }
        _ => panic!("bad op {}", op),
    }
}

fn line(out: &mut Out, op: &str) -> String {
    let a = exec(op, out);
    out.line(op, &a);
    a
}

fn case(out: &mut Out, ops: &[String], nontrivial: bool, stat: &str) {
    out.begin_case("codec new", "ok");
    for o in ops {
        line(out, o);
    }
    if nontrivial {
        out.nontrivial();
    }
    out.count(stat);
}

fn mask(ty: &str) -> u64 {
    match elem_width(ty) {
        1 => 0xFF,
        2 => 0xFFFF,
        4 => 0xFFFF_FFFF,
        _ => u64::MAX,
    }
}

fn interesting_bits(ty: &str, rng: &mut Rng) -> Vec<u64> {
    let m = mask(ty);
    let mut v: Vec<u64> = vec![0, 1, 2, 0x7F, 0x80, 0xFF, 0x100, 0x7FFF, 0x8000, 0xFFFF, 0x10000,
        0x7FFF_FFFF, 0x8000_0000, 0xFFFF_FFFF, 0x1_0000_0000, 0x7FFF_FFFF_FFFF_FFFF,
        0x8000_0000_0000_0000, u64::MAX, u64::MAX - 1];
    if ty == "f32" {
        v.extend([0x7F80_0000u64, 0xFF80_0000, 0x7FC0_0000, 0x7FC0_0001, 0xFFC1_2345, 0x7F80_0001,
            0x8000_0000, 0x0000_0001, 0x007F_FFFF, 0x3F80_0000]);
    }
    if ty == "f64" {
        v.extend([0x7FF0_0000_0000_0000u64, 0xFFF0_0000_0000_0000, 0x7FF8_0000_0000_0000,
            0x7FF8_0000_0000_0001, 0xFFF8_1234_5678_9ABC, 0x7FF0_0000_0000_0001,
            0x8000_0000_0000_0000, 1, 0x000F_FFFF_FFFF_FFFF, 0x3FF0_0000_0000_0000]);
    }
    for _ in 0..40 {
        v.push(rng.next());
    }
    let mut v: Vec<u64> = v.into_iter().map(|x| x & m).collect();
    v.sort();
    v.dedup();
    v
}

pub fn random_string(rng: &mut Rng, allow_nul: bool) -> String {
    let n = rng.below(12);
    let mut s = String::new();
    for _ in 0..n {
        let c = match rng.below(10) {
            0..=4 => rng.range(0x20, 0x7E) as u32,
            5 => rng.range(0x80, 0x7FF) as u32,
            6 => rng.range(0x800, 0xFFFF) as u32,
            7 => rng.range(0x10000, 0x10FFFF) as u32,
            8 => *rng.pick(&['/' as u32, '+' as u32, '#' as u32, ' ' as u32, 0x7F]),
            _ => {
                if allow_nul {
                    0
                } else {
                    1
                }
            }
        };
        if let Some(ch) = char::from_u32(c) {
            if ch != '\0' || allow_nul {
                s.push(ch);
            }
        }
    }
    s
}

fn vals_tok(el: &str, n: usize, rng: &mut Rng) -> String {
    if n == 0 {
        return "_".into();
    }
    let mut parts = Vec::with_capacity(n);
    for _ in 0..n {
        parts.push(match el {
            "bool" => format!("{}", rng.below(2)),
            "string" => hex(random_string(rng, false).as_bytes()),
            e => {
                let m = mask(e);
                let x = if rng.chance(1, 4) {
                    *rng.pick(&[0u64, 1, 0x7F, 0x80, 0xFF, 0x7FFF, 0x8000, 0xFFFF, u64::MAX, 0x7FC0_0000, 0x7FF8_0000_0000_0001])
                } else {
                    rng.next()
                };
                format!("{}", x & m)
            }
        });
    }
    parts.join(",")
}

/// aenc then adec of the produced bytes; oracle C10 array round trip
fn array_roundtrip_case(out: &mut Out, el: &str, vals: &str, stat: &str) {
    out.begin_case("codec new", "ok");
    out.set_desc(format!("rt {} {}", el, vals));
    let enc = line(out, &format!("codec aenc {} {}", el, vals));
    let hx = enc.strip_prefix("bytes ").unwrap_or("-").to_string();
    let dec = line(out, &format!("codec adec {} {}", el, hx));
    let want = format!("ok [{}]", if vals == "_" { "" } else { vals });
    if dec != want {
        out.fail(
            "C10:array-roundtrip",
            el,
            format!("aenc {} {} -> {} -> {}", el, vals, enc, dec),
        );
    }
    // spec'd encoded form, recomputed independently here
    let expect = spec_encode(el, vals);
    if hx != hex(&expect) {
        out.fail("C10:array-encoded-form", el, format!("{} {} encoded as {} expected {}", el, vals, hx, hex(&expect)));
    }
    out.nontrivial();
    out.count(stat);
    out.count(&format!("array:{}", el));
}

/// The Sparkplug-prescribed form, written independently of srad.
fn spec_encode(el: &str, vals: &str) -> Vec<u8> {
    let items: Vec<&str> = if vals == "_" { vec![] } else { vals.split(',').collect() };
    let mut o = vec![];
    match el {
        "bool" => {
            o.extend((items.len() as u32).to_le_bytes());
            let mut cur = 0u8;
            for (i, b) in items.iter().enumerate() {
                if *b == "1" {
                    cur |= 1 << (7 - (i % 8));
                }
                if i % 8 == 7 {
                    o.push(cur);
                    cur = 0;
                }
            }
            if items.len() % 8 != 0 {
                o.push(cur);
            }
        }
        "string" => {
            for s in items {
                o.extend(unhex(s));
                o.push(0);
            }
        }
        e => {
            let w = elem_width(e);
            for s in items {
                let x: u64 = s.parse().unwrap();
                o.extend(&x.to_le_bytes()[..w]);
            }
        }
    }
    o
}

const VARIANT_FIELDS: [(&str, &[&str]); 7] = [
    ("int", &["0", "1", "127", "128", "255", "256", "32767", "32768", "65535", "65536", "305419896", "2147483648", "4294967295"]),
    ("long", &["0", "255", "256", "65536", "4294967296", "9223372036854775808", "18446744073709551615"]),
    ("float", &["0", "2143289344", "4286578688", "1065353216"]),
    ("double", &["0", "9221120237041090561", "4607182418800017408"]),
    ("bool", &["0", "1"]),
    ("str", &["-", "61", "c3a9e282ac"]),
    ("ext", &["-"]),
];

fn variants_for(w: &str) -> Vec<(&'static str, Vec<&'static str>)> {
    let mut v: Vec<(&str, Vec<&str>)> = VARIANT_FIELDS.iter().map(|(a, b)| (*a, b.to_vec())).collect();
    match w {
        "m" => {
            v.push(("bytes", vec!["-", "00", "0100000080", "610062"]));
            v.push(("dataset", vec!["-"]));
            v.push(("template", vec!["n-", "nr", "t-", "tr", "f-", "fr"]));
        }
        "p" => {
            v.push(("pset", vec!["-"]));
            v.push(("psets", vec!["-"]));
        }
        _ => {}
    }
    v
}


// ---------------------------------------------------------------------------------------------------------
// USER-DEFINED value types (srad_types::traits::{HasDataType, MetricValue, ParameterValue} implemented outside
// the library): a type may support several datatypes and name ANY of them as its default. C10's last sentence
// for them: the datatype the library declares for a value of the type - bare or wrapped in `Option` - is the
// one the type names, and decoding the value by that declaration yields the variant of that name holding the
// same value. The expected datatype is the constant written in the type's definition below.
macro_rules! user_type {
    ($name:ident, $inner:ty, $mv:ident, $pv:ident, [$($sup:ident),+], $def:ident) => {
        #[derive(Clone, Debug, PartialEq)]
        pub struct $name(pub $inner);
        impl srad_types::traits::HasDataType for $name {
            fn supported_datatypes() -> &'static [DataType] {
                static S: &[DataType] = &[$(DataType::$sup),+];
                S
            }
            fn default_datatype() -> DataType {
                DataType::$def
            }
        }
        impl From<$name> for MetricValue {
            fn from(v: $name) -> Self {
                MetricValue(metric::Value::$mv(v.0))
            }
        }
        impl TryFrom<MetricValue> for $name {
            type Error = ();
            fn try_from(v: MetricValue) -> Result<Self, ()> {
                match v.0 {
                    metric::Value::$mv(x) => Ok($name(x)),
                    _ => Err(()),
                }
            }
        }
        impl srad_types::traits::MetricValue for $name {}
        user_type!(@param $name, $pv);
    };
    (@param $name:ident, none) => {};
    (@param $name:ident, $pv:ident) => {
        impl From<$name> for ParameterValue {
            fn from(v: $name) -> Self {
                ParameterValue(parameter::Value::$pv(v.0))
            }
        }
        impl TryFrom<ParameterValue> for $name {
            type Error = ();
            fn try_from(v: ParameterValue) -> Result<Self, ()> {
                match v.0 {
                    parameter::Value::$pv(x) => Ok($name(x)),
                    _ => Err(()),
                }
            }
        }
        impl srad_types::traits::ParameterValue for $name {}
    };
}
user_type!(UtBytesFirst, Vec<u8>, BytesValue, none, [Bytes, File], Bytes);
user_type!(UtFileSecond, Vec<u8>, BytesValue, none, [Bytes, File], File);
user_type!(UtFileFirst, Vec<u8>, BytesValue, none, [File, Bytes], File);
user_type!(UtTextSecond, String, StringValue, StringValue, [String, Text, Uuid], Text);
user_type!(UtUuidLast, String, StringValue, StringValue, [String, Text, Uuid], Uuid);
user_type!(UtStringFirst, String, StringValue, StringValue, [String, Text], String);

/// (type token, wire code its definition names as default, position of the default among the supported datatypes)
pub const USER_TYPES: [(&str, u32, &str); 6] = [
    ("bytes-first", 17, "default-is-first-supported"),
    ("file-second", 18, "default-is-not-first-supported"),
    ("file-first", 18, "default-is-first-supported"),
    ("text-second", 14, "default-is-not-first-supported"),
    ("uuid-last", 15, "default-is-not-first-supported"),
    ("string-first", 12, "default-is-first-supported"),
];
pub const USER_WRAPS: [&str; 6] = ["tm-bare", "tm-some", "tm-none", "tp-bare", "tp-some", "tp-none"];

/// what the library declares (and writes) for a value of a user type: (declared datatype code, value as (variant, field))
fn user_type_encode(ut: &str, wrap: &str, h: &str) -> Option<(Option<u32>, Option<(String, String)>)> {
    use srad_types::{TemplateMetric, TemplateParameter};
    fn mshow(m: TemplateMetric) -> (Option<u32>, Option<(String, String)>) {
        let v = match m.value {
            Some(metric::Value::BytesValue(b)) => Some(("bytes".to_string(), hex(&b))),
            Some(metric::Value::StringValue(s)) => Some(("str".to_string(), hex(s.as_bytes()))),
            Some(_) => Some(("other".to_string(), "-".to_string())),
            None => None,
        };
        (m.datatype, v)
    }
    fn pshow(m: TemplateParameter) -> (Option<u32>, Option<(String, String)>) {
        let v = match m.value {
            Some(parameter::Value::StringValue(s)) => Some(("str".to_string(), hex(s.as_bytes()))),
            Some(_) => Some(("other".to_string(), "-".to_string())),
            None => None,
        };
        (m.r#type, v)
    }
    macro_rules! go {
        ($t:ident, $v:expr, param) => {
            match wrap {
                "tm-bare" => Some(mshow(TemplateMetric::new_template_metric("u".into(), $t($v)))),
                "tm-some" => Some(mshow(TemplateMetric::new_template_metric("u".into(), Some($t($v))))),
                "tm-none" => Some(mshow(TemplateMetric::new_template_metric("u".into(), None::<$t>))),
                "tp-bare" => Some(pshow(TemplateParameter::new_template_parameter("u".into(), $t($v)))),
                "tp-some" => Some(pshow(TemplateParameter::new_template_parameter("u".into(), Some($t($v))))),
                "tp-none" => Some(pshow(TemplateParameter::new_template_parameter("u".into(), None::<$t>))),
                _ => None,
            }
        };
        ($t:ident, $v:expr, noparam) => {
            match wrap {
                "tm-bare" => Some(mshow(TemplateMetric::new_template_metric("u".into(), $t($v)))),
                "tm-some" => Some(mshow(TemplateMetric::new_template_metric("u".into(), Some($t($v))))),
                "tm-none" => Some(mshow(TemplateMetric::new_template_metric("u".into(), None::<$t>))),
                _ => None,
            }
        };
    }
    match ut {
        "bytes-first" => go!(UtBytesFirst, unhex(h), noparam),
        "file-second" => go!(UtFileSecond, unhex(h), noparam),
        "file-first" => go!(UtFileFirst, unhex(h), noparam),
        "text-second" => go!(UtTextSecond, utf8(h), param),
        "uuid-last" => go!(UtUuidLast, utf8(h), param),
        "string-first" => go!(UtStringFirst, utf8(h), param),
        _ => None,
    }
}

/// one user type x one way of handing a value of it to the library (descriptor `ut <type> <wrap> <hex>`)
fn user_type_case(out: &mut Out, ut: &str, wrap: &str, h: &str, stat: &str) {
    out.begin_case("codec new", "ok");
    out.set_desc(format!("ut {} {} {}", ut, wrap, h));
    out.count(stat);
    out.nontrivial();
    let Some(&(_, want_code, pos)) = USER_TYPES.iter().find(|(t, _, _)| *t == ut) else { return };
    let (ut2, wrap2, h2) = (ut.to_string(), wrap.to_string(), h.to_string());
    let enc = match catch(move || user_type_encode(&ut2, &wrap2, &h2)) {
        Err(m) => {
            out.fail("C10:user-type-declared-and-decoded", "panic", format!("ut {} {} {}: panicked: {}", ut, wrap, h, m));
            return;
        }
        Ok(None) => return, // this type has no parameter form
        Ok(Some(e)) => e,
    };
    let want_name = SPEC_DT_NAMES[want_code as usize];
    let feature = format!("{}-{}-{}", if wrap.ends_with("bare") { "bare" } else { "wrapped-in-option" }, pos, want_name);
    let (declared, value) = enc;
    if declared != Some(want_code) {
        out.fail(
            "C10:user-type-declared-and-decoded",
            &feature,
            format!("ut {} {} {}: a user type whose default datatype is {} ({}) is declared as {:?}", ut, wrap, h, want_code, want_name, declared),
        );
    }
    let absent = wrap.ends_with("none");
    match (&value, absent) {
        (None, true) => {}
        (Some((variant, field)), false) => {
            let want_variant = if want_code == 17 || want_code == 18 { "bytes" } else { "str" };
            if variant != want_variant || field != h {
                out.fail("C10:user-type-declared-and-decoded", &feature, format!("ut {} {} {}: the value written is {} {}", ut, wrap, h, variant, field));
            } else if wrap.starts_with("tm") {
                // decode by the datatype the LIBRARY declared (an existing request form: the model answers it too)
                if let Some(code) = declared.filter(|c| *c < 35) {
                    let op = format!("codec kind {} {} {}", code, variant, field);
                    let a = line(out, &op);
                    let want = format!("ok {} {}", want_name, if want_variant == "bytes" { format!("raw:{}", h) } else { hex(utf8(h).as_bytes()) });
                    let got_name = a.split(' ').nth(1).unwrap_or("");
                    if !(a.starts_with("ok ") && got_name == want_name) {
                        out.fail(
                            "C10:user-type-declared-and-decoded",
                            &feature,
                            format!("ut {} {} {}: decoding the value by its declared datatype ({}) gave `{}`, the type names {}", ut, wrap, h, code, a, want_name),
                        );
                    } else if want_variant == "bytes" && a != want {
                        out.fail("C10:user-type-declared-and-decoded", &feature, format!("ut {} {} {}: decoded `{}`, expected `{}`", ut, wrap, h, a, want));
                    }
                }
            }
        }
        _ => out.fail("C10:user-type-declared-and-decoded", &feature, format!("ut {} {} {}: value presence {:?}", ut, wrap, h, value)),
    }
}

pub const RULE: &str = "scalars: every value of the 8-bit types and (quick: every 7th, thorough: every) value of the 16-bit types x 4 wrapper kinds, boundary/special/random bit patterns of the wider types incl. NaN payloads, infinities, subnormals; wrapper->type decode of every variant x boundary field for all 13 types x 4 wrappers (exhaustive table); arrays: every length 0..=64 per element type with random contents, every boolean list up to length Lb (exhaustive), random long arrays; array decoders: every byte string of length <= Le (exhaustive) into all 13 decoders, plus all strings of length <= 6 over {00,01,07,08,09,80,FF}-style alphabets (thorough), structured boolean-array inputs (count x data length), random/mutated inputs with counts larger/smaller than the data and trailing bytes; datatype-directed decoding: all 35 datatypes x every variant sample (exhaustive table) plus valid encodings; DataSet metric values of any structure (declared column counts 0..u64::MAX x 0..=3 actual columns, unknown type codes, inconsistent rows; direct oracles: no panic, no abort, allocation bound). Non-trivial = the op sequence contains a non-empty value; distinct = distinct op lines (hashed).";

/// structure-aware DataSet messages: declared column counts from 0 to u64::MAX against 0..4 actual columns,
/// type codes valid / unknown / huge, rows whose element counts and variants match or do not
fn dataset_cases(rng: &mut Rng, n_random: u64) -> Vec<String> {
    use prost::Message as _;
    use srad_types::payload::data_set::{DataSetValue as PDsv, Row};
    let counts: [Option<u64>; 20] = [
        None, Some(0), Some(1), Some(2), Some(3), Some(4), Some(7), Some(255), Some(65536), Some(1 << 31), Some((1 << 32) - 1),
        Some(1 << 32), Some(1 << 40), Some(1 << 53), Some(1 << 60), Some(1 << 61), Some(1 << 62), Some(1 << 63),
        Some(u64::MAX - 1), Some(u64::MAX),
    ];
    let type_codes: [u32; 12] = [0, 1, 3, 4, 8, 9, 10, 11, 12, 13, 35, u32::MAX];
    let elem = |rng: &mut Rng| -> PDsv {
        PDsv {
            value: match rng.below(9) {
                0 => Some(data_set_value::Value::IntValue(rng.next() as u32)),
                1 => Some(data_set_value::Value::LongValue(rng.next())),
                2 => Some(data_set_value::Value::FloatValue(f32::from_bits(rng.next() as u32))),
                3 => Some(data_set_value::Value::DoubleValue(f64::from_bits(rng.next()))),
                4 => Some(data_set_value::Value::BooleanValue(rng.chance(1, 2))),
                5 => Some(data_set_value::Value::StringValue("s".repeat(rng.below(4) as usize))),
                6 => Some(data_set_value::Value::ExtensionValue(Default::default())),
                _ => None,
            },
        }
    };
    let mut v = vec![];
    let mut mk = |rng: &mut Rng, c: Option<u64>, ncols: usize, ntypes: usize, nrows: usize, consistent: bool| {
        let types: Vec<u32> = (0..ntypes).map(|_| *rng.pick(&type_codes)).collect();
        let rows = (0..nrows)
            .map(|_| Row { elements: (0..if consistent { ncols } else { rng.below(5) as usize }).map(|_| elem(rng)).collect() })
            .collect();
        let ds = DataSet { num_of_columns: c, columns: (0..ncols).map(|i| format!("c{}", i)).collect(), types, rows };
        format!("codec dsval {}", hex(&ds.encode_to_vec()))
    };
    // every declared count x every actual column count 0..=3, consistent and not
    for c in counts {
        for ncols in 0..=3usize {
            v.push(mk(rng, c, ncols, ncols, 2, true));
            v.push(mk(rng, c, ncols, (ncols + 1) % 4, 1, false));
        }
    }
    for _ in 0..n_random {
        let c = if rng.chance(1, 2) { *rng.pick(&counts) } else { Some(rng.below(6)) };
        let (ncols, ntypes, nrows) = (rng.below(5) as usize, rng.below(5) as usize, rng.below(4) as usize);
        let consistent = rng.chance(1, 2);
        v.push(mk(rng, c, ncols, ntypes, nrows, consistent));
    }
    v
}

pub fn run(args: &Args, out: &mut Out) -> &'static str {
    let mut rng = Rng::new(args.seed);
    let th = args.thorough();
    // --- scalars ---
    for w in ["m", "p", "d", "a"] {
        for ty in SCALARS {
            let vals: Vec<String> = match ty {
                "bool" => vec!["0".into(), "1".into()],
                "string" => {
                    let mut v: Vec<String> = vec!["-".into()];
                    for _ in 0..(if th { 400 } else { 60 }) {
                        v.push(hex(random_string(&mut rng, true).as_bytes()));
                    }
                    v
                }
                "u8" | "i8" => (0..256u64).map(|x| x.to_string()).collect(),
                "u16" | "i16" => {
                    let step = if th || w == "m" { 1 } else { 7 };
                    let mut v: Vec<String> = (0..65536u64).step_by(step).map(|x| x.to_string()).collect();
                    v.push("65535".into());
                    v.push("32768".into());
                    v
                }
                t => interesting_bits(t, &mut rng).into_iter().map(|x| x.to_string()).collect(),
            };
            let ops: Vec<String> = vals.iter().map(|v| format!("codec sc {} {} {}", ty, w, v)).collect();
            let n = ops.len() as u64;
            case(out, &ops, true, "scalar-roundtrip-batches");
            out.count_n(&format!("scalar:{}", ty), n);
        }
    }
    out.exhaustive.push("all values of u8/i8 in all four wrapper kinds; all values of u16/i16 in the metric wrapper".into());
    // --- scdec: every type x wrapper x variant x boundary field ---
    for w in ["m", "p", "d", "a"] {
        for ty in SCALARS {
            let mut ops = vec![];
            for (variant, fields) in variants_for(w) {
                for f in fields {
                    ops.push(format!("codec scdec {} {} {} {}", ty, w, variant, f));
                }
            }
            case(out, &ops, true, "scalar-decode-table");
        }
    }
    out.exhaustive.push("wrapper->type decode: 13 types x 4 wrappers x every variant x boundary fields".into());
    // --- arrays: every length 0..=64 ---
    for el in ELEMS {
        for n in 0..=64usize {
            let reps = if th { 4 } else { 1 };
            for _ in 0..reps {
                let vals = vals_tok(el, n, &mut rng);
                array_roundtrip_case(out, el, &vals, "array-roundtrip");
            }
        }
        for _ in 0..(if th { 40 } else { 6 }) {
            let n = rng.range(65, if th { 5000 } else { 700 }) as usize;
            let vals = vals_tok(el, n, &mut rng);
            array_roundtrip_case(out, el, &vals, "array-roundtrip-long");
        }
    }
    // boolean arrays: all bit patterns up to length lb
    let lb = if th { 14 } else { 10 };
    for n in 0..=lb {
        for bits in 0..(1u32 << n) {
            let vals: Vec<String> = (0..n).map(|i| ((bits >> i) & 1).to_string()).collect();
            let vals = if n == 0 { "_".to_string() } else { vals.join(",") };
            array_roundtrip_case(out, "bool", &vals, "array-roundtrip-bool-exhaustive");
        }
    }
    // boolean arrays at multiples of 8 and around them (sizes the existing tests skip)
    for n in [7usize, 8, 9, 15, 16, 17, 23, 24, 25, 31, 32, 33, 63, 64, 65, 127, 128, 129, 256, 1024] {
        let vals = vals_tok("bool", n, &mut rng);
        array_roundtrip_case(out, "bool", &vals, "array-roundtrip-bool-mult8");
    }
    out.exhaustive.push(format!("all boolean arrays of length 0..={}", lb));
    // --- array decoders on hostile input ---
    let le = if th { 3 } else { 2 };
    for el in ELEMS {
        // exhaustive short strings
        let mut ops = vec![format!("codec adec {} -", el)];
        for a in 0..256u32 {
            ops.push(format!("codec adec {} {:02x}", el, a));
        }
        case(out, &ops, true, "adec-exhaustive-len<=1");
        for a in 0..256u32 {
            let mut ops = vec![];
            for b in 0..256u32 {
                ops.push(format!("codec adec {} {:02x}{:02x}", el, a, b));
            }
            case(out, &ops, true, "adec-exhaustive-len2");
        }
        if le >= 3 {
            for a in 0..256u32 {
                for b in (0..256u32).step_by(if el == "string" { 1 } else { 5 }) {
                    let mut ops = vec![];
                    for c in 0..256u32 {
                        ops.push(format!("codec adec {} {:02x}{:02x}{:02x}", el, a, b, c));
                    }
                    case(out, &ops, true, "adec-exhaustive-len3");
                }
            }
        }
        // small alphabet, length <= 6 (4 in quick)
        let alpha: [u8; 7] = [0x00, 0x01, 0x07, 0x08, 0x09, 0x80, 0xFF];
        let maxl = if th { 6 } else { 4 };
        for l in 3..=maxl {
            let total = 7usize.pow(l as u32);
            let mut ops = vec![];
            for k in 0..total {
                let mut x = k;
                let mut bs = vec![];
                for _ in 0..l {
                    bs.push(alpha[x % 7]);
                    x /= 7;
                }
                ops.push(format!("codec adec {} {}", el, hex(&bs)));
                if ops.len() == 2048 {
                    case(out, &ops, true, "adec-alphabet");
                    ops.clear();
                }
            }
            if !ops.is_empty() {
                case(out, &ops, true, "adec-alphabet");
            }
        }
    }
    out.exhaustive.push(format!("every byte string of length <= {} into each of the 13 array decoders; every string of length 3..={} over a 7-byte alphabet", if th {2} else {2}, if th {6} else {4}));
    // structured boolean inputs: count x data length x content
    {
        let mut ops = vec![];
        for count in (0..=70u32).chain([255, 256, 257, 65535, 65536, 0x7FFF_FFFF, 0x8000_0000, 0xFFFF_FFF8, 0xFFFF_FFFF]) {
            for dlen in 0..=10usize {
                for fill in [0x00u8, 0xFF, 0xA5, 0x80] {
                    let mut bs = count.to_le_bytes().to_vec();
                    bs.extend(std::iter::repeat(fill).take(dlen));
                    ops.push(format!("codec adec bool {}", hex(&bs)));
                }
            }
        }
        for chunk in ops.chunks(1024) {
            case(out, chunk, true, "adec-bool-structured");
        }
        out.exhaustive.push("boolean decoder: counts 0..=70 and 9 extreme counts x data lengths 0..=10 x 4 fills".into());
    }
    // random / mutated
    for _ in 0..(if th { 20000 } else { 2500 }) {
        let el = *rng.pick(&ELEMS);
        let n = rng.below(40) as usize;
        let vals = vals_tok(el, n, &mut rng);
        let mut bytes = spec_encode(el, &vals);
        match rng.below(6) {
            0 => {
                let k = rng.below(4) as usize;
                for _ in 0..k {
                    bytes.push(rng.next() as u8);
                }
                out.count("mutation:trailing-bytes");
            }
            1 => {
                let k = (rng.below(4) as usize).min(bytes.len());
                bytes.truncate(bytes.len() - k);
                out.count("mutation:truncated");
            }
            2 => {
                if !bytes.is_empty() {
                    let i = rng.below(bytes.len() as u64) as usize;
                    bytes[i] = rng.next() as u8;
                }
                out.count("mutation:byte-flip");
            }
            3 => {
                if el == "bool" && bytes.len() >= 4 {
                    let c = match rng.below(4) {
                        0 => n as u32 + rng.range(1, 20) as u32,
                        1 => (n as u32).saturating_sub(rng.range(1, 9) as u32),
                        2 => rng.next() as u32,
                        _ => (n as u32 / 8) * 8,
                    };
                    bytes[..4].copy_from_slice(&c.to_le_bytes());
                }
                out.count("mutation:count");
            }
            4 => {
                if el == "string" {
                    bytes.insert(rng.below(bytes.len() as u64 + 1) as usize, *rng.pick(&[0xFFu8, 0xC0, 0x80, 0xF8, 0xED]));
                }
                out.count("mutation:bad-utf8");
            }
            _ => out.count("mutation:none"),
        }
        case(out, &[format!("codec adec {} {}", el, hex(&bytes))], true, "adec-random");
    }
    // --- datatype-directed decoding: full table + valid encodings ---
    for dt in 0..35u32 {
        let mut ops = vec![];
        for (variant, fields) in variants_for("m") {
            for f in fields {
                ops.push(format!("codec kind {} {} {}", dt, variant, f));
            }
        }
        case(out, &ops, true, "kind-table");
    }
    out.exhaustive.push("datatype-directed decoding: all 35 datatypes x every metric value variant sample".into());
    for _ in 0..(if th { 6000 } else { 800 }) {
        let dt = rng.below(35) as u32;
        let el = match dt {
            22 => "i8", 23 => "i16", 24 => "i32", 25 => "i64", 26 | 17 | 18 => "u8", 27 => "u16",
            28 => "u32", 29 => "u64", 30 => "f32", 31 => "f64", 32 => "bool", 33 => "string", 34 => "datetime",
            _ => "",
        };
        let op = if !el.is_empty() {
            let vals = vals_tok(el, rng.below(20) as usize, &mut rng);
            format!("codec kind {} bytes {}", dt, hex(&spec_encode(el, &vals)))
        } else {
            let (variant, fields) = &variants_for("m")[rng.below(10) as usize];
            let f = if *variant == "int" || *variant == "long" {
                (rng.next() & if *variant == "int" { 0xFFFF_FFFF } else { u64::MAX }).to_string()
            } else if *variant == "str" {
                hex(random_string(&mut rng, true).as_bytes())
            } else {
                rng.pick(fields).to_string()
            };
            format!("codec kind {} {} {}", dt, variant, f)
        };
        case(out, &[op], true, "kind-random");
    }
    // --- user-defined value types: declared datatype and datatype-directed decoding, bare and wrapped in Option ---
    for (ut, code, _) in USER_TYPES {
        for wrap in USER_WRAPS {
            let mut vals: Vec<String> = vec!["-".into()];
            for _ in 0..(if th { 40 } else { 6 }) {
                vals.push(if code == 17 || code == 18 {
                    let n = rng.below(40) as usize;
                    hex(&(0..n).map(|_| rng.next() as u8).collect::<Vec<u8>>())
                } else {
                    hex(random_string(&mut rng, false).as_bytes())
                });
            }
            for v in vals {
                user_type_case(out, ut, wrap, &v, "user-type");
                out.count(&format!("user-type:{}:{}", ut, wrap));
            }
        }
    }
    out.exhaustive.push("user-defined value types: 6 types (default datatype first / not first among the supported) x bare / Some / None x template metric / template parameter".into());
    // --- DataSet metric values of any structure (own PRNG stream: the cases above keep theirs) ---
    let mut drng = Rng::new(args.seed ^ 0xD5D5);
    let ops = dataset_cases(&mut drng, if th { 20000 } else { 1500 });
    let n = ops.len() as u64;
    for chunk in ops.chunks(200) {
        case(out, chunk, true, "dataset-batches");
    }
    out.count_n("dataset:cases", n);
    RULE
}

pub fn replay(desc: &str, lines: &[String], out: &mut Out) {
    if let Some(rest) = desc.strip_prefix("ut ") {
        let t: Vec<&str> = rest.split(' ').collect();
        if t.len() == 3 {
            user_type_case(out, t[0], t[1], t[2], "replay");
        }
        return;
    }
    if let Some(rest) = desc.strip_prefix("rt ") {
        let mut it = rest.split(' ');
        let el = it.next().unwrap().to_string();
        let vals = it.next().unwrap_or("_").to_string();
        array_roundtrip_case(out, &el, &vals, "replay");
        return;
    }
    let mut first = true;
    for l in lines {
        let a = exec(l, out);
        if first {
            out.begin_case(l, &a);
            first = false;
        } else {
            out.line(l, &a);
        }
    }
}

fn lean_bytes(hx: &str) -> String {
    let b = unhex(hx);
    format!("[{}]", b.iter().map(|x| format!("0x{:02x}", x)).collect::<Vec<_>>().join(", "))
}

fn lean_pv(variant: &str, field: &str) -> String {
    match variant {
        "int" | "long" | "float" | "double" => format!("PV.{} {}", variant, field),
        "bool" => format!("PV.bool {}", if field == "1" { "true" } else { "false" }),
        "str" => format!("PV.str {}", lean_bytes(field)),
        "bytes" => format!("PV.bytes {}", lean_bytes(field)),
        "dataset" => "PV.dataset".into(),
        "ext" => "PV.ext".into(),
        "template" => {
            let b = field.as_bytes();
            format!(
                "PV.template {} {}",
                match b[0] {
                    b'n' => "none",
                    b't' => "(some true)",
                    _ => "(some false)",
                },
                if b[1] == b'r' { "true" } else { "false" }
            )
        }
        _ => panic!(),
    }
}

/// T-table `KindTable`: datatype x metric-value-variant sample -> shape of the result of
/// `MetricValueKind::try_from_metric_value`, enumerated through the compiled crate.
pub fn table_kind() -> String {
    let mut s = String::from("-- GENERATED by `srad-verif table KindTable` from the compiled srad-types; do not edit.\n-- rows: (datatype code, metric value, shape of the result of MetricValueKind::try_from_metric_value)\nimport SradModel.Model.Codec\nnamespace Srad.Generated\nopen Srad.Codec\n\ndef kindTable : List (Nat × PV × KShape) := [\n");
    let mut rows = vec![];
    for dt in 0..35u32 {
        for (variant, fields) in variants_for("m") {
            for f in fields {
                let (a, name) = kind(dt, variant, f);
                let shape = match name {
                    Some(n) => {
                        let code = (0..35u32).find(|c| dt_name(*c) == n).map(|c| c.to_string()).unwrap_or("999".into());
                        format!("KShape.ok {}", code)
                    }
                    None => {
                        if a == "panic" {
                            "KShape.panic".to_string()
                        } else {
                            format!("KShape.err Err.{}", a.strip_prefix("err ").unwrap())
                        }
                    }
                };
                rows.push(format!("  ({}, {}, {})", dt, lean_pv(variant, f), shape));
            }
        }
    }
    s.push_str(&rows.join(",\n"));
    s.push_str("\n]\n\nend Srad.Generated\n");
    s
}
