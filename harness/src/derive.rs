//! Component `derive` (C17): `#[derive(Template)]` (srad-macros/src/lib.rs) and the value traits
//! of srad-types/src/template.rs, through the generated trait methods of a family of structs.
//! Ops (one per line; one schema per case):
//!   derive new <id> S <name> <ver|~> <refoverride|~> <n> field*   -> def <ver|~> <metrics> <params>
//!      field := s <wire> <skip> <m|om|p|op> <ty> <cell>  |  n <wire> <skip> S... V...
//!   derive inst V...             template_instance
//!   derive rt V...               try_from(template_instance(a))
//!   derive from I...             try_from(instance)
//!   derive diff V...(b) V...(a)  b.template_instance_from_difference(&a)
//!   derive patch V...(b) V...(a) a.update_from_instance(difference of b from a)
//!   derive upd V...(a) I...      a.update_from_instance(instance)
//!   derive updf V...(a) I...     same, instance foreign by construction (other ref / version /
//!                                unknown field)
//! Tokens: names and strings hex (`-` empty, `~` absent); numbers as bit patterns.
use crate::common::*;
use srad::types::{
    DateTime, PartialTemplate, Template, TemplateDefinition, TemplateError, TemplateInstance,
    TemplateMetadata,
};
use srad_types::payload::{self, metric, template::parameter, DataSet};
use srad_types::traits::HasDataType;

// ------------------------------------------------------------------------------------------
// value trees and schema descriptions (the harness's own, independent of the macro)
// ------------------------------------------------------------------------------------------

#[derive(Clone, Debug, PartialEq)]
pub enum Cell {
    S(String),
    N(Vec<Cell>),
}

#[derive(Clone, Debug)]
pub enum FieldDesc {
    Scalar { wire: String, skip: bool, param: bool, opt: bool, ty: &'static str, dflt: String },
    Nested { wire: String, skip: bool, schema: SchemaDesc, dflt: Vec<Cell> },
}

#[derive(Clone, Debug)]
pub struct SchemaDesc {
    pub name: String,
    pub ver: Option<String>,
    pub ovr: Option<String>,
    pub fields: Vec<FieldDesc>,
}

fn hx(s: &str) -> String {
    hex(s.as_bytes())
}
fn ohx(s: &Option<String>) -> String {
    match s {
        None => "~".into(),
        Some(x) => hx(x),
    }
}
fn unhx(s: &str) -> String {
    String::from_utf8(unhex(s)).expect("harness generates valid UTF-8")
}
fn ounhx(s: &str) -> Option<String> {
    if s == "~" {
        None
    } else {
        Some(unhx(s))
    }
}

pub fn cells_tok(c: &[Cell]) -> String {
    let mut s = format!("V {}", c.len());
    for x in c {
        s.push(' ');
        match x {
            Cell::S(t) => s.push_str(t),
            Cell::N(v) => s.push_str(&cells_tok(v)),
        }
    }
    s
}

pub struct Toks<'a> {
    w: Vec<&'a str>,
    i: usize,
}
impl<'a> Toks<'a> {
    pub fn new(w: &[&'a str]) -> Self {
        Toks { w: w.to_vec(), i: 0 }
    }
    pub fn next(&mut self) -> &'a str {
        let t = self.w[self.i];
        self.i += 1;
        t
    }
    pub fn peek(&self) -> &'a str {
        self.w[self.i]
    }
}

pub fn parse_cells(it: &mut Toks) -> Vec<Cell> {
    assert_eq!(it.next(), "V");
    let n: usize = it.next().parse().unwrap();
    let mut v = Vec::with_capacity(n);
    for _ in 0..n {
        if it.peek() == "V" {
            v.push(Cell::N(parse_cells(it)));
        } else {
            v.push(Cell::S(it.next().to_string()));
        }
    }
    v
}

pub fn schema_tok(s: &SchemaDesc) -> String {
    let mut t = format!("S {} {} {} {}", hx(&s.name), ohx(&s.ver), ohx(&s.ovr), s.fields.len());
    for f in &s.fields {
        t.push(' ');
        match f {
            FieldDesc::Scalar { wire, skip, param, opt, ty, dflt } => {
                let k = match (param, opt) {
                    (false, false) => "m",
                    (false, true) => "om",
                    (true, false) => "p",
                    (true, true) => "op",
                };
                t.push_str(&format!("s {} {} {} {} {}", hx(wire), *skip as u8, k, ty, dflt));
            }
            FieldDesc::Nested { wire, skip, schema, dflt } => {
                t.push_str(&format!("n {} {} {} {}", hx(wire), *skip as u8, schema_tok(schema), cells_tok(dflt)));
            }
        }
    }
    t
}

// ------------------------------------------------------------------------------------------
// scalar leaves
// ------------------------------------------------------------------------------------------

pub trait Leafy: Sized + Clone {
    const TY: &'static str;
    const OPT: bool = false;
    fn tok(&self) -> String;
    fn untok(s: &str) -> Self;
    fn gen(rng: &mut Rng, nan: bool) -> Self;
}

const INTERESTING: [u64; 16] = [
    0, 1, 2, 0x7F, 0x80, 0xFF, 0x100, 0x7FFF, 0x8000, 0xFFFF, 0x7FFF_FFFF, 0x8000_0000, 0xFFFF_FFFF,
    0x7FFF_FFFF_FFFF_FFFF, 0x8000_0000_0000_0000, u64::MAX,
];
fn gen_bits(rng: &mut Rng) -> u64 {
    match rng.below(4) {
        0 => *rng.pick(&INTERESTING),
        1 => rng.below(4),
        _ => rng.next(),
    }
}

macro_rules! leaf_int {
    ($t:ty, $u:ty, $name:expr) => {
        impl Leafy for $t {
            const TY: &'static str = $name;
            fn tok(&self) -> String {
                format!("n:{}", *self as $u)
            }
            fn untok(s: &str) -> Self {
                s[2..].parse::<$u>().unwrap() as $t
            }
            fn gen(rng: &mut Rng, _nan: bool) -> Self {
                gen_bits(rng) as $u as $t
            }
        }
    };
}
leaf_int!(u8, u8, "u8");
leaf_int!(u16, u16, "u16");
leaf_int!(u32, u32, "u32");
leaf_int!(u64, u64, "u64");
leaf_int!(i8, u8, "i8");
leaf_int!(i16, u16, "i16");
leaf_int!(i32, u32, "i32");
leaf_int!(i64, u64, "i64");

const F32S: [u32; 12] = [
    0, 0x8000_0000, 0x3F80_0000, 0xBF80_0000, 0x7F80_0000, 0xFF80_0000, 1, 0x007F_FFFF, 0x7F7F_FFFF,
    0x7FC0_0000, 0xFFC1_2345, 0x7F80_0001,
];
const F64S: [u64; 12] = [
    0, 0x8000_0000_0000_0000, 0x3FF0_0000_0000_0000, 0xBFF0_0000_0000_0000, 0x7FF0_0000_0000_0000,
    0xFFF0_0000_0000_0000, 1, 0x000F_FFFF_FFFF_FFFF, 0x7FEF_FFFF_FFFF_FFFF, 0x7FF8_0000_0000_0000,
    0xFFF8_1234_5678_9ABC, 0x7FF0_0000_0000_0001,
];
impl Leafy for f32 {
    const TY: &'static str = "f32";
    fn tok(&self) -> String {
        format!("n:{}", self.to_bits())
    }
    fn untok(s: &str) -> Self {
        f32::from_bits(s[2..].parse().unwrap())
    }
    fn gen(rng: &mut Rng, nan: bool) -> Self {
        loop {
            let x = if rng.chance(1, 2) { f32::from_bits(*rng.pick(&F32S)) } else { f32::from_bits(rng.next() as u32) };
            if nan || !x.is_nan() {
                return x;
            }
        }
    }
}
impl Leafy for f64 {
    const TY: &'static str = "f64";
    fn tok(&self) -> String {
        format!("n:{}", self.to_bits())
    }
    fn untok(s: &str) -> Self {
        f64::from_bits(s[2..].parse().unwrap())
    }
    fn gen(rng: &mut Rng, nan: bool) -> Self {
        loop {
            let x = if rng.chance(1, 2) { f64::from_bits(*rng.pick(&F64S)) } else { f64::from_bits(rng.next()) };
            if nan || !x.is_nan() {
                return x;
            }
        }
    }
}
impl Leafy for bool {
    const TY: &'static str = "bool";
    fn tok(&self) -> String {
        format!("b:{}", *self as u8)
    }
    fn untok(s: &str) -> Self {
        s == "b:1"
    }
    fn gen(rng: &mut Rng, _nan: bool) -> Self {
        rng.chance(1, 2)
    }
}
impl Leafy for String {
    const TY: &'static str = "string";
    fn tok(&self) -> String {
        format!("s:{}", hex(self.as_bytes()))
    }
    fn untok(s: &str) -> Self {
        unhx(&s[2..])
    }
    fn gen(rng: &mut Rng, _nan: bool) -> Self {
        match rng.below(4) {
            0 => String::new(),
            1 => rng.pick(&["a", "b", "NaN", "é", "a:b"]).to_string(),
            _ => crate::c10::random_string(rng, true),
        }
    }
}
impl Leafy for DateTime {
    const TY: &'static str = "datetime";
    fn tok(&self) -> String {
        format!("n:{}", self.date_time)
    }
    fn untok(s: &str) -> Self {
        DateTime::new(s[2..].parse().unwrap())
    }
    fn gen(rng: &mut Rng, _nan: bool) -> Self {
        DateTime::new(gen_bits(rng))
    }
}
impl<T: Leafy> Leafy for Option<T> {
    const TY: &'static str = T::TY;
    const OPT: bool = true;
    fn tok(&self) -> String {
        match self {
            None => "~".into(),
            Some(v) => v.tok(),
        }
    }
    fn untok(s: &str) -> Self {
        if s == "~" {
            None
        } else {
            Some(T::untok(s))
        }
    }
    fn gen(rng: &mut Rng, nan: bool) -> Self {
        if rng.chance(1, 3) {
            None
        } else {
            Some(T::gen(rng, nan))
        }
    }
}

// ------------------------------------------------------------------------------------------
// the family: every member pairs a derived struct with its schema description
// ------------------------------------------------------------------------------------------

pub trait Fam:
    Sized + Clone + Template + PartialTemplate + TryFrom<TemplateInstance, Error = TemplateError> + 'static
{
    const ID: &'static str;
    fn ref_override() -> Option<&'static str> {
        None
    }
    fn fields() -> Vec<FieldDesc>;
    fn cells(&self) -> Vec<Cell>;
    fn from_cells(c: &[Cell]) -> Self;
    fn gen(rng: &mut Rng, nan: bool) -> Self;
    fn mix(&self, o: &Self, rng: &mut Rng) -> Self;
}

pub fn schema_of<T: Fam>() -> SchemaDesc {
    SchemaDesc {
        name: T::template_name().to_string(),
        ver: T::template_version().map(|s| s.to_string()),
        ovr: T::ref_override().map(|s| s.to_string()),
        fields: T::fields(),
    }
}

macro_rules! fam_field {
    (s, $ty:ty, $wire:expr, $skip:expr, $param:expr, $dflt:expr) => {
        FieldDesc::Scalar {
            wire: $wire.into(),
            skip: $skip,
            param: $param,
            opt: <$ty as Leafy>::OPT,
            ty: <$ty as Leafy>::TY,
            dflt: {
                let d: $ty = $dflt;
                d.tok()
            },
        }
    };
    (n, $ty:ty, $wire:expr, $skip:expr, $param:expr, $dflt:expr) => {
        FieldDesc::Nested {
            wire: $wire.into(),
            skip: $skip,
            schema: schema_of::<$ty>(),
            dflt: {
                let d: $ty = $dflt;
                d.cells()
            },
        }
    };
}
macro_rules! fam_cell {
    (s, $e:expr) => {
        Cell::S(Leafy::tok($e))
    };
    (n, $e:expr) => {
        Cell::N(Fam::cells($e))
    };
}
macro_rules! fam_uncell {
    (s, $ty:ty, $c:expr) => {
        match $c {
            Cell::S(t) => <$ty as Leafy>::untok(t),
            _ => panic!("shape"),
        }
    };
    (n, $ty:ty, $c:expr) => {
        match $c {
            Cell::N(v) => <$ty as Fam>::from_cells(v),
            _ => panic!("shape"),
        }
    };
}
macro_rules! fam_gen {
    (s, $ty:ty, $rng:expr, $nan:expr) => {
        <$ty as Leafy>::gen($rng, $nan)
    };
    (n, $ty:ty, $rng:expr, $nan:expr) => {
        <$ty as Fam>::gen($rng, $nan)
    };
}
macro_rules! fam_mix {
    (s, $a:expr, $b:expr, $rng:expr) => {
        if $rng.chance(1, 2) {
            $a.clone()
        } else {
            $b.clone()
        }
    };
    (n, $a:expr, $b:expr, $rng:expr) => {
        match $rng.below(3) {
            0 => $a.clone(),
            1 => $b.clone(),
            _ => Fam::mix($a, $b, $rng),
        }
    };
}
macro_rules! fam {
    ($T:ident, $id:expr, [ $( ($k:ident, $f:ident, $ty:ty, $wire:expr, $skip:expr, $param:expr, $dflt:expr) ),* $(,)? ]) => {
        impl Fam for $T {
            const ID: &'static str = $id;
            fn fields() -> Vec<FieldDesc> {
                vec![ $( fam_field!($k, $ty, $wire, $skip, $param, $dflt) ),* ]
            }
            fn cells(&self) -> Vec<Cell> {
                vec![ $( fam_cell!($k, &self.$f) ),* ]
            }
            fn from_cells(c: &[Cell]) -> Self {
                let mut i = 0usize;
                $( let $f: $ty = fam_uncell!($k, $ty, &c[i]); i += 1; )*
                assert_eq!(i, c.len());
                $T { $($f),* }
            }
            fn gen(rng: &mut Rng, nan: bool) -> Self {
                $T { $( $f: fam_gen!($k, $ty, rng, nan) ),* }
            }
            fn mix(&self, o: &Self, rng: &mut Rng) -> Self {
                $T { $( $f: fam_mix!($k, &self.$f, &o.$f, rng) ),* }
            }
        }
    };
}

// 1. every scalar metric type, no attributes, no version
#[derive(Template, Clone, Debug, Default, PartialEq)]
pub struct Scalars {
    a: bool,
    b: i8,
    c: i16,
    d: i32,
    e: i64,
    f: u8,
    g: u16,
    h: u32,
    i: u64,
    j: f32,
    k: f64,
    l: String,
}
impl TemplateMetadata for Scalars {
    fn template_name() -> &'static str {
        "scalars"
    }
}
fam!(Scalars, "scalars", [
    (s, a, bool, "a", false, false, false),
    (s, b, i8, "b", false, false, 0),
    (s, c, i16, "c", false, false, 0),
    (s, d, i32, "d", false, false, 0),
    (s, e, i64, "e", false, false, 0),
    (s, f, u8, "f", false, false, 0),
    (s, g, u16, "g", false, false, 0),
    (s, h, u32, "h", false, false, 0),
    (s, i, u64, "i", false, false, 0),
    (s, j, f32, "j", false, false, 0.0),
    (s, k, f64, "k", false, false, 0.0),
    (s, l, String, "l", false, false, String::new()),
]);

// 2. optional metrics, with a version
#[derive(Template, Clone, Debug, Default, PartialEq)]
pub struct Opts {
    a: Option<bool>,
    b: Option<u8>,
    c: Option<i16>,
    d: Option<i32>,
    e: Option<u64>,
    f: Option<f32>,
    g: Option<f64>,
    h: Option<String>,
    plain: i64,
}
impl TemplateMetadata for Opts {
    fn template_name() -> &'static str {
        "opts"
    }
    fn template_version() -> Option<&'static str> {
        Some("1.0")
    }
}
fam!(Opts, "opts", [
    (s, a, Option<bool>, "a", false, false, None),
    (s, b, Option<u8>, "b", false, false, None),
    (s, c, Option<i16>, "c", false, false, None),
    (s, d, Option<i32>, "d", false, false, None),
    (s, e, Option<u64>, "e", false, false, None),
    (s, f, Option<f32>, "f", false, false, None),
    (s, g, Option<f64>, "g", false, false, None),
    (s, h, Option<String>, "h", false, false, None),
    (s, plain, i64, "plain", false, false, 0),
]);

// 3. parameters of many types, optional parameters, a DateTime parameter, one metric
#[derive(Template, Clone, Debug, PartialEq)]
pub struct Params {
    #[template(parameter)]
    p_bool: bool,
    #[template(parameter)]
    p_u16: u16,
    #[template(parameter)]
    p_i64: i64,
    #[template(parameter)]
    p_f32: f32,
    #[template(parameter)]
    p_str: String,
    #[template(parameter)]
    o_u8: Option<u8>,
    #[template(parameter)]
    o_f64: Option<f64>,
    #[template(parameter)]
    o_str: Option<String>,
    #[template(parameter, default = DateTime::new(86_400_000))]
    when: DateTime,
    m: u32,
}
impl TemplateMetadata for Params {
    fn template_name() -> &'static str {
        "params"
    }
    fn template_version() -> Option<&'static str> {
        Some("")
    }
}
fam!(Params, "params", [
    (s, p_bool, bool, "p_bool", false, true, false),
    (s, p_u16, u16, "p_u16", false, true, 0),
    (s, p_i64, i64, "p_i64", false, true, 0),
    (s, p_f32, f32, "p_f32", false, true, 0.0),
    (s, p_str, String, "p_str", false, true, String::new()),
    (s, o_u8, Option<u8>, "o_u8", false, true, None),
    (s, o_f64, Option<f64>, "o_f64", false, true, None),
    (s, o_str, Option<String>, "o_str", false, true, None),
    (s, when, DateTime, "when", false, true, DateTime::new(86_400_000)),
    (s, m, u32, "m", false, false, 0),
]);

// 4. renamed and skipped fields: a rename may reuse the identifier of another (renamed or
//    skipped) field; names with a space, a colon, non-ASCII, empty
#[derive(Template, Clone, Debug, Default, PartialEq)]
pub struct Renamed {
    #[template(rename = "y")]
    x: i32,
    #[template(rename = "x")]
    y: i32,
    #[template(skip)]
    z: u32,
    #[template(rename = "z", parameter)]
    w: u8,
    #[template(rename = "motor rpm")]
    rpm: f64,
    #[template(rename = "tête:é")]
    head: Option<String>,
    #[template(rename = "")]
    empty: bool,
    #[template(skip)]
    note: String,
    #[template(skip)]
    maybe: Option<i16>,
}
impl TemplateMetadata for Renamed {
    fn template_name() -> &'static str {
        "renamed:x"
    }
    fn template_version() -> Option<&'static str> {
        Some("3")
    }
}
fam!(Renamed, "renamed", [
    (s, x, i32, "y", false, false, 0),
    (s, y, i32, "x", false, false, 0),
    (s, z, u32, "z", true, false, 0),
    (s, w, u8, "z", false, true, 0),
    (s, rpm, f64, "motor rpm", false, false, 0.0),
    (s, head, Option<String>, "tête:é", false, false, None),
    (s, empty, bool, "", false, false, false),
    (s, note, String, "note", true, false, String::new()),
    (s, maybe, Option<i16>, "maybe", true, false, None),
]);

// 5. explicit defaults on metrics, parameters, options and skipped fields
#[derive(Template, Clone, Debug, PartialEq)]
pub struct Defaults {
    #[template(default = 3000.0)]
    max_rpm: f64,
    #[template(parameter, default = 85)]
    threshold: i16,
    #[template(default = true)]
    alarm: bool,
    #[template(default = Some(7))]
    level: Option<u8>,
    #[template(default = "idle".to_string())]
    state: String,
    #[template(parameter, default = Some("eu".to_string()))]
    region: Option<String>,
    #[template(skip, default = 42)]
    hidden: u64,
    #[template(default = -1)]
    neg: i8,
}
impl TemplateMetadata for Defaults {
    fn template_name() -> &'static str {
        "defaults"
    }
    fn template_version() -> Option<&'static str> {
        Some("2.1.0")
    }
}
fam!(Defaults, "defaults", [
    (s, max_rpm, f64, "max_rpm", false, false, 3000.0),
    (s, threshold, i16, "threshold", false, true, 85),
    (s, alarm, bool, "alarm", false, false, true),
    (s, level, Option<u8>, "level", false, false, Some(7)),
    (s, state, String, "state", false, false, "idle".to_string()),
    (s, region, Option<String>, "region", false, true, Some("eu".to_string())),
    (s, hidden, u64, "hidden", true, false, 42),
    (s, neg, i8, "neg", false, false, -1),
]);

// 6. innermost nested template: renamed metric, optional metric, parameter, skipped field;
//    a hand-written Default so that the enclosing definitions carry non-trivial values
#[derive(Template, Clone, Debug, PartialEq)]
pub struct Leaf {
    #[template(rename = "v")]
    reading: i32,
    opt: Option<f64>,
    #[template(parameter)]
    scale: u16,
    #[template(skip)]
    cache: u32,
}
impl Default for Leaf {
    fn default() -> Self {
        Leaf { reading: 5, opt: Some(1.5), scale: 10, cache: 99 }
    }
}
impl TemplateMetadata for Leaf {
    fn template_name() -> &'static str {
        "leaf"
    }
    fn template_version() -> Option<&'static str> {
        Some("2")
    }
}
fam!(Leaf, "leaf", [
    (s, reading, i32, "v", false, false, 0),
    (s, opt, Option<f64>, "opt", false, false, None),
    (s, scale, u16, "scale", false, true, 0),
    (s, cache, u32, "cache", true, false, 0),
]);

// 7. first level of nesting
#[derive(Template, Clone, Debug, Default, PartialEq)]
pub struct Mid {
    id: u8,
    leaf: Leaf,
    label: Option<String>,
    #[template(parameter)]
    gain: f32,
    #[template(skip)]
    dirty: bool,
}
impl TemplateMetadata for Mid {
    fn template_name() -> &'static str {
        "mid"
    }
}
fam!(Mid, "mid", [
    (s, id, u8, "id", false, false, 0),
    (n, leaf, Leaf, "leaf", false, false, Leaf::default()),
    (s, label, Option<String>, "label", false, false, None),
    (s, gain, f32, "gain", false, true, 0.0),
    (s, dirty, bool, "dirty", true, false, false),
]);

// 8. second level of nesting: Top { Mid { Leaf }, Leaf }
#[derive(Template, Clone, Debug, Default, PartialEq)]
pub struct Top {
    on: bool,
    mid: Mid,
    #[template(rename = "spare")]
    second: Leaf,
    #[template(parameter)]
    limit: Option<i64>,
    count: u64,
}
impl TemplateMetadata for Top {
    fn template_name() -> &'static str {
        "top"
    }
    fn template_version() -> Option<&'static str> {
        Some("v1")
    }
}
fam!(Top, "top", [
    (s, on, bool, "on", false, false, false),
    (n, mid, Mid, "mid", false, false, Mid::default()),
    (n, second, Leaf, "spare", false, false, Leaf::default()),
    (s, limit, Option<i64>, "limit", false, true, None),
    (s, count, u64, "count", false, false, 0),
]);

// 9. a single field
#[derive(Template, Clone, Debug, Default, PartialEq)]
pub struct Single {
    only: u8,
}
impl TemplateMetadata for Single {
    fn template_name() -> &'static str {
        "single"
    }
}
fam!(Single, "single", [(s, only, u8, "only", false, false, 0)]);

// 10. parameters only
#[derive(Template, Clone, Debug, Default, PartialEq)]
pub struct OnlyParams {
    #[template(parameter)]
    a: i32,
    #[template(parameter, rename = "b")]
    bee: Option<bool>,
}
impl TemplateMetadata for OnlyParams {
    fn template_name() -> &'static str {
        "only_params"
    }
}
fam!(OnlyParams, "onlyparams", [
    (s, a, i32, "a", false, true, 0),
    (s, bee, Option<bool>, "b", false, true, None),
]);

// 11. overridden definition metric name; float-heavy (NaN, signed zeros)
#[derive(Template, Clone, Debug, Default, PartialEq)]
pub struct Floats {
    x: f32,
    y: f64,
    ox: Option<f32>,
    #[template(parameter)]
    px: f64,
    #[template(parameter)]
    opx: Option<f32>,
}
impl TemplateMetadata for Floats {
    fn template_name() -> &'static str {
        "floats"
    }
    fn template_version() -> Option<&'static str> {
        Some("9")
    }
    fn template_definition_metric_name() -> String {
        "Types/Floats".into()
    }
}
impl Fam for Floats {
    const ID: &'static str = "floats";
    fn ref_override() -> Option<&'static str> {
        Some("Types/Floats")
    }
    fn fields() -> Vec<FieldDesc> {
        vec![
            fam_field!(s, f32, "x", false, false, 0.0),
            fam_field!(s, f64, "y", false, false, 0.0),
            fam_field!(s, Option<f32>, "ox", false, false, None),
            fam_field!(s, f64, "px", false, true, 0.0),
            fam_field!(s, Option<f32>, "opx", false, true, None),
        ]
    }
    fn cells(&self) -> Vec<Cell> {
        vec![fam_cell!(s, &self.x), fam_cell!(s, &self.y), fam_cell!(s, &self.ox), fam_cell!(s, &self.px), fam_cell!(s, &self.opx)]
    }
    fn from_cells(c: &[Cell]) -> Self {
        Floats {
            x: fam_uncell!(s, f32, &c[0]),
            y: fam_uncell!(s, f64, &c[1]),
            ox: fam_uncell!(s, Option<f32>, &c[2]),
            px: fam_uncell!(s, f64, &c[3]),
            opx: fam_uncell!(s, Option<f32>, &c[4]),
        }
    }
    fn gen(rng: &mut Rng, nan: bool) -> Self {
        Floats {
            x: Leafy::gen(rng, nan),
            y: Leafy::gen(rng, nan),
            ox: Leafy::gen(rng, nan),
            px: Leafy::gen(rng, nan),
            opx: Leafy::gen(rng, nan),
        }
    }
    fn mix(&self, o: &Self, rng: &mut Rng) -> Self {
        Floats {
            x: fam_mix!(s, &self.x, &o.x, rng),
            y: fam_mix!(s, &self.y, &o.y, rng),
            ox: fam_mix!(s, &self.ox, &o.ox, rng),
            px: fam_mix!(s, &self.px, &o.px, rng),
            opx: fam_mix!(s, &self.opx, &o.opx, rng),
        }
    }
}

// 12. nested field with an explicit default expression, a skipped nested field
#[derive(Template, Clone, Debug, PartialEq)]
pub struct NestDefault {
    #[template(default = Leaf { reading: -3, opt: None, scale: 2, cache: 1 })]
    inner: Leaf,
    #[template(skip)]
    shadow: Leaf,
    #[template(default = 9)]
    n: u16,
}
impl TemplateMetadata for NestDefault {
    fn template_name() -> &'static str {
        "nest_default"
    }
}
fam!(NestDefault, "nestdefault", [
    (n, inner, Leaf, "inner", false, false, Leaf { reading: -3, opt: None, scale: 2, cache: 1 }),
    (n, shadow, Leaf, "shadow", true, false, Leaf::default()),
    (s, n, u16, "n", false, false, 9),
]);

// 13./14. tiny value spaces for exhaustive enumeration: 12 values, and 36 through one nesting
#[derive(Template, Clone, Debug, Default, PartialEq)]
pub struct Tiny {
    flag: bool,
    opt: Option<bool>,
    #[template(parameter)]
    p: bool,
}
impl TemplateMetadata for Tiny {
    fn template_name() -> &'static str {
        "tiny"
    }
}
fam!(Tiny, "tiny", [
    (s, flag, bool, "flag", false, false, false),
    (s, opt, Option<bool>, "opt", false, false, None),
    (s, p, bool, "p", false, true, false),
]);

#[derive(Template, Clone, Debug, Default, PartialEq)]
pub struct TinyOuter {
    inner: Tiny,
    #[template(parameter)]
    x: Option<bool>,
}
impl TemplateMetadata for TinyOuter {
    fn template_name() -> &'static str {
        "tiny_outer"
    }
    fn template_version() -> Option<&'static str> {
        Some("t")
    }
}
fam!(TinyOuter, "tinyouter", [
    (n, inner, Tiny, "inner", false, false, Tiny::default()),
    (s, x, Option<bool>, "x", false, true, None),
]);

pub const FAMILY: [&str; 14] = [
    "scalars", "opts", "params", "renamed", "defaults", "leaf", "mid", "top", "single", "onlyparams",
    "floats", "nestdefault", "tiny", "tinyouter",
];

/// run a generic function for the family member with that id
macro_rules! dispatch {
    ($id:expr, $f:ident, $($arg:expr),*) => {
        match $id {
            "scalars" => $f::<Scalars>($($arg),*),
            "opts" => $f::<Opts>($($arg),*),
            "params" => $f::<Params>($($arg),*),
            "renamed" => $f::<Renamed>($($arg),*),
            "defaults" => $f::<Defaults>($($arg),*),
            "leaf" => $f::<Leaf>($($arg),*),
            "mid" => $f::<Mid>($($arg),*),
            "top" => $f::<Top>($($arg),*),
            "single" => $f::<Single>($($arg),*),
            "onlyparams" => $f::<OnlyParams>($($arg),*),
            "floats" => $f::<Floats>($($arg),*),
            "nestdefault" => $f::<NestDefault>($($arg),*),
            "tiny" => $f::<Tiny>($($arg),*),
            "tinyouter" => $f::<TinyOuter>($($arg),*),
            x => panic!("unknown family member {}", x),
        }
    };
}

// ------------------------------------------------------------------------------------------
// wire tokens: TemplateInstance / TemplateDefinition <-> text
// ------------------------------------------------------------------------------------------

fn pv_metric_tok(v: &Option<metric::Value>) -> String {
    match v {
        None => "~".into(),
        Some(metric::Value::IntValue(x)) => format!("int:{}", x),
        Some(metric::Value::LongValue(x)) => format!("long:{}", x),
        Some(metric::Value::FloatValue(x)) => format!("float:{}", x.to_bits()),
        Some(metric::Value::DoubleValue(x)) => format!("double:{}", x.to_bits()),
        Some(metric::Value::BooleanValue(x)) => format!("bool:{}", *x as u8),
        Some(metric::Value::StringValue(x)) => format!("str:{}", hex(x.as_bytes())),
        Some(metric::Value::BytesValue(x)) => format!("bytes:{}", hex(x)),
        Some(metric::Value::DatasetValue(_)) => "dataset:-".into(),
        Some(metric::Value::ExtensionValue(_)) => "ext:-".into(),
        Some(metric::Value::TemplateValue(_)) => unreachable!("template values are printed as `t` metrics"),
    }
}
fn pv_param_tok(v: &Option<parameter::Value>) -> String {
    match v {
        None => "~".into(),
        Some(parameter::Value::IntValue(x)) => format!("int:{}", x),
        Some(parameter::Value::LongValue(x)) => format!("long:{}", x),
        Some(parameter::Value::FloatValue(x)) => format!("float:{}", x.to_bits()),
        Some(parameter::Value::DoubleValue(x)) => format!("double:{}", x.to_bits()),
        Some(parameter::Value::BooleanValue(x)) => format!("bool:{}", *x as u8),
        Some(parameter::Value::StringValue(x)) => format!("str:{}", hex(x.as_bytes())),
        Some(parameter::Value::ExtensionValue(_)) => "ext:-".into(),
    }
}
fn pv_metric_parse(t: &str) -> Option<metric::Value> {
    if t == "~" {
        return None;
    }
    let (k, f) = t.split_once(':').unwrap();
    Some(match k {
        "int" => metric::Value::IntValue(f.parse().unwrap()),
        "long" => metric::Value::LongValue(f.parse().unwrap()),
        "float" => metric::Value::FloatValue(f32::from_bits(f.parse().unwrap())),
        "double" => metric::Value::DoubleValue(f64::from_bits(f.parse().unwrap())),
        "bool" => metric::Value::BooleanValue(f == "1"),
        "str" => metric::Value::StringValue(unhx(f)),
        "bytes" => metric::Value::BytesValue(unhex(f)),
        "dataset" => metric::Value::DatasetValue(DataSet { num_of_columns: Some(0), columns: vec![], types: vec![], rows: vec![] }),
        "ext" => metric::Value::ExtensionValue(Default::default()),
        x => panic!("bad pv {}", x),
    })
}
fn pv_param_parse(t: &str) -> Option<parameter::Value> {
    if t == "~" {
        return None;
    }
    let (k, f) = t.split_once(':').unwrap();
    Some(match k {
        "int" => parameter::Value::IntValue(f.parse().unwrap()),
        "long" => parameter::Value::LongValue(f.parse().unwrap()),
        "float" => parameter::Value::FloatValue(f32::from_bits(f.parse().unwrap())),
        "double" => parameter::Value::DoubleValue(f64::from_bits(f.parse().unwrap())),
        "bool" => parameter::Value::BooleanValue(f == "1"),
        "str" => parameter::Value::StringValue(unhx(f)),
        "ext" => parameter::Value::ExtensionValue(Default::default()),
        x => panic!("bad param pv {}", x),
    })
}
fn onum(x: &Option<u32>) -> String {
    match x {
        None => "~".into(),
        Some(v) => v.to_string(),
    }
}
fn onum_parse(t: &str) -> Option<u32> {
    if t == "~" {
        None
    } else {
        Some(t.parse().unwrap())
    }
}

fn params_tok(ps: &[payload::template::Parameter]) -> String {
    let mut s = ps.len().to_string();
    for p in ps {
        s.push_str(&format!(" {} {} {}", ohx(&p.name), onum(&p.r#type), pv_param_tok(&p.value)));
    }
    s
}
fn metrics_tok(ms: &[payload::Metric]) -> String {
    let mut s = ms.len().to_string();
    for m in ms {
        match &m.value {
            Some(metric::Value::TemplateValue(t)) => {
                s.push_str(&format!(
                    " t {} {} {} {} {} {} {}",
                    ohx(&m.name),
                    onum(&m.datatype),
                    match t.is_definition {
                        None => "n",
                        Some(true) => "t",
                        Some(false) => "f",
                    },
                    ohx(&t.template_ref),
                    ohx(&t.version),
                    metrics_tok(&t.metrics),
                    params_tok(&t.parameters)
                ));
            }
            v => s.push_str(&format!(" v {} {} {}", ohx(&m.name), onum(&m.datatype), pv_metric_tok(v))),
        }
    }
    s
}
fn inst_tok(i: &TemplateInstance) -> String {
    format!("I {} {} {} {}", hx(&i.template_ref), ohx(&i.version), metrics_tok(&i.metrics), params_tok(&i.parameters))
}
fn def_tok(d: &TemplateDefinition) -> String {
    format!("def {} {} {}", ohx(&d.version), metrics_tok(&d.metrics), params_tok(&d.parameters))
}

fn mk_metric(name: Option<String>, datatype: Option<u32>, value: Option<metric::Value>) -> payload::Metric {
    payload::Metric {
        name,
        alias: None,
        timestamp: None,
        datatype,
        is_historical: None,
        is_transient: None,
        is_null: None,
        metadata: None,
        properties: None,
        value,
    }
}
fn parse_params(it: &mut Toks) -> Vec<payload::template::Parameter> {
    let n: usize = it.next().parse().unwrap();
    (0..n)
        .map(|_| {
            let name = ounhx(it.next());
            let ty = onum_parse(it.next());
            let value = pv_param_parse(it.next());
            payload::template::Parameter { name, r#type: ty, value }
        })
        .collect()
}
fn parse_metrics(it: &mut Toks) -> Vec<payload::Metric> {
    let n: usize = it.next().parse().unwrap();
    let mut v = Vec::with_capacity(n);
    for _ in 0..n {
        match it.next() {
            "v" => {
                let name = ounhx(it.next());
                let dt = onum_parse(it.next());
                let value = pv_metric_parse(it.next());
                v.push(mk_metric(name, dt, value));
            }
            "t" => {
                let name = ounhx(it.next());
                let dt = onum_parse(it.next());
                let is_definition = match it.next() {
                    "n" => None,
                    "t" => Some(true),
                    _ => Some(false),
                };
                let template_ref = ounhx(it.next());
                let version = ounhx(it.next());
                let metrics = parse_metrics(it);
                let parameters = parse_params(it);
                v.push(mk_metric(
                    name,
                    dt,
                    Some(metric::Value::TemplateValue(payload::Template { version, metrics, parameters, template_ref, is_definition })),
                ));
            }
            x => panic!("bad metric tag {}", x),
        }
    }
    v
}
fn parse_inst(it: &mut Toks) -> TemplateInstance {
    assert_eq!(it.next(), "I");
    let template_ref = unhx(it.next());
    let version = ounhx(it.next());
    let metrics = parse_metrics(it);
    let parameters = parse_params(it);
    TemplateInstance { template_ref, version, metrics, parameters }
}
fn clone_inst(i: &TemplateInstance) -> TemplateInstance {
    TemplateInstance {
        template_ref: i.template_ref.clone(),
        version: i.version.clone(),
        metrics: i.metrics.clone(),
        parameters: i.parameters.clone(),
    }
}

fn err_tok(e: &TemplateError) -> String {
    match e {
        TemplateError::InvalidPayload => "invalidPayload".into(),
        TemplateError::UnknownParameter(n) => format!("unknownParameter {}", hx(n)),
        TemplateError::UnknownMetric(n) => format!("unknownMetric {}", hx(n)),
        TemplateError::RefMismatch(n) => format!("refMismatch {}", hx(n)),
        TemplateError::VersionMismatch => "versionMismatch".into(),
        TemplateError::InvalidParameterValue(n) => format!("invalidParameterValue {}", hx(n)),
        TemplateError::InvalidMetricValue(n) => format!("invalidMetricValue {}", hx(n)),
    }
}

// ------------------------------------------------------------------------------------------
// the property's vocabulary over value trees (Rust `==` per field type)
// ------------------------------------------------------------------------------------------

/// `==` of the field's Rust type on two cell tokens
fn cell_eq(ty: &str, b: &str, a: &str) -> bool {
    if b == "~" || a == "~" {
        return b == a;
    }
    match ty {
        "f32" => <f32 as Leafy>::untok(b) == <f32 as Leafy>::untok(a),
        "f64" => <f64 as Leafy>::untok(b) == <f64 as Leafy>::untok(a),
        _ => b == a,
    }
}
fn stok(c: &Cell) -> &str {
    match c {
        Cell::S(t) => t,
        _ => panic!("shape"),
    }
}
fn ncells(c: &Cell) -> &[Cell] {
    match c {
        Cell::N(v) => v,
        _ => panic!("shape"),
    }
}
/// agree on all template fields (PartialEq semantics), nested templates recursively
fn agree_tree(fs: &[FieldDesc], b: &[Cell], a: &[Cell]) -> bool {
    fs.iter().enumerate().all(|(i, f)| match f {
        FieldDesc::Scalar { skip, ty, .. } => *skip || cell_eq(ty, stok(&b[i]), stok(&a[i])),
        FieldDesc::Nested { skip, schema, .. } => *skip || agree_tree(&schema.fields, ncells(&b[i]), ncells(&a[i])),
    })
}
/// identical bits on all non-skipped fields
fn same_tree(fs: &[FieldDesc], x: &[Cell], y: &[Cell]) -> bool {
    fs.iter().enumerate().all(|(i, f)| match f {
        FieldDesc::Scalar { skip, .. } => *skip || x[i] == y[i],
        FieldDesc::Nested { skip, schema, .. } => *skip || same_tree(&schema.fields, ncells(&x[i]), ncells(&y[i])),
    })
}
/// field-wise effect demanded of a patch: skipped untouched; template field = b's bits, or
/// untouched and == b's
fn patched_tree(fs: &[FieldDesc], a: &[Cell], b: &[Cell], a2: &[Cell]) -> bool {
    fs.iter().enumerate().all(|(i, f)| match f {
        FieldDesc::Scalar { skip, ty, .. } => {
            if *skip {
                a2[i] == a[i]
            } else {
                a2[i] == b[i] || (a2[i] == a[i] && cell_eq(ty, stok(&b[i]), stok(&a[i])))
            }
        }
        FieldDesc::Nested { skip, schema, .. } => {
            if *skip {
                a2[i] == a[i]
            } else {
                (a2[i] == a[i] && agree_tree(&schema.fields, ncells(&b[i]), ncells(&a[i])))
                    || patched_tree(&schema.fields, ncells(&a[i]), ncells(&b[i]), ncells(&a2[i]))
            }
        }
    })
}
/// wire names of the metric / parameter fields on which b and a differ
fn differing(fs: &[FieldDesc], b: &[Cell], a: &[Cell]) -> (Vec<String>, Vec<String>) {
    let (mut ms, mut ps) = (vec![], vec![]);
    for (i, f) in fs.iter().enumerate() {
        match f {
            FieldDesc::Scalar { wire, skip, param, ty, .. } => {
                if !*skip && !cell_eq(ty, stok(&b[i]), stok(&a[i])) {
                    if *param {
                        ps.push(wire.clone())
                    } else {
                        ms.push(wire.clone())
                    }
                }
            }
            FieldDesc::Nested { wire, skip, schema, .. } => {
                if !*skip && !agree_tree(&schema.fields, ncells(&b[i]), ncells(&a[i])) {
                    ms.push(wire.clone())
                }
            }
        }
    }
    (ms, ps)
}
fn decls_m(ms: &[payload::Metric]) -> Vec<(Option<String>, Option<u32>)> {
    ms.iter().map(|m| (m.name.clone(), m.datatype)).collect()
}
fn decls_p(ps: &[payload::template::Parameter]) -> Vec<(Option<String>, Option<u32>)> {
    ps.iter().map(|p| (p.name.clone(), p.r#type)).collect()
}

// ------------------------------------------------------------------------------------------
// executing one request on the real generated code
// ------------------------------------------------------------------------------------------

fn upd_answer<T: Fam>(r: &Result<(), TemplateError>, after: &T) -> String {
    match r {
        Ok(()) => format!("ok {}", cells_tok(&after.cells())),
        Err(e) => format!("err {} {}", err_tok(e), cells_tok(&after.cells())),
    }
}

fn exec_t<T: Fam>(w: &[&str], out: &mut Out) -> String {
    let op = w.join(" ");
    let fs = T::fields();
    let mut it = Toks::new(&w[2..]);
    let r = catch(std::panic::AssertUnwindSafe(|| -> (String, Vec<(String, String)>) {
        let mut fails: Vec<(String, String)> = vec![];
        let ans = match w[1] {
            "new" => def_tok(&T::template_definition()),
            "inst" => {
                let a = T::from_cells(&parse_cells(&mut it));
                let i = a.template_instance();
                let d = T::template_definition();
                if decls_m(&i.metrics) != decls_m(&d.metrics) || decls_p(&i.parameters) != decls_p(&d.parameters) {
                    fails.push(("C17:instance-names-definition".into(), "instance and definition name different metrics/parameters/datatypes".into()));
                }
                if i.version != d.version || i.template_ref != T::template_definition_metric_name() {
                    fails.push(("C17:instance-names-definition".into(), "instance carries another reference or version".into()));
                }
                inst_tok(&i)
            }
            "rt" => {
                let ac = parse_cells(&mut it);
                let a = T::from_cells(&ac);
                match T::try_from(a.template_instance()) {
                    Ok(a2) => {
                        let c2 = a2.cells();
                        if !same_tree(&fs, &ac, &c2) {
                            fails.push(("C17:roundtrip".into(), format!("rebuilt struct differs on a non-skipped field: {}", cells_tok(&c2))));
                        }
                        format!("ok {}", cells_tok(&c2))
                    }
                    Err(e) => {
                        fails.push(("C17:roundtrip".into(), format!("own instance rejected: {}", err_tok(&e))));
                        format!("err {}", err_tok(&e))
                    }
                }
            }
            "from" => match T::try_from(parse_inst(&mut it)) {
                Ok(a2) => format!("ok {}", cells_tok(&a2.cells())),
                Err(e) => format!("err {}", err_tok(&e)),
            },
            "diff" | "patch" => {
                let bc = parse_cells(&mut it);
                let ac = parse_cells(&mut it);
                let (b, a) = (T::from_cells(&bc), T::from_cells(&ac));
                let d = b.template_instance_from_difference(&a);
                let agree = agree_tree(&fs, &bc, &ac);
                if d.is_none() != agree {
                    fails.push((
                        "C17:diff-none-iff-agree".into(),
                        format!("difference is {} but the values {} on all template fields", if d.is_none() { "absent" } else { "present" }, if agree { "agree" } else { "do not agree" }),
                    ));
                }
                if let Some(di) = &d {
                    let (wm, wp) = differing(&fs, &bc, &ac);
                    let gm: Vec<String> = di.metrics.iter().map(|m| m.name.clone().unwrap_or_default()).collect();
                    let gp: Vec<String> = di.parameters.iter().map(|p| p.name.clone().unwrap_or_default()).collect();
                    if gm != wm || gp != wp {
                        fails.push(("C17:diff-only-differing".into(), format!("difference names metrics {:?} parameters {:?}; differing fields are {:?} {:?}", gm, gp, wm, wp)));
                    }
                    let def = T::template_definition();
                    let (dm, dp) = (decls_m(&def.metrics), decls_p(&def.parameters));
                    if !decls_m(&di.metrics).iter().all(|e| dm.contains(e)) || !decls_p(&di.parameters).iter().all(|e| dp.contains(e)) {
                        fails.push(("C17:diff-only-differing".into(), "a difference entry is not a declared metric/parameter with its datatype".into()));
                    }
                }
                if w[1] == "diff" {
                    match &d {
                        None => "none".into(),
                        Some(di) => format!("some {}", inst_tok(di)),
                    }
                } else {
                    match d {
                        None => "none".into(),
                        Some(di) => {
                            let mut a2 = a.clone();
                            let r = a2.update_from_instance(di);
                            let c2 = a2.cells();
                            match &r {
                                Err(e) => fails.push(("C17:patch-makes-equal".into(), format!("own difference rejected: {}", err_tok(e)))),
                                Ok(()) => {
                                    if !patched_tree(&fs, &ac, &bc, &c2) {
                                        fails.push(("C17:patch-makes-equal".into(), format!("after the patch a field is neither b's nor an untouched equal one: {}", cells_tok(&c2))));
                                    }
                                    if agree_tree(&fs, &bc, &bc) && !agree_tree(&fs, &bc, &c2) {
                                        fails.push(("C17:patch-makes-equal".into(), format!("after the patch a != b on a template field: {}", cells_tok(&c2))));
                                    }
                                }
                            }
                            upd_answer(&r, &a2)
                        }
                    }
                }
            }
            "upd" | "updf" => {
                let ac = parse_cells(&mut it);
                let a = T::from_cells(&ac);
                let i = parse_inst(&mut it);
                let mut a2 = a.clone();
                let r = a2.update_from_instance(i);
                if r.is_err() && a2.cells() != ac {
                    fails.push(("C17:error-leaves-target".into(), format!("rejected instance changed the target to {}", cells_tok(&a2.cells()))));
                }
                if w[1] == "updf" && r.is_ok() {
                    fails.push(("C17:foreign-rejected".into(), "instance naming another template / version / unknown field was accepted".into()));
                }
                upd_answer(&r, &a2)
            }
            x => panic!("bad op {}", x),
        };
        (ans, fails)
    }));
    match r {
        Ok((a, fails)) => {
            for (clause, detail) in fails {
                out.fail(&clause, T::ID, format!("{} :: {}", detail, op));
            }
            a
        }
        Err(msg) => {
            if msg == "shape" || msg.starts_with("bad ") {
                panic!("harness bug: {} on {}", msg, op);
            }
            out.fail("C17:no-panic", T::ID, format!("{} panicked: {}", op, msg));
            // C19: no received template value - whatever its reference, version, metrics - makes the decoding
            // of a user template type panic (`from` / `upd` / `updf` are the decode paths)
            if matches!(w[1], "from" | "upd" | "updf") {
                let ver = if T::template_version().is_some() { "versioned" } else { "unversioned" };
                out.fail("C19:no-panic", &format!("derive:{}:{}:{}", w[1], T::ID, ver), format!("{} panicked: {}", op, msg));
            }
            "panic".into()
        }
    }
}

/// state of a case: the family member named by the last `derive new`
pub struct Ctx {
    pub id: String,
}

pub fn exec(ctx: &mut Ctx, op: &str, out: &mut Out) -> String {
    let _crumb = crate::common::crumb::guard(op);
    let w: Vec<&str> = op.split(' ').collect();
    assert_eq!(w[0], "derive");
    if w[1] == "new" {
        ctx.id = w[2].to_string();
    }
    let id = ctx.id.clone();
    dispatch!(id.as_str(), exec_t, &w, out)
}

// ------------------------------------------------------------------------------------------
// generators
// ------------------------------------------------------------------------------------------

fn new_line<T: Fam>() -> String {
    format!("derive new {} {}", T::ID, schema_tok(&schema_of::<T>()))
}

fn begin<T: Fam>(ctx: &mut Ctx, out: &mut Out) {
    let op = new_line::<T>();
    let a = exec(ctx, &op, out);
    out.begin_case(&op, &a);
}
fn line(ctx: &mut Ctx, out: &mut Out, op: &str) -> String {
    let a = exec(ctx, op, out);
    out.line(op, &a);
    a
}

/// names an instance can use that the struct does not know as a metric (resp. parameter):
/// junk, identifiers hidden by a rename, skipped fields, and names of the other namespace
fn unknown_names(fs: &[FieldDesc], want_param: bool) -> Vec<String> {
    let mut known = vec![];
    let mut other = vec![];
    for f in fs {
        match f {
            FieldDesc::Scalar { wire, skip, param, .. } => {
                if !*skip && *param == want_param {
                    known.push(wire.clone())
                } else {
                    other.push(wire.clone())
                }
            }
            FieldDesc::Nested { wire, skip, .. } => {
                if !*skip && !want_param {
                    known.push(wire.clone())
                } else {
                    other.push(wire.clone())
                }
            }
        }
    }
    let mut v: Vec<String> = ["UNKNOWN", "", " ", "value", "rpm", "head", "bee", "second", "A", "ä"].iter().map(|s| s.to_string()).collect();
    v.extend(other);
    v.retain(|n| !known.contains(n));
    v.sort();
    v.dedup();
    v
}

fn sample_metric_value(rng: &mut Rng) -> Option<metric::Value> {
    match rng.below(12) {
        0 => None,
        1 => Some(metric::Value::IntValue(gen_bits(rng) as u32)),
        2 => Some(metric::Value::LongValue(gen_bits(rng))),
        3 => Some(metric::Value::FloatValue(f32::from_bits(*rng.pick(&F32S)))),
        4 => Some(metric::Value::DoubleValue(f64::from_bits(*rng.pick(&F64S)))),
        5 => Some(metric::Value::BooleanValue(rng.chance(1, 2))),
        6 => Some(metric::Value::StringValue(<String as Leafy>::gen(rng, false))),
        7 => Some(metric::Value::BytesValue(vec![1, 2, 3])),
        8 => pv_metric_parse("dataset:-"),
        9 => pv_metric_parse("ext:-"),
        10 => Some(metric::Value::TemplateValue(payload::Template {
            version: None,
            metrics: vec![],
            parameters: vec![],
            template_ref: if rng.chance(1, 2) { Some("leaf:2".into()) } else { None },
            is_definition: *rng.pick(&[None, Some(true), Some(false)]),
        })),
        _ => Some(metric::Value::IntValue(rng.below(300) as u32)),
    }
}
fn sample_param_value(rng: &mut Rng) -> Option<parameter::Value> {
    match rng.below(9) {
        0 => None,
        1 => Some(parameter::Value::IntValue(gen_bits(rng) as u32)),
        2 => Some(parameter::Value::LongValue(gen_bits(rng))),
        3 => Some(parameter::Value::FloatValue(f32::from_bits(*rng.pick(&F32S)))),
        4 => Some(parameter::Value::DoubleValue(f64::from_bits(*rng.pick(&F64S)))),
        5 => Some(parameter::Value::BooleanValue(rng.chance(1, 2))),
        6 => Some(parameter::Value::StringValue(<String as Leafy>::gen(rng, false))),
        7 => pv_param_parse("ext:-"),
        _ => Some(parameter::Value::IntValue(rng.below(300) as u32)),
    }
}

/// schema of the nested template a metric of that name addresses
fn nested_schema<'a>(fs: &'a [FieldDesc], name: &Option<String>) -> Option<&'a SchemaDesc> {
    fs.iter().find_map(|f| match f {
        FieldDesc::Nested { wire, skip, schema, .. } if !*skip && Some(wire) == name.as_ref() => Some(schema),
        _ => None,
    })
}

/// one mutation that does NOT by itself make the instance foreign (it may make it invalid for
/// another reason). Returns a label.
fn mutate_plain(fs: &[FieldDesc], ms: &mut Vec<payload::Metric>, ps: &mut Vec<payload::template::Parameter>, rng: &mut Rng, depth: u32) -> &'static str {
    match rng.below(14) {
        0 if !ms.is_empty() => {
            let i = rng.below(ms.len() as u64) as usize;
            ms.remove(i);
            "drop-metric"
        }
        1 if !ps.is_empty() => {
            let i = rng.below(ps.len() as u64) as usize;
            ps.remove(i);
            "drop-param"
        }
        2 if !ms.is_empty() => {
            let i = rng.below(ms.len() as u64) as usize;
            let mut m = ms[i].clone();
            if rng.chance(1, 2) {
                m.value = sample_metric_value(rng);
            }
            let at = rng.below(ms.len() as u64 + 1) as usize;
            ms.insert(at, m);
            "dup-metric"
        }
        3 if !ps.is_empty() => {
            let i = rng.below(ps.len() as u64) as usize;
            let mut p = ps[i].clone();
            if rng.chance(1, 2) {
                p.value = sample_param_value(rng);
            }
            ps.push(p);
            "dup-param"
        }
        4 if !ms.is_empty() => {
            let i = rng.below(ms.len() as u64) as usize;
            ms[i].name = None;
            "metric-name-none"
        }
        5 if !ps.is_empty() => {
            let i = rng.below(ps.len() as u64) as usize;
            ps[i].name = None;
            "param-name-none"
        }
        6 if !ms.is_empty() => {
            let i = rng.below(ms.len() as u64) as usize;
            ms[i].value = sample_metric_value(rng);
            "metric-value"
        }
        7 if !ps.is_empty() => {
            let i = rng.below(ps.len() as u64) as usize;
            ps[i].value = sample_param_value(rng);
            "param-value"
        }
        8 if !ms.is_empty() => {
            let i = rng.below(ms.len() as u64) as usize;
            ms[i].datatype = *rng.pick(&[None, Some(0), Some(3), Some(12), Some(19), Some(99)]);
            "metric-datatype"
        }
        9 if !ps.is_empty() => {
            let i = rng.below(ps.len() as u64) as usize;
            ps[i].r#type = *rng.pick(&[None, Some(0), Some(3), Some(12), Some(99)]);
            "param-type"
        }
        10 => {
            rng.shuffle(ms);
            rng.shuffle(ps);
            "reorder"
        }
        11 | 12 => {
            // inside a nested instance
            let idx: Vec<usize> = (0..ms.len()).filter(|i| matches!(ms[*i].value, Some(metric::Value::TemplateValue(_)))).collect();
            if idx.is_empty() || depth > 2 {
                return "none";
            }
            let i = *rng.pick(&idx);
            let sub = nested_schema(fs, &ms[i].name).cloned();
            if let Some(metric::Value::TemplateValue(t)) = &mut ms[i].value {
                match rng.below(4) {
                    0 => {
                        t.is_definition = *rng.pick(&[None, Some(true)]);
                        "nested-is-definition"
                    }
                    1 => {
                        t.template_ref = None;
                        "nested-ref-none"
                    }
                    _ => match sub {
                        Some(s) => mutate_plain(&s.fields, &mut t.metrics, &mut t.parameters, rng, depth + 1),
                        None => "none",
                    },
                }
            } else {
                "none"
            }
        }
        _ => "none",
    }
}

/// one mutation that makes the instance foreign in the sense of the property: another
/// template reference, another version, an unknown metric or parameter — at the top level or
/// inside the instance sent to a nested template field. `None` if not applicable.
fn mutate_foreign(fs: &[FieldDesc], reff: &mut String, ver: &mut Option<String>, ms: &mut Vec<payload::Metric>, ps: &mut Vec<payload::template::Parameter>, rng: &mut Rng, depth: u32) -> Option<&'static str> {
    match rng.below(7) {
        0 => {
            *reff = match rng.below(4) {
                0 => String::new(),
                1 => format!("{}x", reff),
                2 => "leaf:2".to_string() + if reff == "leaf:2" { "0" } else { "" },
                _ => reff.to_uppercase() + "!",
            };
            Some("foreign-ref")
        }
        1 => {
            *ver = match ver {
                None => Some(rng.pick(&["", "1", "2"]).to_string()),
                Some(v) => {
                    if rng.chance(1, 2) {
                        None
                    } else {
                        Some(format!("{}.1", v))
                    }
                }
            };
            Some("foreign-version")
        }
        2 | 3 => {
            let names = unknown_names(fs, false);
            let name = rng.pick(&names).clone();
            let at = rng.below(ms.len() as u64 + 1) as usize;
            let v = if rng.chance(1, 2) { Some(metric::Value::IntValue(0)) } else { sample_metric_value(rng) };
            ms.insert(at, mk_metric(Some(name), Some(3), v));
            Some("unknown-metric")
        }
        4 => {
            let names = unknown_names(fs, true);
            let name = rng.pick(&names).clone();
            let at = rng.below(ps.len() as u64 + 1) as usize;
            ps.insert(at, payload::template::Parameter { name: Some(name), r#type: Some(3), value: if rng.chance(1, 2) { Some(parameter::Value::IntValue(0)) } else { sample_param_value(rng) } });
            Some("unknown-param")
        }
        _ => {
            // foreign inside a nested instance that is addressed to a nested template field and
            // carries a reference
            if depth > 2 {
                return None;
            }
            let idx: Vec<usize> = (0..ms.len())
                .filter(|i| match &ms[*i].value {
                    Some(metric::Value::TemplateValue(t)) => t.template_ref.is_some() && nested_schema(fs, &ms[*i].name).is_some(),
                    _ => false,
                })
                .collect();
            if idx.is_empty() {
                return None;
            }
            let i = *rng.pick(&idx);
            let sub = nested_schema(fs, &ms[i].name).unwrap().clone();
            if let Some(metric::Value::TemplateValue(t)) = &mut ms[i].value {
                let mut r = t.template_ref.clone().unwrap();
                let k = mutate_foreign(&sub.fields, &mut r, &mut t.version, &mut t.metrics, &mut t.parameters, rng, depth + 1);
                t.template_ref = Some(r);
                k.map(|k| match k {
                    "foreign-ref" => "nested-foreign-ref",
                    "foreign-version" => "nested-foreign-version",
                    "unknown-metric" => "nested-unknown-metric",
                    "unknown-param" => "nested-unknown-param",
                    x => x,
                })
            } else {
                None
            }
        }
    }
}

/// random pair: lines inst/rt/diff/patch in both directions
fn pair_case<T: Fam>(ctx: &mut Ctx, out: &mut Out, rng: &mut Rng, nan: bool) {
    let a = T::gen(rng, nan);
    let c = T::gen(rng, nan);
    let (b, how) = match rng.below(6) {
        0 => (a.clone(), "pair:equal"),
        1 => (c, "pair:independent"),
        _ => (a.mix(&c, rng), "pair:mixed"),
    };
    begin::<T>(ctx, out);
    let (at, bt) = (cells_tok(&a.cells()), cells_tok(&b.cells()));
    line(ctx, out, &format!("derive inst {}", at));
    line(ctx, out, &format!("derive rt {}", at));
    let d = line(ctx, out, &format!("derive diff {} {}", bt, at));
    line(ctx, out, &format!("derive patch {} {}", bt, at));
    line(ctx, out, &format!("derive patch {} {}", at, bt));
    line(ctx, out, &format!("derive diff {} {}", at, at));
    if d != "none" {
        out.nontrivial();
        out.count("pair:differing");
    } else {
        out.count("pair:agreeing");
    }
    out.count(how);
    out.count(if nan { "values:nan-allowed" } else { "values:nan-free" });
    out.count(&format!("struct:{}", T::ID));
}

/// mutated instance: a valid instance (full, or a difference) of the struct, 0..2 plain
/// mutations, then possibly one foreign mutation
fn mutation_case<T: Fam>(ctx: &mut Ctx, out: &mut Out, rng: &mut Rng) {
    let fs = T::fields();
    let a = T::gen(rng, true);
    let b = T::gen(rng, true).mix(&a, rng);
    let base = match rng.below(3) {
        0 => b.template_instance_from_difference(&a).unwrap_or_else(|| b.template_instance()),
        _ => b.template_instance(),
    };
    let mut i = clone_inst(&base);
    begin::<T>(ctx, out);
    for _ in 0..rng.below(3) {
        let k = mutate_plain(&fs, &mut i.metrics, &mut i.parameters, rng, 0);
        out.count(&format!("mutation:{}", k));
    }
    let foreign = if rng.chance(3, 5) { mutate_foreign(&fs, &mut i.template_ref, &mut i.version, &mut i.metrics, &mut i.parameters, rng, 0) } else { None };
    let at = cells_tok(&a.cells());
    let it = inst_tok(&i);
    line(ctx, out, &format!("derive from {}", it));
    match foreign {
        Some(k) => {
            out.count(&format!("mutation:{}", k));
            line(ctx, out, &format!("derive updf {} {}", at, it));
        }
        None => {
            line(ctx, out, &format!("derive upd {} {}", at, it));
        }
    }
    out.nontrivial();
    out.count(&format!("struct:{}", T::ID));
}

/// every single mutation of a fixed kind at every position of the full instance
fn mutation_matrix<T: Fam>(ctx: &mut Ctx, out: &mut Out, rng: &mut Rng) {
    let fs = T::fields();
    let a = T::gen(rng, false);
    let b = T::gen(rng, false);
    let at = cells_tok(&a.cells());
    let base = b.template_instance();
    let mvals: Vec<Option<metric::Value>> = vec![
        None,
        Some(metric::Value::IntValue(300)),
        Some(metric::Value::LongValue(1 << 40)),
        Some(metric::Value::FloatValue(1.5)),
        Some(metric::Value::DoubleValue(-2.5)),
        Some(metric::Value::BooleanValue(true)),
        Some(metric::Value::StringValue("s".into())),
        Some(metric::Value::BytesValue(vec![0])),
        pv_metric_parse("dataset:-"),
        pv_metric_parse("ext:-"),
        Some(metric::Value::TemplateValue(payload::Template { version: None, metrics: vec![], parameters: vec![], template_ref: Some("leaf:2".into()), is_definition: Some(false) })),
        Some(metric::Value::TemplateValue(payload::Template { version: None, metrics: vec![], parameters: vec![], template_ref: None, is_definition: None })),
    ];
    let pvals: Vec<Option<parameter::Value>> = vec![
        None,
        Some(parameter::Value::IntValue(300)),
        Some(parameter::Value::LongValue(1 << 40)),
        Some(parameter::Value::FloatValue(1.5)),
        Some(parameter::Value::DoubleValue(-2.5)),
        Some(parameter::Value::BooleanValue(true)),
        Some(parameter::Value::StringValue("s".into())),
        pv_param_parse("ext:-"),
    ];
    begin::<T>(ctx, out);
    let emit = |ctx: &mut Ctx, out: &mut Out, i: &TemplateInstance, foreign: bool| {
        let it = inst_tok(i);
        line(ctx, out, &format!("derive from {}", it));
        line(ctx, out, &format!("derive {} {} {}", if foreign { "updf" } else { "upd" }, at, it));
    };
    emit(ctx, out, &base, false);
    for k in 0..base.metrics.len() {
        let mut i = clone_inst(&base);
        i.metrics.remove(k);
        emit(ctx, out, &i, false);
        let mut i = clone_inst(&base);
        i.metrics[k].name = None;
        emit(ctx, out, &i, false);
        for n in unknown_names(&fs, false).iter().take(6) {
            let mut i = clone_inst(&base);
            i.metrics[k].name = Some(n.clone());
            emit(ctx, out, &i, true);
        }
        for v in &mvals {
            let mut i = clone_inst(&base);
            i.metrics[k].value = v.clone();
            emit(ctx, out, &i, false);
        }
        let mut i = clone_inst(&base);
        let m = i.metrics[k].clone();
        i.metrics.push(m);
        emit(ctx, out, &i, false);
    }
    for k in 0..base.parameters.len() {
        let mut i = clone_inst(&base);
        i.parameters.remove(k);
        emit(ctx, out, &i, false);
        let mut i = clone_inst(&base);
        i.parameters[k].name = None;
        emit(ctx, out, &i, false);
        for n in unknown_names(&fs, true).iter().take(6) {
            let mut i = clone_inst(&base);
            i.parameters[k].name = Some(n.clone());
            emit(ctx, out, &i, true);
        }
        for v in &pvals {
            let mut i = clone_inst(&base);
            i.parameters[k].value = v.clone();
            emit(ctx, out, &i, false);
        }
    }
    // reference / version matrix
    for r in ["", "x", "leaf:2", "Types/Floats", "tiny"] {
        if r != base.template_ref {
            let mut i = clone_inst(&base);
            i.template_ref = r.to_string();
            emit(ctx, out, &i, true);
        }
    }
    for v in [None, Some(""), Some("1.0"), Some("2"), Some("v1"), Some("t"), Some("9")] {
        let v = v.map(|s: &str| s.to_string());
        if v != base.version {
            let mut i = clone_inst(&base);
            i.version = v;
            emit(ctx, out, &i, true);
        }
    }
    // hostile references (C19): received strings cut / compared against the expected `name[:version]`, top level
    // and inside every nested template value
    let hostile = hostile_refs(&base.template_ref);
    for r in &hostile {
        if *r != base.template_ref {
            let mut i = clone_inst(&base);
            i.template_ref = r.clone();
            emit(ctx, out, &i, true);
            out.count("matrix:hostile-ref");
        }
    }
    for k in 0..base.metrics.len() {
        let inner = match &base.metrics[k].value {
            Some(metric::Value::TemplateValue(t)) => t.template_ref.clone(),
            _ => None,
        };
        if let Some(inner) = inner {
            for r in hostile_refs(&inner) {
                let mut i = clone_inst(&base);
                if let Some(metric::Value::TemplateValue(t)) = &mut i.metrics[k].value {
                    t.template_ref = Some(r.clone());
                }
                // a nested reference equal to the expected one is no foreign instance
                emit(ctx, out, &i, r != inner);
                out.count("matrix:hostile-nested-ref");
            }
        }
    }
    // empty instance
    emit(ctx, out, &TemplateInstance { template_ref: base.template_ref.clone(), version: base.version.clone(), metrics: vec![], parameters: vec![] }, false);
    out.nontrivial();
    out.count("matrix:single-mutation");
    out.count(&format!("struct:{}", T::ID));
}

/// references a hostile sender can put where `expected` (= `name` or `name:version`) belongs: empty, every proper
/// prefix, a multi-byte character (2, 3, 4 bytes) inserted at / replacing the character at every offset (so that it
/// straddles any byte offset the decoder may cut at), the name alone, other versions, separators only, very long
fn hostile_refs(expected: &str) -> Vec<String> {
    let mut v: Vec<String> = vec![String::new()];
    let chars: Vec<char> = expected.chars().collect();
    for k in 1..chars.len() {
        v.push(chars[..k].iter().collect());
    }
    for k in 0..=chars.len() {
        for c in ['ö', '日', '😀'] {
            let mut ins: Vec<char> = chars.clone();
            ins.insert(k, c);
            v.push(ins.iter().collect());
            if k < chars.len() {
                let mut rep = chars.clone();
                rep[k] = c;
                v.push(rep.iter().collect());
                // cut right behind the multi-byte character
                v.push(rep[..=k].iter().collect());
            }
        }
    }
    let name = expected.split(':').next().unwrap_or("").to_string();
    v.push(name.clone());
    v.push(format!("{}:", name));
    v.push(format!("{}:other", name));
    v.push(format!("{}::", expected));
    v.push(":".into());
    v.push(format!(":{}", expected));
    v.push("x".repeat(5000));
    v.push(format!("{}{}", expected, "é".repeat(2000)));
    v.sort();
    v.dedup();
    v
}

/// all values of a type given per-field value lists
fn all_values(fields: &[Vec<Cell>]) -> Vec<Vec<Cell>> {
    let mut acc: Vec<Vec<Cell>> = vec![vec![]];
    for f in fields {
        let mut next = vec![];
        for pre in &acc {
            for v in f {
                let mut p = pre.clone();
                p.push(v.clone());
                next.push(p);
            }
        }
        acc = next;
    }
    acc
}

fn exhaustive_pairs<T: Fam>(ctx: &mut Ctx, out: &mut Out, vals: &[Vec<Cell>]) {
    for a in vals {
        begin::<T>(ctx, out);
        let at = cells_tok(a);
        line(ctx, out, &format!("derive rt {}", at));
        for b in vals {
            let bt = cells_tok(b);
            line(ctx, out, &format!("derive diff {} {}", bt, at));
            line(ctx, out, &format!("derive patch {} {}", bt, at));
        }
        out.nontrivial();
        out.count_n(&format!("exhaustive-pairs:{}", T::ID), vals.len() as u64);
    }
}

/// an instance assembled from scratch: names drawn from the struct's own names and junk
fn arbitrary_case<T: Fam>(ctx: &mut Ctx, out: &mut Out, rng: &mut Rng) {
    let fs = T::fields();
    let mut pool: Vec<String> = unknown_names(&fs, false);
    pool.extend(unknown_names(&fs, true));
    for f in &fs {
        match f {
            FieldDesc::Scalar { wire, .. } | FieldDesc::Nested { wire, .. } => {
                pool.push(wire.clone());
                pool.push(wire.clone());
                pool.push(wire.clone());
            }
        }
    }
    let sd = schema_of::<T>();
    let own_ref = T::template_definition_metric_name();
    let mut ms = vec![];
    for _ in 0..rng.below(5) {
        let name = if rng.chance(1, 12) { None } else { Some(rng.pick(&pool).clone()) };
        ms.push(mk_metric(name, Some(rng.below(35) as u32), sample_metric_value(rng)));
    }
    let mut ps = vec![];
    for _ in 0..rng.below(4) {
        let name = if rng.chance(1, 12) { None } else { Some(rng.pick(&pool).clone()) };
        ps.push(payload::template::Parameter { name, r#type: Some(rng.below(20) as u32), value: sample_param_value(rng) });
    }
    let i = TemplateInstance {
        template_ref: if rng.chance(4, 5) { own_ref } else { rng.pick(&["", "leaf:2", "mid"]).to_string() },
        version: if rng.chance(4, 5) { sd.ver.clone() } else { rng.pick(&[None, Some("1".to_string())]).clone() },
        metrics: ms,
        parameters: ps,
    };
    let a = T::gen(rng, true);
    begin::<T>(ctx, out);
    let it = inst_tok(&i);
    line(ctx, out, &format!("derive from {}", it));
    line(ctx, out, &format!("derive upd {} {}", cells_tok(&a.cells()), it));
    out.nontrivial();
    out.count("arbitrary-instance");
    out.count(&format!("struct:{}", T::ID));
}

fn per_struct<T: Fam>(ctx: &mut Ctx, out: &mut Out, rng: &mut Rng, th: bool) {
    let n = if th { 1500 } else { 160 };
    for k in 0..n {
        pair_case::<T>(ctx, out, rng, k % 4 == 0);
    }
    for _ in 0..n {
        mutation_case::<T>(ctx, out, rng);
    }
    for _ in 0..n / 2 {
        arbitrary_case::<T>(ctx, out, rng);
    }
    for _ in 0..(if th { 4 } else { 1 }) {
        mutation_matrix::<T>(ctx, out, rng);
    }
}


// ------------------------------------------------------------------------------------------
// template values published through a `MetricToken<T>` of a REAL node: `create_publish_template_metric`
// and `create_publish_template_metric_from_difference` (srad-eon/src/metric.rs), NBIRTH -> NDATA ->
// prost bytes -> `topic_and_payload_to_event` -> `TemplateInstance::try_from` -> rebuild / patch.
// No model line: direct oracles over what the client was handed (C17 laws at the receiving end,
// C11 "published through a token = identified as the latest birth declared").
// ------------------------------------------------------------------------------------------
struct TokMgr<T: Fam>(std::sync::Arc<std::sync::Mutex<Option<srad_eon::MetricToken<T>>>>, T, bool);
impl<T: Fam + Send + Sync> srad_eon::MetricManager for TokMgr<T> {
    fn initialise_birth(&self, bi: &mut srad_eon::BirthInitializer) {
        let d = srad_eon::BirthMetricDetails::new_template_metric("t", self.1.clone()).use_alias(self.2);
        *self.0.lock().unwrap() = bi.register_template_metric(d).ok();
    }
}
impl<T: Fam + Send + Sync> srad_eon::NodeMetricManager for TokMgr<T> {}

/// the metric `t` of a payload that went through the wire: (alias, name, decoded template instance)
fn wire_metric(call: &crate::mock::Call) -> Option<(Option<u64>, Option<String>, Result<TemplateInstance, String>)> {
    use prost::Message as _;
    let bytes = call.payload.as_ref()?.encode_to_vec();
    let ev = srad_client::topic_and_payload_to_event(call.topic.clone().into_bytes(), bytes.into());
    let payload = match ev {
        srad_client::Event::Node(node_message) => node_message.message.payload,
        _ => return None,
    };
    let m = payload.metrics.into_iter().find(|m| {
        m.datatype == Some(payload::DataType::Template as u32) && m.value.as_ref().map(|v| matches!(v, metric::Value::TemplateValue(t) if t.is_definition != Some(true))).unwrap_or(false)
            || (m.datatype.is_none() && matches!(m.value, Some(metric::Value::TemplateValue(_))))
    })?;
    let inst = match m.value.clone() {
        Some(v) => TemplateInstance::try_from(srad_types::MetricValue::from(v)).map_err(|_| "not an instance".to_string()),
        None => Err("no value".into()),
    };
    Some((m.alias, m.name.clone(), inst))
}

fn token_case<T: Fam + Send + Sync + PartialEq + std::fmt::Debug>(_ctx: &mut Ctx, out: &mut Out, rng: &mut Rng, _th: bool) {
    use crate::mock::{mock_pair, runtime, set_clocks, settle, Kind};
    use srad_eon::MetricPublisher;
    for round in 0..3 {
        let a = T::gen(rng, false);
        let b = match round {
            0 => a.clone(),
            1 => T::gen(rng, false),
            _ => a.mix(&T::gen(rng, false), rng),
        };
        let alias = rng.chance(1, 2);
        let feature = format!("{}:{}", T::ID, if alias { "alias" } else { "name" });
        let slot = std::sync::Arc::new(std::sync::Mutex::new(None));
        let rt = runtime();
        let (hub, client, el, feeder) = mock_pair();
        let mgr = TokMgr::<T>(slot.clone(), a.clone(), alias);
        let built = catch(std::panic::AssertUnwindSafe(|| {
            let _in_rt = rt.enter();
            srad_eon::EoNBuilder::new(el, client)
                .with_group_id("g")
                .with_node_id("n")
                .register_template::<Scalars>()
                .register_template::<Opts>()
                .register_template::<Params>()
                .register_template::<Renamed>()
                .register_template::<Defaults>()
                .register_template::<Leaf>()
                .register_template::<Mid>()
                .register_template::<Top>()
                .register_template::<Single>()
                .register_template::<OnlyParams>()
                .register_template::<Floats>()
                .register_template::<NestDefault>()
                .register_template::<Tiny>()
                .register_template::<TinyOuter>()
                .with_metric_manager(mgr)
                .build()
        }));
        let (eon, node) = match built {
            Ok(Ok(x)) => x,
            other => {
                out.fail("C17:published-instance-rebuilds", &format!("{}:family-does-not-register", T::ID), format!("{:?}", other.map(|r| r.map(|_| ()))));
                return;
            }
        };
        let desc = format!("token-e2e {} a={} b={}", T::ID, cells_tok(&a.cells()), cells_tok(&b.cells()));
        begin::<T>(_ctx, out);
        out.set_desc(desc.clone());
        let (a2, b2, slot2) = (a.clone(), b.clone(), slot.clone());
        let node2 = node.clone();
        let res: Result<(bool, bool), String> = rt.block_on(async move {
            set_clocks(1_000_000);
            tokio::spawn(async move { eon.run().await });
            feeder.push(srad_client::Event::Online);
            settle().await;
            let tok = slot2.lock().unwrap().take().ok_or("the template metric did not register in the birth")?;
            let full = tok.create_publish_template_metric(b2.clone());
            node2.publish_metric(full).await.map_err(|e| format!("publish of the full instance failed: {:?}", e))?;
            settle().await;
            let diff = tok.create_publish_template_metric_from_difference(b2.clone(), &a2);
            let had_diff = diff.is_some();
            let mut published_diff = false;
            if let Some(d) = diff {
                node2.try_publish_metrics(vec![d]).await.map_err(|e| format!("publish of the difference failed: {:?}", e))?;
                published_diff = true;
                settle().await;
            }
            node2.cancel().await;
            Ok((had_diff, published_diff))
        });
        drop(rt);
        let calls = hub.calls();
        let births: Vec<_> = calls.iter().filter(|c| c.kind == Kind::NBirth).collect();
        let datas: Vec<_> = calls.iter().filter(|c| c.kind == Kind::NData).collect();
        let here = |m: &str| format!("{}: {}", desc, m);
        match res {
            Err(e) => out.fail("C17:published-instance-rebuilds", &feature, here(&e)),
            Ok((had_diff, _)) => {
                // the birth declares metric `t`
                let declared = births.first().and_then(|c| wire_metric(c));
                let (decl_alias, decl_inst) = match &declared {
                    Some((al, Some(n), inst)) if n == "t" => (*al, inst),
                    _ => {
                        out.fail("C11:token-identifies-birth-metric", &feature, here("the NBIRTH does not declare the template metric `t`"));
                        continue;
                    }
                };
                if alias != decl_alias.is_some() {
                    out.fail("C11:token-identifies-birth-metric", &feature, here(&format!("use_alias({}) but the birth declares alias {:?}", alias, decl_alias)));
                }
                match decl_inst {
                    Ok(i) if *i == a.template_instance() => {}
                    other => out.fail("C17:published-instance-rebuilds", &format!("{}:birth", feature), here(&format!("the birth carries {:?}, not the instance of the initial value", other))),
                }
                // the full publish: identified as declared, rebuilds to b
                match datas.first().and_then(|c| wire_metric(c)) {
                    None => out.fail("C17:published-instance-rebuilds", &feature, here("no NDATA with a template instance was handed over")),
                    Some((al, name, inst)) => {
                        let id_ok = if alias { al == decl_alias && name.is_none() } else { al.is_none() && name.as_deref() == Some("t") };
                        if !id_ok {
                            out.fail("C11:token-identifies-birth-metric", &feature, here(&format!("published as alias {:?} / name {:?}, declared alias {:?}", al, name, decl_alias)));
                        }
                        match inst {
                            Ok(i) => match T::try_from(i) {
                                Ok(r) if r.template_instance() == b.template_instance() => {}
                                Ok(r) => out.fail("C17:published-instance-rebuilds", &feature, here(&format!("rebuilt {:?}", r.cells()))),
                                Err(_) => out.fail("C17:published-instance-rebuilds", &feature, here("the received instance does not rebuild")),
                            },
                            Err(e) => out.fail("C17:published-instance-rebuilds", &feature, here(&e)),
                        }
                    }
                }
                // the difference: absent iff a and b agree on all template fields; applied to a gives b
                let agree = a.template_instance() == b.template_instance();
                if had_diff == agree {
                    out.fail("C17:difference-absent-iff-agree", &feature, here(&format!("difference present: {}, values agree: {}", had_diff, agree)));
                }
                if had_diff {
                    match datas.get(1).and_then(|c| wire_metric(c)) {
                        None => out.fail("C17:published-difference-patches", &feature, here("no second NDATA with a template instance")),
                        Some((_, _, Err(e))) => out.fail("C17:published-difference-patches", &feature, here(&e)),
                        Some((_, _, Ok(i))) => {
                            let mut t = a.clone();
                            match t.update_from_instance(i) {
                                Ok(()) if t.template_instance() == b.template_instance() => {}
                                Ok(()) => out.fail("C17:published-difference-patches", &feature, here(&format!("patched to {:?}", t.cells()))),
                                Err(_) => out.fail("C17:published-difference-patches", &feature, here("the received difference is refused")),
                            }
                        }
                    }
                }
            }
        }
        out.nontrivial();
        out.count("token-e2e");
    }
}

pub const RULE: &str = "family of 14 derived structs (all 12 scalar metric types; optional metrics; parameters incl. optional and DateTime; renamed/skipped/defaulted fields incl. names that collide with hidden identifiers, empty and non-ASCII names; parameters only; a single field; overridden definition metric name; nested templates to depth 2, nested default expression, skipped nested field), each paired with its schema literal (pairing checked: the real template_definition() must equal the model's). Per struct: random pairs (equal / independent / field-wise mixed; one in four with NaN allowed) through instance, round trip, difference and patch in both directions; valid instances (full or difference) with 0-2 structural mutations (drop/duplicate/reorder, absent names, every value variant, datatype noise, nested markers) and in 3/5 of the cases one foreign mutation (other reference, other version, unknown metric/parameter, also inside nested instances); instances assembled from scratch; a single-mutation matrix (every position x every mutation kind x every value variant). Exhaustive: all 12 values of Tiny and all 36 of TinyOuter in all ordered pairs; all 256 values of Single round-tripped and all pairs of 16 of them. Non-trivial = the pair differs or the instance was mutated/assembled; distinct = distinct op lines (hashed).";

pub fn run(args: &Args, out: &mut Out) -> &'static str {
    let mut rng = Rng::new(args.seed);
    let th = args.thorough();
    let mut ctx = Ctx { id: String::new() };
    // exhaustive small spaces
    let bools = vec![Cell::S("b:0".into()), Cell::S("b:1".into())];
    let obools = vec![Cell::S("~".into()), Cell::S("b:0".into()), Cell::S("b:1".into())];
    let tiny = all_values(&[bools.clone(), obools.clone(), bools.clone()]);
    exhaustive_pairs::<Tiny>(&mut ctx, out, &tiny);
    let tiny_cells: Vec<Cell> = tiny.iter().map(|v| Cell::N(v.clone())).collect();
    let outer = all_values(&[tiny_cells, obools.clone()]);
    exhaustive_pairs::<TinyOuter>(&mut ctx, out, &outer);
    out.exhaustive.push("all ordered pairs of the 12 values of Tiny {bool, Option<bool>, parameter bool} and of the 36 values of TinyOuter {Tiny, parameter Option<bool>}: round trip, difference, patch".into());
    begin::<Single>(&mut ctx, out);
    for v in 0..256u32 {
        line(&mut ctx, out, &format!("derive rt V 1 n:{}", v));
    }
    let some16 = [0u32, 1, 2, 3, 7, 8, 127, 128, 129, 200, 254, 255, 100, 64, 32, 16];
    for a in some16 {
        for b in some16 {
            line(&mut ctx, out, &format!("derive patch V 1 n:{} V 1 n:{}", b, a));
        }
    }
    out.nontrivial();
    out.exhaustive.push("all 256 values of Single {u8} round-tripped; all ordered pairs of 16 of them patched".into());
    // random + matrix per struct
    for id in FAMILY {
        let mut r = rng.fork();
        dispatch!(id, per_struct, &mut ctx, out, &mut r, th);
    }
    // template values through a real node's MetricToken and the wire
    for id in FAMILY {
        let mut r = rng.fork();
        dispatch!(id, token_case, &mut ctx, out, &mut r, th);
    }
    out.exhaustive.push("per struct: every position of the full instance x {drop, absent name, 6 unknown names, 12 metric / 8 parameter value variants, duplicate}, 5 foreign references, 7 foreign versions; hostile references at the top level and in every nested template value (empty, every proper prefix of the expected `name[:version]`, a 2- / 3- / 4-byte character inserted at and replacing every character offset, cut behind it, name alone, other version, separators only, 5000 bytes), each decoded by try_from and update_from_instance".into());
    RULE
}

pub fn replay(_desc: &str, ops: &[String], out: &mut Out) {
    let mut ctx = Ctx { id: String::new() };
    let mut first = true;
    for l in ops {
        let a = exec(&mut ctx, l, out);
        if first {
            out.begin_case(l, &a);
            first = false;
        } else {
            out.line(l, &a);
        }
    }
}

// ------------------------------------------------------------------------------------------
// T-table `DeriveTable`: the leaf decisions the derived code delegates to template.rs /
// value.rs, enumerated through the compiled crate
// ------------------------------------------------------------------------------------------

fn lean_bytes(b: &[u8]) -> String {
    format!("[{}]", b.iter().map(|x| format!("0x{:02x}", x)).collect::<Vec<_>>().join(", "))
}
fn lean_cell(tok: &str) -> String {
    if tok == "~" {
        return "none".into();
    }
    let (k, f) = tok.split_once(':').unwrap();
    match k {
        "n" => format!("(some (SV.n {}))", f),
        "b" => format!("(some (SV.b {}))", if f == "1" { "true" } else { "false" }),
        _ => format!("(some (SV.s {}))", lean_bytes(&unhex(f))),
    }
}
fn lean_pv(tok: &str) -> String {
    if tok == "~" {
        return "none".into();
    }
    let (k, f) = tok.split_once(':').unwrap();
    match k {
        "int" | "long" | "float" | "double" => format!("(some (PV.{} {}))", k, f),
        "bool" => format!("(some (PV.bool {}))", if f == "1" { "true" } else { "false" }),
        "str" => format!("(some (PV.str {}))", lean_bytes(&unhex(f))),
        "bytes" => format!("(some (PV.bytes {}))", lean_bytes(&unhex(f))),
        "dataset" => "(some PV.dataset)".into(),
        _ => "(some PV.ext)".into(),
    }
}
const METRIC_SAMPLES: [&str; 27] = [
    "~", "int:0", "int:1", "int:255", "int:256", "int:65535", "int:65536", "int:4294967295", "long:0", "long:255",
    "long:4294967296", "long:18446744073709551615", "float:0", "float:1065353216", "float:2143289344",
    "double:0", "double:4607182418800017408", "double:9221120237041090561", "bool:0", "bool:1", "str:-", "str:61",
    "str:c3a9", "bytes:0100", "dataset:-", "ext:-", "TEMPLATE",
];
const PARAM_SAMPLES: [&str; 24] = [
    "~", "int:0", "int:1", "int:255", "int:256", "int:65535", "int:65536", "int:4294967295", "long:0", "long:255",
    "long:4294967296", "long:18446744073709551615", "float:0", "float:1065353216", "float:2143289344",
    "double:0", "double:4607182418800017408", "double:9221120237041090561", "bool:0", "bool:1", "str:-", "str:61",
    "str:c3a9", "ext:-",
];
fn sample_metric(tok: &str) -> Option<srad_types::MetricValue> {
    if tok == "TEMPLATE" {
        return Some(srad_types::MetricValue::new(metric::Value::TemplateValue(payload::Template {
            version: None,
            metrics: vec![],
            parameters: vec![],
            template_ref: Some("leaf:2".into()),
            is_definition: Some(false),
        })));
    }
    pv_metric_parse(tok).map(srad_types::MetricValue::new)
}
fn lean_mval(tok: &str) -> String {
    if tok == "TEMPLATE" {
        "MVal.templ".into()
    } else {
        format!("MVal.val {}", lean_pv(tok))
    }
}
fn res_cell<T: Leafy>(r: Result<T, ()>) -> String {
    match r {
        Ok(v) => format!("some {}", lean_cell(&v.tok())),
        Err(()) => "none".into(),
    }
}

fn conv_rows<T>(metric: &mut Vec<String>, param: &mut Vec<String>, dt: &mut Vec<String>)
where
    T: Leafy + srad_types::traits::MetricValue + srad_types::traits::ParameterValue,
{
    use srad_types::{TemplateMetricValue, TemplateParameterValue};
    let ty = T::TY;
    dt.push(format!("  (STy.{}, {}, {})", ty, T::default_datatype() as u32, <Option<T> as HasDataType>::default_datatype() as u32));
    for s in METRIC_SAMPLES {
        let r = catch(|| T::try_from_template_metric_value(sample_metric(s)).map_err(|_| ()));
        metric.push(format!("  (SKind.metric STy.{}, {}, {})", ty, lean_mval(s), res_cell(r.expect("panic in table"))));
        let r = catch(|| <Option<T>>::try_from_template_metric_value(sample_metric(s)).map_err(|_| ()));
        metric.push(format!("  (SKind.optMetric STy.{}, {}, {})", ty, lean_mval(s), res_cell(r.expect("panic in table"))));
    }
    for s in PARAM_SAMPLES {
        let v = || pv_param_parse(s).map(srad_types::ParameterValue::new);
        let r = catch(|| T::try_from_template_parameter_value(v()).map_err(|_| ()));
        param.push(format!("  (SKind.param STy.{}, {}, {})", ty, lean_pv(s), res_cell(r.expect("panic in table"))));
        let r = catch(|| <Option<T>>::try_from_template_parameter_value(v()).map_err(|_| ()));
        param.push(format!("  (SKind.optParam STy.{}, {}, {})", ty, lean_pv(s), res_cell(r.expect("panic in table"))));
    }
}

fn upd_rows<T>(upd: &mut Vec<String>, start: &str)
where
    T: Leafy + srad_types::TemplateMetricValuePartial + std::panic::RefUnwindSafe,
    Option<T>: srad_types::TemplateMetricValuePartial,
{
    use srad_types::TemplateMetricValuePartial;
    let ty = T::TY;
    for s in METRIC_SAMPLES {
        let mut tmp = T::untok(start);
        let r = tmp.try_update_from_metric_value(sample_metric(s)).map_err(|_| ());
        upd.push(format!("  (SKind.metric STy.{}, {}, {})", ty, lean_mval(s), res_cell(r.map(|_| tmp))));
        let mut tmp = Some(T::untok(start));
        let r = tmp.try_update_from_metric_value(sample_metric(s)).map_err(|_| ());
        upd.push(format!("  (SKind.optMetric STy.{}, {}, {})", ty, lean_mval(s), res_cell(r.map(|_| tmp))));
    }
}

pub fn table_derive() -> String {
    let (mut metric, mut param, mut dt, mut upd) = (vec![], vec![], vec![], vec![]);
    conv_rows::<bool>(&mut metric, &mut param, &mut dt);
    conv_rows::<u8>(&mut metric, &mut param, &mut dt);
    conv_rows::<u16>(&mut metric, &mut param, &mut dt);
    conv_rows::<u32>(&mut metric, &mut param, &mut dt);
    conv_rows::<u64>(&mut metric, &mut param, &mut dt);
    conv_rows::<i8>(&mut metric, &mut param, &mut dt);
    conv_rows::<i16>(&mut metric, &mut param, &mut dt);
    conv_rows::<i32>(&mut metric, &mut param, &mut dt);
    conv_rows::<i64>(&mut metric, &mut param, &mut dt);
    conv_rows::<f32>(&mut metric, &mut param, &mut dt);
    conv_rows::<f64>(&mut metric, &mut param, &mut dt);
    conv_rows::<String>(&mut metric, &mut param, &mut dt);
    conv_rows::<DateTime>(&mut metric, &mut param, &mut dt);
    upd_rows::<bool>(&mut upd, "b:1");
    upd_rows::<u8>(&mut upd, "n:77");
    upd_rows::<u16>(&mut upd, "n:77");
    upd_rows::<u32>(&mut upd, "n:77");
    upd_rows::<u64>(&mut upd, "n:77");
    upd_rows::<i8>(&mut upd, "n:77");
    upd_rows::<i16>(&mut upd, "n:77");
    upd_rows::<i32>(&mut upd, "n:77");
    upd_rows::<i64>(&mut upd, "n:77");
    upd_rows::<f32>(&mut upd, "n:77");
    upd_rows::<f64>(&mut upd, "n:77");
    upd_rows::<String>(&mut upd, "s:7a7a");
    let mut markers = vec![];
    for d in [None, Some(true), Some(false)] {
        for r in [false, true] {
            let v = srad_types::MetricValue::new(metric::Value::TemplateValue(payload::Template {
                version: None,
                metrics: vec![],
                parameters: vec![],
                template_ref: if r { Some("r".into()) } else { None },
                is_definition: d,
            }));
            let ok = TemplateInstance::try_from(v).is_ok();
            markers.push(format!(
                "  ({}, {}, {})",
                match d {
                    None => "none",
                    Some(true) => "some true",
                    Some(false) => "some false",
                },
                r,
                ok
            ));
        }
    }
    let template_code = <Leaf as HasDataType>::default_datatype() as u32;
    let mut s = String::from("-- GENERATED by `srad-verif table DeriveTable` from the compiled srad crates; do not edit.\n-- The leaf decisions the code generated by #[derive(Template)] delegates to srad-types:\n-- default datatypes, try_from_template_{metric,parameter}_value and try_update_from_metric_value\n-- for T / Option<T> on a sample of every value variant, and the markers accepted by\n-- TemplateInstance::try_from(MetricValue).\nimport SradModel.Model.Derive\nnamespace Srad.Generated\nopen Srad.Codec Srad.Derive\n\n");
    s.push_str("/-- (type, default_datatype of T, default_datatype of Option<T>) -/\ndef deriveDtTable : List (STy × Nat × Nat) := [\n");
    s.push_str(&dt.join(",\n"));
    s.push_str("\n]\n\n/-- default_datatype of a derived struct -/\ndef deriveTemplateCode : Nat := ");
    s.push_str(&template_code.to_string());
    s.push_str("\n\n/-- (field kind, metric value, try_from_template_metric_value: none = Err, some cell = Ok) -/\ndef deriveMetricConv : List (SKind × MVal × Option (Option SV)) := [\n");
    s.push_str(&metric.join(",\n"));
    s.push_str("\n]\n\n/-- (field kind, metric value, try_update_from_metric_value on a temporary holding another value:\nnone = Err, some cell = Ok and the temporary afterwards) -/\ndef deriveUpdConv : List (SKind × MVal × Option (Option SV)) := [\n");
    s.push_str(&upd.join(",\n"));
    s.push_str("\n]\n\n/-- (field kind, parameter value, try_from_template_parameter_value) -/\ndef deriveParamConv : List (SKind × Option PV × Option (Option SV)) := [\n");
    s.push_str(&param.join(",\n"));
    s.push_str("\n]\n\n/-- (is_definition, template_ref present, TemplateInstance::try_from accepts) -/\ndef deriveMarkers : List (Option Bool × Bool × Bool) := [\n");
    s.push_str(&markers.join(",\n"));
    s.push_str("\n]\n\nend Srad.Generated\n");
    s
}
