//! Component `nodeabs` (C08, tie of the sequential abstraction `Srad.Loop.Node` to the code): the
//! REAL edge node (`srad_eon::EoN` built by `EoNBuilder`, node "n1" in group "g", rebirth cooldown 0,
//! devices d1..dk registered and disabled, recording metric managers) behind a mock client that
//! ACCEPTS EVERY CALL; every operation is run to quiescence (`settle()`, 1 ms) before the next one
//! starts. That is exactly the regime the abstraction `Loop.Node` claims to describe, so the answers
//! of the two are compared line by line (differential, driver `Drv/Loop.lean`, `stepNodeAbs`).
//!
//! Request lines:
//!   nodeabs new devs=<d1,d2,…|_>                       => ok
//!   nodeabs online  [order=<d,…>] clock=<ms>            Event::Online through the event feeder
//!   nodeabs offline clock=<ms>                          Event::Offline
//!   nodeabs pub node clock=<ms>                         NodeHandle::publish_metrics_unsorted (blocking)
//!   nodeabs pub dev <d> clock=<ms>                      DeviceHandle::publish_metrics_unsorted (blocking)
//!   nodeabs enable <d> clock=<ms> | nodeabs disable <d> clock=<ms>
//!   nodeabs rebirth [order=<d,…>] clock=<ms>            NodeHandle::rebirth
//!   nodeabs ncmd    [order=<d,…>] clock=<ms>            NCMD `Node Control/Rebirth = true` through the feeder
//! `order=` is an OBSERVATION, present on the three birth operations when at least one DBIRTH was
//! handed over: the device numbers of the DBIRTHs in hand-over order (the iteration order of the
//! device `HashMap` with `RandomState` + the scheduling of the device tasks, not reproducible). The
//! driver passes it to the model as its permutation parameter (`Node.devs` is put into that order,
//! unlisted devices behind, before the operation runs); sequence numbers are assigned in that
//! order, so they stay exactly comparable. `clock=` is the mock clock reading at the start of the op.
//!
//! Answer: what the node handed to the client during the op, in hand-over order, `;`-joined:
//!   NBIRTH:seq=<n>:bd=<bd>  DBIRTH:d=<k>:seq=<n>  NDATA:seq=<n>  DDATA:d=<k>:seq=<n>
//!   DDEATH:d=<k>:seq=<n>    NDEATH:bd=<bd>        WILL:bd=<bd> (`EventLoop::set_last_will`)
//! `-` if nothing; subscriptions are not listed; any other client call is `OTHER:<KIND>`; a panic
//! of any task is `panic`.
use crate::common::*;
use crate::eon;
use crate::mock::*;
use async_trait::async_trait;
use prost::Message as _;
use srad_client::{Event, Message, MessageKind, NodeMessage};
use srad_eon::{
    BirthInitializer, BirthMetricDetails, DeviceHandle, DeviceMetricManager, EoNBuilder, MessageMetrics,
    MetricManager, MetricPublisher, NodeHandle, NodeMetricManager,
};
use srad_types::payload::{metric, Metric, Payload};
use std::collections::BTreeMap;
use std::panic::AssertUnwindSafe;
use std::sync::atomic::{AtomicUsize, Ordering};
use std::time::Duration;

const RULE: &str = "nontrivial = the case hands over at least one NBIRTH and at least three further sequence-numbered messages";

static PANICS: AtomicUsize = AtomicUsize::new(0);

fn install_hook() {
    std::panic::set_hook(Box::new(|_| {
        PANICS.fetch_add(1, Ordering::SeqCst);
    }));
    // the publish token is obtained from a throw-away node on its own runtime: not inside `block_on`
    eon::id_mode(None);
    let _ = eon::token();
}

// ------------------------------------------------------------------------------------------
// recording managers
// ------------------------------------------------------------------------------------------

struct RecMgr {
    hub: Hub,
    dev: Option<u32>,
}

impl MetricManager for RecMgr {
    fn initialise_birth(&self, bi: &mut BirthInitializer) {
        match self.dev {
            None => self.hub.note("B:node"),
            Some(d) => self.hub.note(format!("B:dev:{}", d)),
        }
        let _ = bi.register_metric(BirthMetricDetails::new_with_initial_value("m", 1i64).use_alias(false));
    }
}

#[async_trait]
impl NodeMetricManager for RecMgr {
    async fn on_ncmd(&self, _node: NodeHandle, _metrics: MessageMetrics) {
        self.hub.note("CB:ncmd");
    }
}

#[async_trait]
impl DeviceMetricManager for RecMgr {
    async fn on_dcmd(&self, _device: DeviceHandle, _metrics: MessageMetrics) {
        self.hub.note(format!("CB:dcmd:{}", self.dev.unwrap_or(0)));
    }
}

// ------------------------------------------------------------------------------------------
// operations
// ------------------------------------------------------------------------------------------

#[derive(Clone, Debug, PartialEq)]
pub enum Op {
    Online,
    Offline,
    PubNode,
    PubDev(u32),
    Enable(u32),
    Disable(u32),
    Rebirth,
    Ncmd,
}

impl Op {
    fn show(&self) -> String {
        match self {
            Op::Online => "online".into(),
            Op::Offline => "offline".into(),
            Op::PubNode => "pub node".into(),
            Op::PubDev(d) => format!("pub dev {}", d),
            Op::Enable(d) => format!("enable {}", d),
            Op::Disable(d) => format!("disable {}", d),
            Op::Rebirth => "rebirth".into(),
            Op::Ncmd => "ncmd".into(),
        }
    }

    fn class(&self) -> &'static str {
        match self {
            Op::Online => "online",
            Op::Offline => "offline",
            Op::PubNode => "pub-node",
            Op::PubDev(_) => "pub-dev",
            Op::Enable(_) => "enable",
            Op::Disable(_) => "disable",
            Op::Rebirth => "rebirth",
            Op::Ncmd => "ncmd",
        }
    }

    fn is_birth_op(&self) -> bool {
        matches!(self, Op::Online | Op::Rebirth | Op::Ncmd)
    }

    /// parse a request line (`nodeabs …`); the observation `order=` and `clock=` are dropped
    fn parse(line: &str) -> Option<Op> {
        let w: Vec<&str> = line
            .split(' ')
            .filter(|s| !s.is_empty() && !s.starts_with("order=") && !s.starts_with("clock="))
            .collect();
        let dev = |s: &str| s.strip_prefix('d').unwrap_or(s).parse::<u32>().ok();
        if w.first() != Some(&"nodeabs") {
            return None;
        }
        Some(match &w[1..] {
            ["online"] => Op::Online,
            ["offline"] => Op::Offline,
            ["pub", "node"] => Op::PubNode,
            ["pub", "dev", d] => Op::PubDev(dev(d)?),
            ["enable", d] => Op::Enable(dev(d)?),
            ["disable", d] => Op::Disable(dev(d)?),
            ["rebirth"] => Op::Rebirth,
            ["ncmd"] => Op::Ncmd,
            _ => return None,
        })
    }
}

/// one hand-over, canonical
#[derive(Clone, Debug, PartialEq)]
enum Ho {
    NBirth { seq: Option<u64>, bd: Option<u64> },
    DBirth { d: Option<u32>, seq: Option<u64> },
    NData { seq: Option<u64> },
    DData { d: Option<u32>, seq: Option<u64> },
    DDeath { d: Option<u32>, seq: Option<u64> },
    NDeath { bd: Option<u64>, seq: Option<u64> },
    Will { bd: Option<u64> },
    Other(String),
}

fn num(v: &Option<u64>) -> String {
    v.map(|x| x.to_string()).unwrap_or("?".into())
}
fn dnum(v: &Option<u32>) -> String {
    v.map(|x| x.to_string()).unwrap_or("?".into())
}

impl Ho {
    fn show(&self) -> String {
        match self {
            Ho::NBirth { seq, bd } => format!("NBIRTH:seq={}:bd={}", num(seq), num(bd)),
            Ho::DBirth { d, seq } => format!("DBIRTH:d={}:seq={}", dnum(d), num(seq)),
            Ho::NData { seq } => format!("NDATA:seq={}", num(seq)),
            Ho::DData { d, seq } => format!("DDATA:d={}:seq={}", dnum(d), num(seq)),
            Ho::DDeath { d, seq } => format!("DDEATH:d={}:seq={}", dnum(d), num(seq)),
            Ho::NDeath { bd, seq } => match seq {
                None => format!("NDEATH:bd={}", num(bd)),
                Some(s) => format!("NDEATH:bd={}:seq={}", num(bd), s),
            },
            Ho::Will { bd } => format!("WILL:bd={}", num(bd)),
            Ho::Other(k) => format!("OTHER:{}", k),
        }
    }
}

fn bd_of(p: &Payload) -> Option<u64> {
    p.metrics.iter().find(|m| m.name.as_deref() == Some("bdSeq")).and_then(|m| match m.value {
        Some(metric::Value::LongValue(v)) => Some(v),
        Some(metric::Value::IntValue(v)) => Some(v as u64),
        _ => None,
    })
}

// ------------------------------------------------------------------------------------------
// oracle NODEABS:seq-chain — stated over the hand-overs only, independent of the model
// ------------------------------------------------------------------------------------------

struct Oracle {
    /// user level: the last connection report was Online
    online: bool,
    /// the sequence number the next seq-bearing hand-over must carry; None = no NBIRTH handed over
    /// since the connection was last reported lost (or ever)
    next: Option<u64>,
    nbirths: u64,
    seqmsgs: u64,
}

impl Oracle {
    fn new() -> Oracle {
        Oracle { online: false, next: None, nbirths: 0, seqmsgs: 0 }
    }

    fn op(&mut self, op: &Op, hos: &[Ho], here: &str, out: &mut Out) {
        match op {
            Op::Online => self.online = true,
            Op::Offline => {
                self.online = false;
                self.next = None;
            }
            _ => {}
        }
        for h in hos {
            let seq_bearing: Option<(&'static str, Option<u64>)> = match h {
                Ho::NBirth { seq, .. } => {
                    self.nbirths += 1;
                    if !self.online {
                        out.fail("NODEABS:seq-chain", "NBIRTH:offline", format!("{} handed over while offline; {}", h.show(), here));
                    }
                    if *seq != Some(0) {
                        out.fail("NODEABS:seq-chain", "NBIRTH:seq-not-0", format!("{}; {}", h.show(), here));
                    }
                    self.next = Some(1);
                    None
                }
                Ho::DBirth { seq, .. } => Some(("DBIRTH", *seq)),
                Ho::NData { seq } => Some(("NDATA", *seq)),
                Ho::DData { seq, .. } => Some(("DDATA", *seq)),
                Ho::DDeath { seq, .. } => Some(("DDEATH", *seq)),
                Ho::NDeath { seq, .. } => {
                    if seq.is_some() {
                        out.fail("NODEABS:seq-chain", "NDEATH:has-seq", format!("{}; {}", h.show(), here));
                    }
                    None
                }
                Ho::Will { .. } => None,
                Ho::Other(k) => {
                    out.fail("NODEABS:unexpected-client-call", k, format!("{}; {}", h.show(), here));
                    None
                }
            };
            if let Some((kind, seq)) = seq_bearing {
                self.seqmsgs += 1;
                if !self.online {
                    out.fail("NODEABS:seq-chain", &format!("{}:offline", kind), format!("{} handed over while offline; {}", h.show(), here));
                }
                match (self.next, seq) {
                    (None, _) => out.fail("NODEABS:seq-chain", &format!("{}:unbirthed", kind), format!("{} handed over with no NBIRTH on this connection; {}", h.show(), here)),
                    (Some(x), Some(s)) if x == s => self.next = Some((x + 1) % 256),
                    (Some(x), got) => {
                        out.fail("NODEABS:seq-chain", &format!("{}:not-consecutive", kind), format!("{} carries seq {:?}, expected {}; {}", h.show(), got, x, here));
                        self.next = got.map(|s| (s + 1) % 256);
                    }
                }
            }
        }
    }
}

// ------------------------------------------------------------------------------------------
// the session
// ------------------------------------------------------------------------------------------

pub struct Sess {
    rt: Option<tokio::runtime::Runtime>,
    hub: Hub,
    feeder: EventFeeder,
    node: NodeHandle,
    devs: BTreeMap<u32, DeviceHandle>,
    mark: usize,
    panics: usize,
    orc: Oracle,
    /// DBIRTH order of the first birth op that handed over >= 2 DBIRTHs (statistics)
    first_order: Option<Vec<u32>>,
}

impl Sess {
    fn new(devs: &[u32]) -> Sess {
        eon::id_mode(None);
        let rt = runtime();
        let (hub, client, el, feeder) = mock_pair();
        let h2 = hub.clone();
        let names: Vec<u32> = devs.to_vec();
        let (node, handles) = rt.block_on(async move {
            set_clocks(1_000_000);
            let (eon, node) = EoNBuilder::new(el, client)
                .with_group_id("g")
                .with_node_id("n1")
                .with_rebirth_cmd_cooldown(Duration::from_millis(0))
                .with_metric_manager(RecMgr { hub: h2.clone(), dev: None })
                .build()
                .unwrap();
            let mut handles = BTreeMap::new();
            for d in names {
                let h = node
                    .register_device(format!("d{}", d), RecMgr { hub: h2.clone(), dev: Some(d) })
                    .unwrap();
                handles.insert(d, h);
            }
            tokio::spawn(eon.run());
            settle().await;
            (node, handles)
        });
        let mark = hub.trace_len();
        Sess {
            rt: Some(rt),
            hub,
            feeder,
            node,
            devs: handles,
            mark,
            panics: PANICS.load(Ordering::SeqCst),
            orc: Oracle::new(),
            first_order: None,
        }
    }

    fn collect(&mut self) -> Vec<Ho> {
        let obs = self.hub.trace_from(self.mark);
        self.mark = self.hub.trace_len();
        let mut v = vec![];
        for o in &obs {
            match o {
                Obs::Call(id) => {
                    let c = self.hub.call(*id);
                    let d = c.topic.rsplit('/').next().and_then(|s| s.strip_prefix('d')).and_then(|s| s.parse::<u32>().ok());
                    let (seq, bd) = match &c.payload {
                        Some(p) => (p.seq, bd_of(p)),
                        None => (None, None),
                    };
                    match c.kind {
                        Kind::Subscribe => {}
                        Kind::NBirth => v.push(Ho::NBirth { seq, bd }),
                        Kind::DBirth => v.push(Ho::DBirth { d, seq }),
                        Kind::NData => v.push(Ho::NData { seq }),
                        Kind::DData => v.push(Ho::DData { d, seq }),
                        Kind::DDeath => v.push(Ho::DDeath { d, seq }),
                        Kind::NDeath => v.push(Ho::NDeath { bd, seq }),
                        k => v.push(Ho::Other(k.name().to_string())),
                    }
                }
                Obs::SetWill(w) => {
                    let p = Payload::decode(w.payload.as_slice()).ok();
                    v.push(Ho::Will { bd: p.as_ref().and_then(bd_of) });
                }
                _ => {}
            }
        }
        v
    }

    /// run one operation on the real node to quiescence; returns (request line, answer)
    fn exec(&mut self, op: &Op, out: &mut Out) -> (String, String) {
        let clock = now_ms();
        let rt = match self.rt.take() {
            Some(rt) => rt,
            None => return (format!("nodeabs {} clock={}", op.show(), clock), "panic".into()),
        };
        let mut pub_result: Option<bool> = None;
        let r = catch(AssertUnwindSafe(|| {
            rt.block_on(async {
                match op {
                    Op::Online => {
                        self.feeder.push(Event::Online);
                    }
                    Op::Offline => {
                        self.feeder.push(Event::Offline);
                    }
                    Op::PubNode => {
                        let ms = vec![eon::token().create_publish_metric(Some(7i64)).timestamp(now_ms())];
                        pub_result = Some(self.node.publish_metrics_unsorted(ms).await.is_ok());
                    }
                    Op::PubDev(d) => {
                        if let Some(h) = self.devs.get(d) {
                            let ms = vec![eon::token().create_publish_metric(Some(7i64)).timestamp(now_ms())];
                            pub_result = Some(h.publish_metrics_unsorted(ms).await.is_ok());
                        }
                    }
                    Op::Enable(d) => {
                        if let Some(h) = self.devs.get(d) {
                            h.enable();
                        }
                    }
                    Op::Disable(d) => {
                        if let Some(h) = self.devs.get(d) {
                            h.disable();
                        }
                    }
                    Op::Rebirth => self.node.rebirth(),
                    Op::Ncmd => {
                        let mut m = Metric::new();
                        m.set_name("Node Control/Rebirth".into());
                        m.set_value(metric::Value::BooleanValue(true));
                        let p = Payload { timestamp: Some(now_ms()), metrics: vec![m], seq: None, uuid: None, body: None };
                        self.feeder.push(Event::Node(NodeMessage {
                            group_id: "g".into(),
                            node_id: "n1".into(),
                            message: Message { payload: p, kind: MessageKind::Cmd },
                        }));
                    }
                }
                settle().await;
            })
        }));
        let hos = self.collect();
        let p = PANICS.load(Ordering::SeqCst);
        let panicked = r.is_err() || p != self.panics;
        self.panics = p;
        if r.is_ok() {
            self.rt = Some(rt);
        } else {
            drop(rt);
        }
        // the observed DBIRTH order of a birth operation is a parameter of the request
        let mut line = format!("nodeabs {}", op.show());
        if op.is_birth_op() {
            let order: Vec<u32> = hos.iter().filter_map(|h| if let Ho::DBirth { d: Some(d), .. } = h { Some(*d) } else { None }).collect();
            if !order.is_empty() {
                line.push_str(&format!(" order={}", order.iter().map(|d| d.to_string()).collect::<Vec<_>>().join(",")));
                if order.len() >= 2 {
                    let mut sorted = order.clone();
                    sorted.sort();
                    out.count(if sorted == order { "dbirth-order:ascending" } else { "dbirth-order:permuted" });
                    match &self.first_order {
                        None => self.first_order = Some(order.clone()),
                        Some(f) => {
                            // relative order of the devices present in both
                            let a: Vec<u32> = f.iter().filter(|d| order.contains(d)).cloned().collect();
                            let b: Vec<u32> = order.iter().filter(|d| f.contains(d)).cloned().collect();
                            out.count(if a == b { "dbirth-order:same-as-first-in-case" } else { "dbirth-order:differs-from-first-in-case" });
                        }
                    }
                }
            }
        }
        line.push_str(&format!(" clock={}", clock));
        let answer = if panicked {
            "panic".to_string()
        } else if hos.is_empty() {
            "-".to_string()
        } else {
            hos.iter().map(|h| h.show()).collect::<Vec<_>>().join(";")
        };
        // statistics
        out.count(&format!("op:{}", op.class()));
        out.count_n("messages-compared", hos.len() as u64);
        for h in &hos {
            out.count(&format!("handover:{}", h.show().split(':').next().unwrap()));
        }
        if hos.is_empty() {
            out.count(&format!("silent:{}", op.class()));
        }
        if let Some(ok) = pub_result {
            out.count(if ok { "publish:ok" } else { "publish:err" });
            // a blocking publish on the accepting client succeeds iff it handed its message over
            let handed = hos.iter().any(|h| matches!((op, h), (Op::PubNode, Ho::NData { .. }) | (Op::PubDev(_), Ho::DData { .. })));
            if ok != handed && !panicked {
                out.fail("NODEABS:publish-result", op.class(), format!("publish returned ok={} but handed over: {}", ok, answer));
            }
        }
        let here = format!("`{}` => {}", line, answer);
        if panicked {
            out.fail("NODEABS:panic", op.class(), format!("a task panicked during {}", here));
        }
        self.orc.op(op, &hos, &here, out);
        (line, answer)
    }
}

fn devs_tok(devs: &[u32]) -> String {
    if devs.is_empty() {
        "_".into()
    } else {
        devs.iter().map(|d| d.to_string()).collect::<Vec<_>>().join(",")
    }
}

/// one case: build the node with `devs`, apply `ops`
fn run_case(out: &mut Out, devs: &[u32], ops: &[Op], stat: &str) {
    let mut s = Sess::new(devs);
    out.begin_case(&format!("nodeabs new devs={}", devs_tok(devs)), "ok");
    out.set_desc(stat.to_string());
    for op in ops {
        let (line, ans) = s.exec(op, out);
        out.line(&line, &ans);
    }
    if s.orc.nbirths >= 1 && s.orc.seqmsgs >= 3 {
        out.nontrivial();
    }
    out.count(&format!("case:{}", stat.split(':').next().unwrap()));
    out.count(&format!("devices:{}", devs.len()));
}

fn alphabet(devs: &[u32]) -> Vec<Op> {
    let mut v = vec![Op::Online, Op::Offline, Op::PubNode, Op::Rebirth, Op::Ncmd];
    for d in devs {
        v.push(Op::PubDev(*d));
        v.push(Op::Enable(*d));
        v.push(Op::Disable(*d));
    }
    v
}

fn random_op(rng: &mut Rng, devs: &[u32], online_bias: bool) -> Op {
    let r = rng.below(100);
    let dev = |rng: &mut Rng| *rng.pick(devs);
    if devs.is_empty() {
        return match r {
            0..=19 => Op::Online,
            20..=31 => Op::Offline,
            32..=65 => Op::PubNode,
            66..=82 => Op::Rebirth,
            _ => Op::Ncmd,
        };
    }
    let on = if online_bias { 16 } else { 9 };
    match r {
        x if x < on => Op::Online,
        x if x < on + 7 => Op::Offline,
        x if x < on + 19 => Op::PubNode,
        x if x < on + 41 => Op::PubDev(dev(rng)),
        x if x < on + 57 => Op::Enable(dev(rng)),
        x if x < on + 66 => Op::Disable(dev(rng)),
        x if x < on + 75 => Op::Rebirth,
        _ => Op::Ncmd,
    }
}

pub fn run(args: &Args, out: &mut Out) -> &'static str {
    install_hook();
    let mut rng = Rng::new(args.seed);
    let th = args.thorough();

    // (S) scripted: the life of a node, the two wraps
    {
        use Op::*;
        run_case(
            out,
            &[1, 2, 3],
            &[
                PubNode, Enable(1), PubDev(1), Online, PubNode, PubDev(1), PubDev(2), Enable(2), PubDev(2), Disable(1), PubDev(1), Rebirth,
                Ncmd, Enable(3), Enable(3), Disable(2), Disable(2), Offline, PubNode, PubDev(3), Rebirth, Ncmd, Disable(3), Enable(1), Offline,
                Online, Online, PubDev(1), PubDev(3), Rebirth, Enable(3), Ncmd,
            ],
            "scripted:lifecycle",
        );
        // sequence number wrap (u8): > 256 seq-bearing hand-overs within one birth
        let mut ops = vec![Enable(1), Enable(2), Online];
        for i in 0..300 {
            ops.push(match i % 5 {
                0 => PubNode,
                1 => PubDev(1),
                2 => Disable(2),
                3 => Enable(2),
                _ => PubDev(2),
            });
        }
        ops.push(Rebirth);
        ops.push(PubNode);
        run_case(out, &[1, 2], &ops, "scripted:seq-wrap");
        // bdSeq wrap (u8): > 256 connection losses
        let mut ops = vec![Enable(1)];
        for _ in 0..258 {
            ops.push(Online);
            ops.push(Offline);
        }
        ops.push(Online);
        ops.push(Ncmd);
        ops.push(PubDev(1));
        run_case(out, &[1], &ops, "scripted:bdseq-wrap");
    }

    // (X) exhaustive: every op sequence of length <= 4 over 2 devices from the freshly built node
    // (every sequence of length 4 is run; the shorter ones are their prefixes, compared line by line)
    {
        let devs = [1u32, 2];
        let a = alphabet(&devs);
        let n = a.len();
        let len = 4usize;
        let total = n.pow(len as u32);
        for code in 0..total {
            let mut c = code;
            let mut ops = Vec::with_capacity(len);
            for _ in 0..len {
                ops.push(a[c % n].clone());
                c /= n;
            }
            ops.reverse();
            run_case(out, &devs, &ops, "exhaustive:len4");
        }
        out.exhaustive.push(format!(
            "every sequence of length <= 4 over the {} operations (online, offline, pub node, rebirth, ncmd, and pub dev / enable / disable of each of 2 devices) from the freshly built node: {} sequences of length 4, the shorter ones as their prefixes",
            n, total
        ));
    }

    // (R) random sequences, 10-60 ops, 0-4 devices
    let nrandom = if th { 24000 } else { 2400 };
    for _ in 0..nrandom {
        let mut r = rng.fork();
        let k = r.below(5) as u32;
        let devs: Vec<u32> = (1..=k).collect();
        let nops = r.range(10, 60) as usize;
        let bias = r.chance(1, 2);
        let mut ops = Vec::with_capacity(nops);
        // most cases enable a few devices and connect early, so that the births have something to do
        if r.chance(3, 4) {
            for d in &devs {
                if r.chance(2, 3) {
                    ops.push(Op::Enable(*d));
                }
            }
            if r.chance(4, 5) {
                ops.push(Op::Online);
            }
        }
        while ops.len() < nops {
            ops.push(random_op(&mut r, &devs, bias));
        }
        run_case(out, &devs, &ops, "random");
    }
    RULE
}

/// replay: the request lines of one case; `order=` / `clock=` are observations and are re-observed
pub fn replay(_desc: &str, lines: &[String], out: &mut Out) {
    install_hook();
    let mut sess: Option<Sess> = None;
    for l in lines {
        let w: Vec<&str> = l.split(' ').filter(|s| !s.is_empty()).collect();
        if w.len() == 3 && w[0] == "nodeabs" && w[1] == "new" {
            let devs: Option<Vec<u32>> = w[2].strip_prefix("devs=").map(|v| {
                if v == "_" {
                    vec![]
                } else {
                    v.split(',').filter_map(|s| s.strip_prefix('d').unwrap_or(s).parse().ok()).collect()
                }
            });
            match devs {
                Some(devs) => {
                    sess = Some(Sess::new(&devs));
                    out.begin_case(&format!("nodeabs new devs={}", devs_tok(&devs)), "ok");
                }
                None => {
                    out.begin_case(l, "bad-op");
                    sess = None;
                }
            }
            continue;
        }
        match (Op::parse(l), sess.as_mut()) {
            (Some(op), Some(s)) => {
                let known = match &op {
                    Op::PubDev(d) | Op::Enable(d) | Op::Disable(d) => s.devs.contains_key(d),
                    _ => true,
                };
                if known {
                    let (line, ans) = s.exec(&op, out);
                    out.line(&line, &ans);
                } else {
                    out.line(l, "bad-op");
                }
            }
            _ => {
                if out.cases == 0 {
                    out.begin_case(l, "bad-op");
                } else {
                    out.line(l, "bad-op");
                }
            }
        }
    }
}
